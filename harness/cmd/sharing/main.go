// sharing drives pkg/mpc/sharing (access structures, MSP induction, KW / Shamir / additive /
// ISN / Tassa schemes, Feldman and Pedersen VSS) and pkg/mpc.NewBaseShard on the toy field and
// toy group and logs every call with its arguments and projected result (C02, C05).
// Nothing is judged here: the TLA+ trace specifications SharingTrace / VSSTrace decide.
// The only values computed by the harness itself are linear-algebra certificates (a
// reconstruction vector or a privacy witness, found by its own elimination mod q), which the
// specification verifies by multiplication.
package main

import (
	"encoding/json"
	"flag"
	"fmt"
	"io"
	"os"
	"sort"
	"strings"

	ds "github.com/bronlabs/bron-crypto/pkg/base/datastructures"
	"github.com/bronlabs/bron-crypto/pkg/base/datastructures/hashset"
	"github.com/bronlabs/bron-crypto/pkg/base/mat"
	pedcom "github.com/bronlabs/bron-crypto/pkg/commitments/pedersencom"
	"github.com/bronlabs/bron-crypto/pkg/mpc"
	"github.com/bronlabs/bron-crypto/pkg/mpc/sharing"
	"github.com/bronlabs/bron-crypto/pkg/mpc/sharing/accessstructures"
	"github.com/bronlabs/bron-crypto/pkg/mpc/sharing/accessstructures/boolexpr"
	"github.com/bronlabs/bron-crypto/pkg/mpc/sharing/accessstructures/cnf"
	"github.com/bronlabs/bron-crypto/pkg/mpc/sharing/accessstructures/hierarchical"
	"github.com/bronlabs/bron-crypto/pkg/mpc/sharing/accessstructures/threshold"
	"github.com/bronlabs/bron-crypto/pkg/mpc/sharing/accessstructures/unanimity"
	"github.com/bronlabs/bron-crypto/pkg/mpc/sharing/scheme/additive"
	"github.com/bronlabs/bron-crypto/pkg/mpc/sharing/scheme/isn"
	"github.com/bronlabs/bron-crypto/pkg/mpc/sharing/scheme/kw"
	"github.com/bronlabs/bron-crypto/pkg/mpc/sharing/scheme/kw/msp"
	"github.com/bronlabs/bron-crypto/pkg/mpc/sharing/scheme/shamir"
	"github.com/bronlabs/bron-crypto/pkg/mpc/sharing/scheme/tassa"
	"github.com/bronlabs/bron-crypto/pkg/mpc/sharing/vss/feldman"
	"github.com/bronlabs/bron-crypto/pkg/mpc/sharing/vss/pedersen"

	"verif/harness/toy"
	"verif/harness/tr"
)

type (
	S  = *toy.Scalar
	E  = *toy.Elem
	ID = sharing.ID
)

var (
	w     *tr.W
	q     uint64
	kseq  int
	seed  uint64
	field = toy.NewScalarField()
	group = toy.NewGroup()

	flagDeals   int
	flagExh     int
	flagMaxN    int
	flagCnfN    int
	flagLeaves  int
	flagCap     int
	flagDeltas  int
	flagIDKinds string
)

var curDeg []string

func emit(a string, ev map[string]any) {
	kseq++
	if _, has := ev["pol"]; has {
		ev["deg"] = append([]string{}, curDeg...)
	}
	ev["a"] = a
	ev["k"] = fmt.Sprintf("%s#%d", a, kseq)
	w.Emit(ev)
}

func must[T any](v T, err error) T {
	if err != nil {
		panic(err)
	}
	return v
}

func errStr(err error) string { return tr.ErrClass(err) }

// tryV is try for a variadic call f(args...).
func tryV[A any, T any](f func(...A) (T, error), args []A) (T, error) {
	return try(func() (T, error) { return f(args...) })
}

// try runs a library call and turns a panic into an error (logged as such; the specification decides).
func try[T any](f func() (T, error)) (v T, err error) {
	defer func() {
		if r := recover(); r != nil {
			err = fmt.Errorf("PANIC: %v", r)
		}
	}()
	return f()
}

// ---------------------------------------------------------------- small helpers

func u(ids []ID) []uint64 {
	out := make([]uint64, len(ids))
	for i, x := range ids {
		out[i] = uint64(x)
	}
	return out
}
func toIDs(v []uint64) []ID {
	out := make([]ID, len(v))
	for i, x := range v {
		out[i] = ID(x)
	}
	return out
}
func idSet(v []uint64) ds.Set[ID] { return hashset.NewComparable(toIDs(v)...).Freeze() }
func sorted(v []uint64) []uint64 {
	out := append([]uint64{}, v...)
	sort.Slice(out, func(i, j int) bool { return out[i] < out[j] })
	return out
}
func ints(ss []S) []uint64 { return tr.Ints(ss) }
func emptyU() []uint64     { return []uint64{} }

// subsets of v in mask order (the empty set first)
func subsetsOf(v []uint64) [][]uint64 {
	n := len(v)
	out := make([][]uint64, 0, 1<<n)
	for m := 0; m < 1<<n; m++ {
		s := []uint64{}
		for i := 0; i < n; i++ {
			if m>>i&1 == 1 {
				s = append(s, v[i])
			}
		}
		out = append(out, s)
	}
	return out
}

// valueReader makes field.Random return chosen values: the toy field reads 16 bytes per draw
// and reduces them mod q; after the chosen values it continues with a seeded stream.
type valueReader struct {
	vals []uint64
	rest io.Reader
	buf  []byte
}

func (r *valueReader) Read(p []byte) (int, error) {
	n := 0
	for n < len(p) {
		if len(r.buf) == 0 {
			if len(r.vals) == 0 {
				m, err := r.rest.Read(p[n:])
				return n + m, err
			}
			r.buf = make([]byte, 16)
			v := r.vals[0]
			r.vals = r.vals[1:]
			for i := 0; i < 8; i++ {
				r.buf[i] = byte(v >> (8 * i))
			}
		}
		c := copy(p[n:], r.buf)
		r.buf = r.buf[c:]
		n += c
	}
	return n, nil
}

var rngStream uint64

func rng() io.Reader { rngStream++; return tr.Rng(seed, rngStream) }
func chosen(vals ...uint64) io.Reader {
	return &valueReader{vals: append([]uint64{}, vals...), rest: rng()}
}

// ---------------------------------------------------------------- own linear algebra mod q (certificates only)

func mulq(a, b uint64) uint64 { return a * b % q }
func powq(b, e uint64) uint64 {
	r := uint64(1)
	for b %= q; e > 0; e >>= 1 {
		if e&1 == 1 {
			r = r * b % q
		}
		b = b * b % q
	}
	return r
}
func invq(a uint64) uint64 { return powq(a, q-2) }

// solve finds x with A x = b (A is m x n) or reports that none exists.
func solve(A [][]uint64, b []uint64, n int) ([]uint64, bool) {
	m := len(A)
	aug := make([][]uint64, m)
	for i := range A {
		aug[i] = append(append([]uint64{}, A[i]...), b[i])
	}
	pivcol := []int{}
	row := 0
	for col := 0; col < n && row < m; col++ {
		p := -1
		for i := row; i < m; i++ {
			if aug[i][col] != 0 {
				p = i
				break
			}
		}
		if p < 0 {
			continue
		}
		aug[row], aug[p] = aug[p], aug[row]
		iv := invq(aug[row][col])
		for j := col; j <= n; j++ {
			aug[row][j] = mulq(aug[row][j], iv)
		}
		for i := 0; i < m; i++ {
			if i != row && aug[i][col] != 0 {
				f := aug[i][col]
				for j := col; j <= n; j++ {
					aug[i][j] = (aug[i][j] + q - mulq(f, aug[row][j])) % q
				}
			}
		}
		pivcol = append(pivcol, col)
		row++
	}
	for i := row; i < m; i++ {
		if aug[i][n] != 0 {
			return nil, false
		}
	}
	x := make([]uint64, n)
	for i, c := range pivcol {
		x[c] = aug[i][n]
	}
	return x, true
}

// certificate for "e0 in the span of the rows": either c with c*M_rows = e0 ("c") or kappa with
// kappa[0] = 1 and M_rows*kappa = 0 ("w").  Exactly one exists; the harness checks its own output.
func certify(M [][]uint64, rows []int) map[string]any {
	if len(M) == 0 {
		return map[string]any{"k": "w", "v": emptyU()}
	}
	d := len(M[0])
	if len(rows) == 0 {
		kap := make([]uint64, d)
		kap[0] = 1
		return map[string]any{"k": "w", "v": kap}
	}
	// transpose system: (M_rows)^T c = e0
	T := make([][]uint64, d)
	e0 := make([]uint64, d)
	e0[0] = 1
	for j := 0; j < d; j++ {
		T[j] = make([]uint64, len(rows))
		for k, r := range rows {
			T[j][k] = M[r][j]
		}
	}
	if c, ok := solve(T, e0, len(rows)); ok {
		for j := 0; j < d; j++ {
			var acc uint64
			for k, r := range rows {
				acc = (acc + mulq(c[k], M[r][j])) % q
			}
			if acc != e0[j] {
				panic("harness: bad reconstruction certificate")
			}
		}
		return map[string]any{"k": "c", "v": c}
	}
	// M_rows[:,1:] kappa' = -M_rows[:,0]
	A := make([][]uint64, len(rows))
	b := make([]uint64, len(rows))
	for k, r := range rows {
		A[k] = append([]uint64{}, M[r][1:]...)
		b[k] = (q - M[r][0]) % q
	}
	kp, ok := solve(A, b, d-1)
	if !ok {
		panic("harness: neither certificate exists")
	}
	kap := append([]uint64{1}, kp...)
	for _, r := range rows {
		var acc uint64
		for j := 0; j < d; j++ {
			acc = (acc + mulq(M[r][j], kap[j])) % q
		}
		if acc != 0 {
			panic("harness: bad privacy certificate")
		}
	}
	return map[string]any{"k": "w", "v": kap}
}

// ---------------------------------------------------------------- policies

type level struct {
	t  int
	ps []int // abstract holders
}
type node struct {
	leaf int // abstract holder, -1 for a gate
	t    int
	ch   []*node
}

// abstract policy over holders 0..n-1
type apol struct {
	fam    string
	n      int
	t      int
	mus    [][]int
	levels []level
	root   *node
}

type policy struct {
	ap      apol
	ids     []uint64 // abstract holder -> id
	idkind  string
	holders []uint64 // sorted ids
	rec     map[string]any
	ac      accessstructures.Monotone
	acErr   error
	subs    [][]uint64
	deg     []string
}

func (p *policy) mapIDs(v []int) []uint64 {
	out := make([]uint64, len(v))
	for i, x := range v {
		out[i] = p.ids[x]
	}
	return out
}

func buildNode(p *policy, nd *node, nodes *[]map[string]any) (int, *boolexpr.Node) {
	idx := len(*nodes)
	*nodes = append(*nodes, nil)
	if nd.leaf >= 0 {
		id := p.ids[nd.leaf]
		(*nodes)[idx] = map[string]any{"kind": "leaf", "id": id, "t": 0, "ch": []int{}}
		return idx + 1, boolexpr.ID(ID(id))
	}
	chIdx := []int{}
	chN := []*boolexpr.Node{}
	for _, c := range nd.ch {
		ci, cn := buildNode(p, c, nodes)
		chIdx = append(chIdx, ci)
		chN = append(chN, cn)
	}
	(*nodes)[idx] = map[string]any{"kind": "gate", "id": 0, "t": nd.t, "ch": chIdx}
	return idx + 1, boolexpr.Threshold(nd.t, chN...)
}

func realize(ap apol, ids []uint64, idkind string) *policy {
	p := &policy{ap: ap, ids: ids, idkind: idkind, holders: sorted(ids)}
	p.subs = subsetsOf(p.holders)
	rec := map[string]any{"fam": ap.fam, "holders": p.holders}
	switch ap.fam {
	case "threshold":
		rec["t"] = ap.t
		p.ac, p.acErr = threshold.NewThresholdAccessStructure(uint(ap.t), idSet(p.holders))
	case "unanimity":
		p.ac, p.acErr = unanimity.NewUnanimityAccessStructure(idSet(p.holders))
	case "cnf":
		mus := [][]uint64{}
		sets := []ds.Set[ID]{}
		for _, m := range ap.mus {
			s := sorted(p.mapIDs(m))
			mus = append(mus, s)
			sets = append(sets, idSet(s))
		}
		rec["mus"] = mus
		p.ac, p.acErr = cnf.NewCNFAccessStructure(sets...)
	case "hier":
		lv := []map[string]any{}
		ls := []*hierarchical.ThresholdLevel{}
		for _, l := range ap.levels {
			ps := p.mapIDs(l.ps)
			lv = append(lv, map[string]any{"t": l.t, "ps": ps})
			ls = append(ls, hierarchical.WithLevel(l.t, toIDs(ps)...))
		}
		rec["levels"] = lv
		p.ac, p.acErr = hierarchical.NewHierarchicalConjunctiveThresholdAccessStructure(ls...)
	case "tree":
		nodes := []map[string]any{}
		ri, rn := buildNode(p, ap.root, &nodes)
		rec["nodes"] = nodes
		rec["root"] = ri
		p.ac, p.acErr = boolexpr.NewThresholdGateAccessStructure(rn)
	}
	p.rec = rec
	if p.acErr == nil {
		p.deg = degeneracy(p)
	}
	return p
}

// degeneracy tags a policy (for naming cases only): "dummy" if some holder never matters,
// "solo" if some holder is qualified alone, "none" if no set is qualified.  It is read off the
// library's own IsQualified, which the "access" line validates against the specification.
func degeneracy(p *policy) []string {
	out := []string{}
	dummy, solo := false, false
	for _, h := range p.holders {
		matters := false
		for _, s := range p.subs {
			with := append(append([]uint64{}, s...), h)
			if p.ac.IsQualified(toIDs(with)...) != p.ac.IsQualified(toIDs(s)...) {
				matters = true
				break
			}
		}
		if !matters {
			dummy = true
		}
		if p.ac.IsQualified(ID(h)) {
			solo = true
		}
	}
	if !p.ac.IsQualified(toIDs(p.holders)...) {
		out = append(out, "none")
	}
	if dummy {
		out = append(out, "dummy")
	}
	if solo {
		out = append(out, "solo")
	}
	return out
}

// fromRec rebuilds a policy from its logged JSON record (replay of a single case).
func fromRec(rec map[string]any) *policy {
	nums := func(v any) []uint64 {
		out := []uint64{}
		for _, x := range v.([]any) {
			out = append(out, uint64(x.(float64)))
		}
		return out
	}
	fam := rec["fam"].(string)
	holders := nums(rec["holders"])
	p := &policy{ap: apol{fam: fam, n: len(holders)}, ids: holders, idkind: "replay", holders: sorted(holders), rec: rec}
	p.subs = subsetsOf(p.holders)
	switch fam {
	case "threshold":
		p.ap.t = int(rec["t"].(float64))
		p.ac, p.acErr = threshold.NewThresholdAccessStructure(uint(p.ap.t), idSet(p.holders))
	case "unanimity":
		p.ac, p.acErr = unanimity.NewUnanimityAccessStructure(idSet(p.holders))
	case "cnf":
		sets := []ds.Set[ID]{}
		for _, m := range rec["mus"].([]any) {
			sets = append(sets, idSet(nums(m)))
		}
		p.ac, p.acErr = cnf.NewCNFAccessStructure(sets...)
	case "hier":
		ls := []*hierarchical.ThresholdLevel{}
		for _, l := range rec["levels"].([]any) {
			lm := l.(map[string]any)
			t := int(lm["t"].(float64))
			p.ap.levels = append(p.ap.levels, level{t: t})
			ls = append(ls, hierarchical.WithLevel(t, toIDs(nums(lm["ps"]))...))
		}
		p.ac, p.acErr = hierarchical.NewHierarchicalConjunctiveThresholdAccessStructure(ls...)
	case "tree":
		nodes := rec["nodes"].([]any)
		var build func(i int) *boolexpr.Node
		build = func(i int) *boolexpr.Node {
			nd := nodes[i-1].(map[string]any)
			if nd["kind"].(string) == "leaf" {
				return boolexpr.ID(ID(uint64(nd["id"].(float64))))
			}
			ch := []*boolexpr.Node{}
			for _, c := range nd["ch"].([]any) {
				ch = append(ch, build(int(c.(float64))))
			}
			return boolexpr.Threshold(int(nd["t"].(float64)), ch...)
		}
		p.ac, p.acErr = boolexpr.NewThresholdGateAccessStructure(build(int(rec["root"].(float64))))
	}
	if p.acErr == nil {
		p.deg = degeneracy(p)
	}
	return p
}

// ---- enumeration of abstract policies

func thresholdPols(maxn int) []apol {
	out := []apol{}
	for n := 2; n <= maxn; n++ {
		for t := 2; t <= n; t++ {
			out = append(out, apol{fam: "threshold", n: n, t: t})
		}
	}
	return out
}
func unanimityPols(maxn int) []apol {
	out := []apol{}
	for n := 2; n <= maxn; n++ {
		out = append(out, apol{fam: "unanimity", n: n})
	}
	return out
}

// antichains of non-empty subsets of 0..n-1 whose union is everything, built incrementally:
// candidates are visited in mask order and a set is added only if it is incomparable with all chosen.
func antichains(n int) [][]int {
	out := [][]int{}
	var rec func(next int, chosen []int, union int)
	full := 1<<n - 1
	rec = func(next int, chosen []int, union int) {
		if next > full {
			if len(chosen) > 0 && union == full {
				out = append(out, append([]int{}, chosen...))
			}
			return
		}
		rec(next+1, chosen, union)
		for _, c := range chosen {
			if c&next == c || c&next == next {
				return
			}
		}
		rec(next+1, append(chosen, next), union|next)
	}
	rec(1, nil, 0)
	return out
}
func maskToSet(m int) []int {
	s := []int{}
	for i := 0; m>>i > 0; i++ {
		if m>>i&1 == 1 {
			s = append(s, i)
		}
	}
	return s
}
func cnfPols(maxn int) []apol {
	out := []apol{}
	for n := 2; n <= maxn; n++ {
		for _, a := range antichains(n) {
			mus := [][]int{}
			for _, m := range a {
				mus = append(mus, maskToSet(m))
			}
			out = append(out, apol{fam: "cnf", n: n, mus: mus})
		}
	}
	return out
}

// every split of n holders into consecutive levels (the first non-empty, later ones possibly empty, never two empty
// ones in a row) with strictly increasing cumulative thresholds
func hierPols(maxn int) []apol {
	out := []apol{}
	for n := 1; n <= maxn; n++ {
		var comps func(left int, cur []int)
		comps = func(left int, cur []int) {
			if left == 0 {
				// thresholds
				var ths func(i, prev, cum int, ts []int)
				ths = func(i, prev, cum int, ts []int) {
					if i == len(cur) {
						lv := []level{}
						start := 0
						for k, sz := range cur {
							ps := []int{}
							for x := start; x < start+sz; x++ {
								ps = append(ps, x)
							}
							start += sz
							lv = append(lv, level{t: ts[k], ps: ps})
						}
						out = append(out, apol{fam: "hier", n: n, levels: lv})
						return
					}
					cum += cur[i]
					for t := prev + 1; t <= cum; t++ {
						ths(i+1, t, cum, append(append([]int{}, ts...), t))
					}
				}
				ths(0, 0, 0, nil)
				if len(cur) < n && cur[len(cur)-1] != 0 { // a trailing level without parties
					comps(0, append(append([]int{}, cur...), 0))
				}
				return
			}
			for sz := 1; sz <= left; sz++ {
				comps(left-sz, append(append([]int{}, cur...), sz))
			}
			// a later level may bring no parties of its own: it only raises the cumulative threshold (at most n levels)
			if len(cur) >= 1 && len(cur) < n && cur[len(cur)-1] != 0 {
				comps(left, append(append([]int{}, cur...), 0))
			}
		}
		comps(n, nil)
	}
	return out
}

// gate trees of depth <= 2: a root gate whose children are leaves or gates over leaves; leaves are
// labelled by holders (all n used; the same holder may occur under different gates, never twice
// as a direct leaf child of one gate).
func treePols(maxLeaves, maxn int, cap int, pr interface{ IntN(int) int }) []apol {
	type shape struct{ sub []int } // sub[i] = 0 for a leaf child, k>0 for a gate with k leaves
	shapes := []shape{}
	var gen func(left int, cur []int, minv int)
	gen = func(left int, cur []int, minv int) {
		if len(cur) > 0 {
			shapes = append(shapes, shape{append([]int{}, cur...)})
		}
		for k := minv; k <= left; k++ {
			cost := k
			if k == 0 {
				cost = 1
			}
			if cost > left {
				continue
			}
			gen(left-cost, append(cur, k), k)
		}
	}
	gen(maxLeaves, nil, 0)
	out := []apol{}
	for _, sh := range shapes {
		nl := 0
		for _, k := range sh.sub {
			if k == 0 {
				nl++
			} else {
				nl += k
			}
		}
		// threshold vectors: root t0 in 1..len(sub), each sub gate t in 1..k
		var thr func(i int, ts []int)
		thr = func(i int, ts []int) {
			if i == len(sh.sub) {
				for t0 := 1; t0 <= len(sh.sub); t0++ {
					// labelings
					for n := 1; n <= nl && n <= maxn; n++ {
						labelings(sh.sub, n, func(lab []int) {
							root := &node{leaf: -1, t: t0}
							pos := 0
							for ci, k := range sh.sub {
								if k == 0 {
									root.ch = append(root.ch, &node{leaf: lab[pos]})
									pos++
								} else {
									g := &node{leaf: -1, t: ts[ci]}
									for x := 0; x < k; x++ {
										g.ch = append(g.ch, &node{leaf: lab[pos]})
										pos++
									}
									root.ch = append(root.ch, g)
								}
							}
							out = append(out, apol{fam: "tree", n: n, root: root})
						})
					}
				}
				return
			}
			if sh.sub[i] == 0 {
				thr(i+1, append(append([]int{}, ts...), 0))
				return
			}
			for t := 1; t <= sh.sub[i]; t++ {
				thr(i+1, append(append([]int{}, ts...), t))
			}
		}
		thr(0, nil)
	}
	if cap > 0 && len(out) > cap {
		// deterministic sample that keeps the first (smallest) trees
		keep := append([]apol{}, out[:cap/4]...)
		rest := append([]apol{}, out[cap/4:]...)
		for len(keep) < cap {
			i := pr.IntN(len(rest))
			keep = append(keep, rest[i])
			rest[i] = rest[len(rest)-1]
			rest = rest[:len(rest)-1]
		}
		out = keep
	}
	return out
}

// labelings assigns holders 0..n-1 to the leaf positions: surjective, canonical (first occurrences in
// increasing order, so relabelled duplicates are skipped), distinct among the direct leaf children of
// the root and within each sub gate.
func labelings(sub []int, n int, f func([]int)) {
	total := 0
	groups := []int{} // group id per position: 0 = root leaves, i+1 = sub gate i
	for i, k := range sub {
		if k == 0 {
			groups = append(groups, 0)
			total++
		} else {
			for x := 0; x < k; x++ {
				groups = append(groups, i+1)
			}
			total += k
		}
	}
	lab := make([]int, total)
	var rec func(pos, used int)
	rec = func(pos, used int) {
		if pos == total {
			if used == n {
				f(append([]int{}, lab...))
			}
			return
		}
		for h := 0; h <= used && h < n; h++ {
			dup := false
			for p := 0; p < pos; p++ {
				if groups[p] == groups[pos] && lab[p] == h {
					dup = true
				}
			}
			if dup {
				continue
			}
			lab[pos] = h
			nu := used
			if h == used {
				nu++
			}
			rec(pos+1, nu)
		}
	}
	rec(0, 0)
}

// identifier assignments: abstract holder i -> id, all distinct, non-zero, below min(q, limit+1)
func idAssignments(n int, limit uint64, kinds string) map[string][]uint64 {
	out := map[string][]uint64{}
	if uint64(n) > limit {
		return out
	}
	has := func(k string) bool { return strings.Contains(","+kinds+",", ","+k+",") }
	dense := make([]uint64, n)
	for i := range dense {
		dense[i] = uint64(i + 1)
	}
	if has("dense") {
		out["dense"] = dense
	}
	// sparse: gaps growing, scaled into the available range
	sp := make([]uint64, n)
	okSparse := true
	v := uint64(0)
	for i := range sp {
		v += uint64(i + 2)
		if limit > 1000 {
			v += uint64(i+1) * 37
		}
		sp[i] = v
		if v > limit {
			okSparse = false
		}
	}
	if has("sparse") && okSparse {
		out["sparse"] = sp
	}
	if has("large") && limit > uint64(n) {
		lg := make([]uint64, n)
		for i := range lg {
			lg[i] = limit - uint64(n-1-i)
		}
		out["large"] = lg
	}
	if has("unsorted") && n >= 2 {
		base := dense
		if okSparse {
			base = sp
		}
		un := make([]uint64, n)
		for i := range un {
			un[i] = base[(i+1)%n] // rotation: not monotone
		}
		if n == 2 {
			un[0], un[1] = base[1], base[0]
		}
		out["unsorted"] = un
	}
	return out
}

// ---------------------------------------------------------------- the C02 cases

func famLimit(fam string) uint64 {
	return q - 1
}

func idsLE64(v []uint64) bool {
	for _, x := range v {
		if x > 64 {
			return false
		}
	}
	return true
}

func rowsOf(lab []uint64, S []uint64) []int {
	in := map[uint64]bool{}
	for _, x := range S {
		in[x] = true
	}
	rows := []int{}
	for k, id := range lab {
		if in[id] {
			rows = append(rows, k)
		}
	}
	return rows
}

type mspInfo struct {
	m   *msp.MSP[S]
	M   [][]uint64
	lab []uint64
}

func labelsOf(m *msp.MSP[S]) []uint64 {
	n := int(m.Size())
	lab := make([]uint64, n)
	for i := 0; i < n; i++ {
		id, ok := m.RowsToHolders().Get(i)
		if !ok {
			panic("row without holder")
		}
		lab[i] = uint64(id)
	}
	return lab
}

func doAccess(p *policy) {
	isq := make([]bool, len(p.subs))
	for i, s := range p.subs {
		isq[i] = p.ac.IsQualified(toIDs(s)...)
	}
	ev := map[string]any{"pol": p.rec, "idkind": p.idkind, "subs": p.subs, "isq": isq, "hasmus": false, "mus": [][]uint64{}}
	if idsLE64(p.holders) {
		mus := [][]uint64{}
		for s := range p.ac.MaximalUnqualifiedSetsIter() {
			mus = append(mus, sorted(u(s.List())))
		}
		sort.Slice(mus, func(i, j int) bool { return fmt.Sprint(mus[i]) < fmt.Sprint(mus[j]) })
		ev["hasmus"] = true
		ev["mus"] = mus
	}
	hs := sorted(u(p.ac.Shareholders().List()))
	ev["sh"] = hs
	emit("access", ev)
}

func doMSP(p *policy) *mspInfo {
	m, err := try(func() (*msp.MSP[S], error) { return accessstructures.InducedMSP(field, p.ac) })
	ev := map[string]any{"pol": p.rec, "idkind": p.idkind, "ok": err == nil, "err": errStr(err), "M": [][]uint64{}, "lab": emptyU(),
		"subs": p.subs, "acc": []bool{}, "can": []bool{}, "cert": []any{}, "rv": [][]uint64{}, "ideal": false}
	sc, err2 := try(func() (*kw.Scheme[S], error) { return kw.NewScheme(field, p.ac) })
	ev["schemeok"] = err2 == nil
	if err != nil {
		emit("msp", ev)
		return nil
	}
	info := &mspInfo{m: m, M: tr.MatInts(m.Matrix()), lab: labelsOf(m)}
	acc := make([]bool, len(p.subs))
	can := make([]bool, len(p.subs))
	cert := make([]any, len(p.subs))
	rv := make([][]uint64, len(p.subs))
	for i, s := range p.subs {
		acc[i] = m.Accepts(toIDs(s)...)
		can[i] = sc != nil && sc.CanReconstruct(toIDs(s)...)
		cert[i] = certify(info.M, rowsOf(info.lab, s))
		rv[i] = emptyU()
		if v, e := m.ReconstructionVector(toIDs(s)...); e == nil {
			rv[i] = tr.Flat(v)
		}
	}
	ev["M"], ev["lab"], ev["acc"], ev["can"], ev["cert"], ev["rv"] = info.M, info.lab, acc, can, cert, rv
	ev["ideal"] = m.IsIdeal()
	ev["d"] = m.D()
	emit("msp", ev)
	return info
}

func colMatrix(v []uint64) *mat.Matrix[S] {
	rows := make([][]uint64, len(v))
	for i, x := range v {
		rows[i] = []uint64{x}
	}
	return tr.Mat(rows)
}

type kwShares map[uint64]*kw.Share[S]

func shareList(holders []uint64, get func(id uint64) ([]uint64, bool)) []map[string]any {
	out := []map[string]any{}
	for _, id := range holders {
		if v, ok := get(id); ok {
			out = append(out, map[string]any{"id": id, "v": v})
		}
	}
	return out
}

// reconstruction and additive conversion of KW-shaped shares over every subset
func kwSubsetResults(p *policy, shares kwShares, rec func(sh ...*kw.Share[S]) (*kw.Secret[S], error),
	conv func(sh *kw.Share[S], qm *unanimity.Unanimity) (*additive.Share[S], error)) ([]map[string]any, []map[string]any) {
	recs := make([]map[string]any, len(p.subs))
	adds := make([]map[string]any, len(p.subs))
	for i, s := range p.subs {
		sel := []*kw.Share[S]{}
		missing := false
		for _, id := range s {
			if sh, ok := shares[id]; ok {
				sel = append(sel, sh)
			} else {
				missing = true
			}
		}
		r := map[string]any{"ok": false, "v": 0, "missing": missing}
		if !missing {
			if sec, err := try(func() (*kw.Secret[S], error) { return rec(sel...) }); err == nil {
				r["ok"], r["v"] = true, sec.Value().Int()
			}
		}
		recs[i] = r
		a := map[string]any{"tried": false, "ok": false, "vals": emptyU()}
		if !missing && len(s) >= 2 && conv != nil {
			if qm, err := unanimity.NewUnanimityAccessStructure(idSet(s)); err == nil {
				a["tried"] = true
				vals := []uint64{}
				ok := true
				for _, sh := range sel {
					as, err := try(func() (*additive.Share[S], error) { return conv(sh, qm) })
					if err != nil {
						ok = false
						break
					}
					vals = append(vals, as.Value().Int())
				}
				a["ok"] = ok
				if ok {
					a["vals"] = vals
				}
			}
		}
		adds[i] = a
	}
	return recs, adds
}

func kwShareMap(holders []uint64, get func(ID) (*kw.Share[S], bool)) kwShares {
	out := kwShares{}
	for _, id := range holders {
		if sh, ok := get(ID(id)); ok {
			out[id] = sh
		}
	}
	return out
}

// one dealing through kw.NewDealerFunc with a chosen column, or through Scheme.Deal / Feldman / Pedersen
func doKWDeal(p *policy, info *mspInfo, sch string, col []uint64) {
	ev := map[string]any{"pol": p.rec, "M": info.M, "lab": info.lab, "sch": sch, "subs": p.subs,
		"r": col, "ok": false, "err": "", "shares": []any{}, "rec": []any{}, "add": []any{}, "secret": col[0]}
	sc := must(kw.NewInducedScheme(info.m))
	var shares kwShares
	var rec func(sh ...*kw.Share[S]) (*kw.Secret[S], error) = sc.Reconstruct
	var conv func(sh *kw.Share[S], qm *unanimity.Unanimity) (*additive.Share[S], error) = sc.ConvertShareToAdditive
	switch sch {
	case "column":
		df, err := kw.NewDealerFunc(colMatrix(col), info.m)
		if err != nil {
			ev["err"] = errStr(err)
			emit("kwdeal", ev)
			return
		}
		shares = kwShareMap(p.holders, func(id ID) (*kw.Share[S], bool) { s, e := df.ShareOf(id); return s, e == nil })
		ev["dfsecret"] = df.Secret().Value().Int()
	case "prng":
		out, df, err := sc.DealAndRevealDealerFunc(kw.NewSecret(toy.FromInt(col[0])), chosen(col...))
		if err != nil {
			ev["err"] = errStr(err)
			emit("kwdeal", ev)
			return
		}
		ev["r"] = tr.Flat(df.RandomColumn())
		shares = kwShareMap(p.holders, func(id ID) (*kw.Share[S], bool) { return out.Shares().Get(id) })
		ev["dfsecret"] = df.Secret().Value().Int()
	case "feldman":
		fs, err := feldman.NewScheme(group, p.ac)
		if err != nil {
			ev["err"] = errStr(err)
			emit("kwdeal", ev)
			return
		}
		out, df, err := fs.DealAndRevealDealerFunc(kw.NewSecret(toy.FromInt(col[0])), chosen(col...))
		if err != nil {
			ev["err"] = errStr(err)
			emit("kwdeal", ev)
			return
		}
		ev["r"] = tr.Flat(df.RandomColumn())
		ev["dfsecret"] = df.Secret().Value().Int()
		shares = kwShareMap(p.holders, func(id ID) (*kw.Share[S], bool) { return out.Shares().Get(id) })
		rec, conv = fs.Reconstruct, fs.ConvertShareToAdditive
		can := make([]bool, len(p.subs))
		for i, s := range p.subs {
			can[i] = fs.CanReconstruct(toIDs(s)...)
		}
		ev["can"] = can
	case "pedersen":
		key := must(pedcom.NewCommitmentKeyUnchecked[E, S](group.Generator(), toy.FromLog(eta())))
		ps, err := pedersen.NewScheme(key, p.ac)
		if err != nil {
			ev["err"] = errStr(err)
			emit("kwdeal", ev)
			return
		}
		out, df, err := ps.DealAndRevealDealerFunc(kw.NewSecret(toy.FromInt(col[0])), chosen(col...))
		if err != nil {
			ev["err"] = errStr(err)
			emit("kwdeal", ev)
			return
		}
		ev["r"] = tr.Flat(df.G().RandomColumn())
		ev["dfsecret"] = df.Secret().Value().Int()
		pshares := map[uint64]*pedersen.Share[S]{}
		shares = kwShares{}
		for _, id := range p.holders {
			if sh, ok := out.Shares().Get(ID(id)); ok {
				pshares[id] = sh
				shares[id] = must(kw.NewShare(ID(id), sh.Value()...))
			}
		}
		rec = func(sh ...*kw.Share[S]) (*kw.Secret[S], error) {
			sel := make([]*pedersen.Share[S], len(sh))
			for i, x := range sh {
				sel[i] = pshares[uint64(x.ID())]
			}
			return ps.Reconstruct(sel...)
		}
		conv = func(sh *kw.Share[S], qm *unanimity.Unanimity) (*additive.Share[S], error) {
			return ps.ConvertShareToAdditive(pshares[uint64(sh.ID())], qm)
		}
		can := make([]bool, len(p.subs))
		for i, s := range p.subs {
			can[i] = ps.CanReconstruct(toIDs(s)...)
		}
		ev["can"] = can
	}
	ev["ok"] = true
	if _, has := ev["can"]; !has {
		can := make([]bool, len(p.subs))
		for i, s := range p.subs {
			can[i] = sc.CanReconstruct(toIDs(s)...)
		}
		ev["can"] = can
	}
	ev["shares"] = shareList(p.holders, func(id uint64) ([]uint64, bool) {
		sh, ok := shares[id]
		if !ok {
			return nil, false
		}
		return ints(sh.Value()), true
	})
	ev["rec"], ev["add"] = kwSubsetResults(p, shares, rec, conv)
	emit("kwdeal", ev)
}

func eta() uint64 {
	e := uint64(3)
	if q > 100 {
		e = q/2 + 5
	}
	return e
}

// linearity of KW shares: Add and ScalarMul, then reconstruction from every subset
func doKWLinear(p *policy, info *mspInfo, r1, r2 []uint64, a uint64) {
	sc := must(kw.NewInducedScheme(info.m))
	df1, err1 := kw.NewDealerFunc(colMatrix(r1), info.m)
	df2, err2 := kw.NewDealerFunc(colMatrix(r2), info.m)
	if err1 != nil || err2 != nil {
		return
	}
	sum, scaled := kwShares{}, kwShares{}
	for _, id := range p.holders {
		s1, e1 := df1.ShareOf(ID(id))
		s2, e2 := df2.ShareOf(ID(id))
		if e1 != nil || e2 != nil {
			continue
		}
		sum[id] = s1.Add(s2)
		scaled[id] = s1.ScalarMul(toy.FromInt(a))
	}
	get := func(m kwShares) func(id uint64) ([]uint64, bool) {
		return func(id uint64) ([]uint64, bool) {
			sh, ok := m[id]
			if !ok {
				return nil, false
			}
			return ints(sh.Value()), true
		}
	}
	recS, _ := kwSubsetResults(p, sum, sc.Reconstruct, nil)
	recM, _ := kwSubsetResults(p, scaled, sc.Reconstruct, nil)
	emit("kwlin", map[string]any{"pol": p.rec, "M": info.M, "lab": info.lab, "subs": p.subs, "r1": r1, "r2": r2, "s": a,
		"sum": shareList(p.holders, get(sum)), "scaled": shareList(p.holders, get(scaled)), "recsum": recS, "recscaled": recM})
}

// all columns with the given secret (exhaustive) or a sample
func columns(d int, secret uint64, pr interface{ Uint64N(uint64) uint64 }) [][]uint64 {
	total := uint64(1)
	exh := true
	for i := 1; i < d; i++ {
		total *= q
		if total > uint64(flagExh) {
			exh = false
			break
		}
	}
	out := [][]uint64{}
	if exh {
		for x := uint64(0); x < total; x++ {
			c := make([]uint64, d)
			c[0] = secret
			y := x
			for i := 1; i < d; i++ {
				c[i] = y % q
				y /= q
			}
			out = append(out, c)
		}
		return out
	}
	for k := 0; k < flagDeals; k++ {
		c := make([]uint64, d)
		c[0] = secret
		for i := 1; i < d; i++ {
			c[i] = pr.Uint64N(q)
		}
		out = append(out, c)
	}
	return out
}

// ---- Shamir
func doShamir(p *policy, secrets []uint64, pr interface{ Uint64N(uint64) uint64 }) {
	ac := p.ac.(*threshold.Threshold)
	sc := must(shamir.NewScheme(field, ac))
	t := p.ap.t
	for _, sec := range secrets {
		for _, col := range columns(t, sec, pr) {
			if col[t-1] == 0 {
				col[t-1] = 1 + pr.Uint64N(q-1) // the library draws a non-zero leading coefficient
			}
			out, poly, err := sc.DealAndRevealDealerFunc(shamir.NewSecret(toy.FromInt(sec)), chosen(col[1:]...))
			if err != nil {
				panic(err)
			}
			shares := map[uint64]*shamir.Share[S]{}
			for _, id := range p.holders {
				sh, _ := out.Shares().Get(ID(id))
				shares[id] = sh
			}
			ev := map[string]any{"pol": p.rec, "subs": p.subs, "secret": sec, "coeffs": ints(poly.Coefficients())}
			ev["shares"] = shareList(p.holders, func(id uint64) ([]uint64, bool) { return []uint64{shares[id].Value().Int()}, true })
			can := make([]bool, len(p.subs))
			recs := make([]map[string]any, len(p.subs))
			adds := make([]map[string]any, len(p.subs))
			for i, s := range p.subs {
				can[i] = sc.CanReconstruct(toIDs(s)...)
				sel := []*shamir.Share[S]{}
				for _, id := range s {
					sel = append(sel, shares[id])
				}
				r := map[string]any{"ok": false, "v": 0, "missing": false}
				if v, err := tryV(sc.Reconstruct, sel); err == nil {
					r["ok"], r["v"] = true, v.Value().Int()
				}
				recs[i] = r
				a := map[string]any{"tried": false, "ok": false, "vals": emptyU()}
				if len(s) >= 2 {
					qm := must(unanimity.NewUnanimityAccessStructure(idSet(s)))
					a["tried"] = true
					vals := []uint64{}
					ok := true
					for _, sh := range sel {
						as, err := try(func() (*additive.Share[S], error) { return sc.ConvertShareToAdditive(sh, qm) })
						if err != nil {
							ok = false
							break
						}
						vals = append(vals, as.Value().Int())
					}
					a["ok"] = ok
					if ok {
						a["vals"] = vals
					}
				}
				adds[i] = a
			}
			ev["can"], ev["rec"], ev["add"] = can, recs, adds
			emit("shamir", ev)
		}
	}
	// linearity
	s1, s2, a := pr.Uint64N(q), pr.Uint64N(q), pr.Uint64N(q)
	o1, p1, _ := sc.DealAndRevealDealerFunc(shamir.NewSecret(toy.FromInt(s1)), rng())
	o2, p2, _ := sc.DealAndRevealDealerFunc(shamir.NewSecret(toy.FromInt(s2)), rng())
	sum := map[uint64]*shamir.Share[S]{}
	scaled := map[uint64]*shamir.Share[S]{}
	for _, id := range p.holders {
		x1, _ := o1.Shares().Get(ID(id))
		x2, _ := o2.Shares().Get(ID(id))
		sum[id] = x1.Add(x2)
		scaled[id] = x1.ScalarMul(toy.FromInt(a))
	}
	recOf := func(m map[uint64]*shamir.Share[S]) []map[string]any {
		recs := make([]map[string]any, len(p.subs))
		for i, s := range p.subs {
			sel := []*shamir.Share[S]{}
			for _, id := range s {
				sel = append(sel, m[id])
			}
			r := map[string]any{"ok": false, "v": 0, "missing": false}
			if v, err := tryV(sc.Reconstruct, sel); err == nil {
				r["ok"], r["v"] = true, v.Value().Int()
			}
			recs[i] = r
		}
		return recs
	}
	emit("shamirlin", map[string]any{"pol": p.rec, "subs": p.subs, "c1": ints(p1.Coefficients()), "c2": ints(p2.Coefficients()), "s": a,
		"sum":    shareList(p.holders, func(id uint64) ([]uint64, bool) { return []uint64{sum[id].Value().Int()}, true }),
		"scaled": shareList(p.holders, func(id uint64) ([]uint64, bool) { return []uint64{scaled[id].Value().Int()}, true }),
		"recsum": recOf(sum), "recscaled": recOf(scaled)})
}

// ---- additive
func doAdditive(p *policy, secrets []uint64) {
	ac := p.ac.(*unanimity.Unanimity)
	sc := must(additive.NewScheme[S](field, ac))
	for _, sec := range secrets {
		out, err := sc.Deal(must(additive.NewSecret[S](toy.FromInt(sec))), rng())
		if err != nil {
			panic(err)
		}
		shares := map[uint64]*additive.Share[S]{}
		for _, id := range p.holders {
			sh, _ := out.Shares().Get(ID(id))
			shares[id] = sh
		}
		recs := make([]map[string]any, len(p.subs))
		for i, s := range p.subs {
			sel := []*additive.Share[S]{}
			for _, id := range s {
				sel = append(sel, shares[id])
			}
			r := map[string]any{"ok": false, "v": 0, "missing": false}
			if len(sel) > 0 {
				if v, err := tryV(sc.Reconstruct, sel); err == nil {
					r["ok"], r["v"] = true, v.Value().Int()
				}
			}
			recs[i] = r
		}
		emit("additive", map[string]any{"pol": p.rec, "subs": p.subs, "secret": sec, "rec": recs,
			"shares": shareList(p.holders, func(id uint64) ([]uint64, bool) { return []uint64{shares[id].Value().Int()}, true })})
	}
}

// ---- ISN (any access structure with identifiers <= 64)
func doISN(p *policy, secrets []uint64) {
	sc, err := try(func() (*isn.Scheme[S], error) { return isn.NewFiniteScheme[S](field, p.ac) })
	if err != nil {
		emit("isn", map[string]any{"pol": p.rec, "ok": false, "err": errStr(err), "subs": p.subs})
		return
	}
	for _, sec := range secrets {
		out, df, err := sc.DealAndRevealDealerFunc(isn.NewSecret[S](toy.FromInt(sec)), rng())
		if err != nil {
			emit("isn", map[string]any{"pol": p.rec, "ok": false, "err": errStr(err), "subs": p.subs})
			return
		}
		// the code's own list of maximal unqualified sets, with the piece attached to each
		type pc struct {
			set []uint64
			v   uint64
			key any
		}
		pieces := []pc{}
		for k, v := range df {
			pieces = append(pieces, pc{sorted(u(k.List())), v.Int(), k})
		}
		sort.Slice(pieces, func(i, j int) bool { return fmt.Sprint(pieces[i].set) < fmt.Sprint(pieces[j].set) })
		musc := [][]uint64{}
		vals := []uint64{}
		for _, x := range pieces {
			musc = append(musc, x.set)
			vals = append(vals, x.v)
		}
		shares := map[uint64]*isn.Share[S]{}
		shl := []map[string]any{}
		for _, id := range p.holders {
			sh, ok := out.Shares().Get(ID(id))
			if !ok {
				continue
			}
			shares[id] = sh
			idx := []int{}
			sv := []uint64{}
			for i, x := range pieces {
				for k, v := range sh.Value().Iter() {
					if fmt.Sprint(sorted(u(k.List()))) == fmt.Sprint(x.set) {
						idx = append(idx, i+1)
						sv = append(sv, v.Int())
					}
				}
			}
			shl = append(shl, map[string]any{"id": id, "idx": idx, "v": sv})
		}
		can := make([]bool, len(p.subs))
		recs := make([]map[string]any, len(p.subs))
		adds := make([]map[string]any, len(p.subs))
		for i, s := range p.subs {
			can[i] = sc.CanReconstruct(toIDs(s)...)
			sel := []*isn.Share[S]{}
			for _, id := range s {
				if sh, ok := shares[id]; ok {
					sel = append(sel, sh)
				}
			}
			r := map[string]any{"ok": false, "v": 0, "missing": len(sel) != len(s)}
			if len(sel) == len(s) {
				if v, err := tryV(sc.Reconstruct, sel); err == nil {
					r["ok"], r["v"] = true, v.Value().Int()
				}
			}
			recs[i] = r
			a := map[string]any{"tried": false, "ok": false, "vals": emptyU()}
			if len(s) >= 2 && len(sel) == len(s) && can[i] {
				qm := must(unanimity.NewUnanimityAccessStructure(idSet(s)))
				a["tried"] = true
				vs := []uint64{}
				ok := true
				for _, sh := range sel {
					as, err := try(func() (*additive.Share[S], error) { return sc.ConvertShareToAdditive(sh, qm) })
					if err != nil {
						ok = false
						break
					}
					vs = append(vs, as.Value().Int())
				}
				a["ok"] = ok
				if ok {
					a["vals"] = vs
				}
			}
			adds[i] = a
		}
		emit("isn", map[string]any{"pol": p.rec, "ok": true, "err": "", "subs": p.subs, "secret": sec, "musc": musc, "pieces": vals,
			"shares": shl, "can": can, "rec": recs, "add": adds})
	}
}

// linearity of ISN shares: Op and ScalarOp on the shares of two dealings, including combinations in which pieces cancel
// (a sharing minus itself, scaling by zero and by the group order, two dealings from the same dealer randomness subtracted)
func doISNLinear(p *policy, s1, s2 uint64) {
	sc, err := try(func() (*isn.Scheme[S], error) { return isn.NewFiniteScheme[S](field, p.ac) })
	if err != nil {
		return // refusals are judged on the "isn" line
	}
	rngStream++
	stream := rngStream
	o1, df1, err1 := sc.DealAndRevealDealerFunc(isn.NewSecret[S](toy.FromInt(s1)), tr.Rng(seed, stream))
	o2, df2, err2 := sc.DealAndRevealDealerFunc(isn.NewSecret[S](toy.FromInt(s2)), tr.Rng(seed, stream)) // the same dealer randomness
	o3, df3, err3 := sc.DealAndRevealDealerFunc(isn.NewSecret[S](toy.FromInt(s2)), rng())
	if err1 != nil || err2 != nil || err3 != nil {
		return
	}
	// the maximal unqualified sets in a fixed order, and the piece vector of each dealing in that order
	musc := [][]uint64{}
	for k := range df1 {
		musc = append(musc, sorted(u(k.List())))
	}
	sort.Slice(musc, func(i, j int) bool { return fmt.Sprint(musc[i]) < fmt.Sprint(musc[j]) })
	pieceVec := func(df isn.DealerFunc[S]) []uint64 {
		out := make([]uint64, len(musc))
		for k, v := range df {
			for i, m := range musc {
				if fmt.Sprint(sorted(u(k.List()))) == fmt.Sprint(m) {
					out[i] = v.Int()
				}
			}
		}
		return out
	}
	get := func(o *isn.DealerOutput[S]) map[uint64]*isn.Share[S] {
		m := map[uint64]*isn.Share[S]{}
		for _, id := range p.holders {
			if sh, ok := o.Shares().Get(ID(id)); ok {
				m[id] = sh
			}
		}
		return m
	}
	a, b, c := get(o1), get(o2), get(o3)
	qm1 := toy.FromInt(q - 1)
	type combo struct {
		name   string
		f      func(id uint64) *isn.Share[S]
		k1, k2 uint64 // the combination is k1 * first + k2 * second (second = dealing 2 or 3, see "snd")
		snd    int
	}
	combos := []combo{
		{"sum", func(id uint64) *isn.Share[S] { return a[id].Op(c[id]) }, 1, 1, 3},
		{"diffSameRandomness", func(id uint64) *isn.Share[S] { return a[id].Op(b[id].ScalarOp(qm1)) }, 1, q - 1, 2},
		{"minusItself", func(id uint64) *isn.Share[S] { return a[id].Op(a[id].ScalarOp(qm1)) }, 0, 0, 3},
		{"timesZero", func(id uint64) *isn.Share[S] { return a[id].ScalarOp(toy.FromInt(0)) }, 0, 0, 3},
		{"timesOrder", func(id uint64) *isn.Share[S] { return a[id].ScalarOp(field.Order()) }, 0, 0, 3},
		{"timesTwoPlus", func(id uint64) *isn.Share[S] { return a[id].ScalarOp(toy.FromInt(2)).Op(c[id]) }, 2, 1, 3},
	}
	res := []map[string]any{}
	for _, cb := range combos {
		shares := map[uint64]*isn.Share[S]{}
		shl := []map[string]any{}
		panicked := ""
		for _, id := range p.holders {
			if a[id] == nil || b[id] == nil || c[id] == nil {
				continue
			}
			sh, err := try(func() (*isn.Share[S], error) { return cb.f(id), nil })
			if err != nil {
				panicked = errStr(err)
				continue
			}
			shares[id] = sh
			idx, sv := []int{}, []uint64{}
			for i, m := range musc {
				for k, v := range sh.Value().Iter() {
					if fmt.Sprint(sorted(u(k.List()))) == fmt.Sprint(m) {
						idx = append(idx, i+1)
						sv = append(sv, v.Int())
					}
				}
			}
			shl = append(shl, map[string]any{"id": id, "idx": idx, "v": sv})
		}
		recs := make([]map[string]any, len(p.subs))
		adds := make([]map[string]any, len(p.subs))
		for i, s := range p.subs {
			sel := []*isn.Share[S]{}
			for _, id := range s {
				if sh, ok := shares[id]; ok {
					sel = append(sel, sh)
				}
			}
			r := map[string]any{"ok": false, "v": 0, "missing": len(sel) != len(s)}
			if len(sel) == len(s) {
				if v, err := tryV(sc.Reconstruct, sel); err == nil {
					r["ok"], r["v"] = true, v.Value().Int()
				}
			}
			recs[i] = r
			ad := map[string]any{"tried": false, "ok": false, "vals": emptyU()}
			if len(s) >= 2 && len(sel) == len(s) && sc.CanReconstruct(toIDs(s)...) {
				qm := must(unanimity.NewUnanimityAccessStructure(idSet(s)))
				ad["tried"] = true
				vs := []uint64{}
				ok := true
				for _, sh := range sel {
					as, err := try(func() (*additive.Share[S], error) { return sc.ConvertShareToAdditive(sh, qm) })
					if err != nil {
						ok = false
						break
					}
					vs = append(vs, as.Value().Int())
				}
				ad["ok"] = ok
				if ok {
					ad["vals"] = vs
				}
			}
			adds[i] = ad
		}
		res = append(res, map[string]any{"name": cb.name, "k1": cb.k1, "k2": cb.k2, "snd": cb.snd, "shares": shl, "rec": recs, "add": adds, "panic": panicked})
	}
	emit("isnlin", map[string]any{"pol": p.rec, "subs": p.subs, "musc": musc, "p1": pieceVec(df1), "p2": pieceVec(df2), "p3": pieceVec(df3),
		"s1": s1, "s2": s2, "combos": res})
}

// ---- Tassa
func doTassa(p *policy, secrets []uint64, pr interface{ Uint64N(uint64) uint64 }) {
	ac := p.ac.(*hierarchical.HierarchicalConjunctiveThreshold)
	sc, err := tassa.NewScheme(ac, field)
	if err != nil {
		emit("tassa", map[string]any{"pol": p.rec, "ok": false, "err": errStr(err), "subs": p.subs})
		return
	}
	top := p.ap.levels[len(p.ap.levels)-1].t
	deal := func(sec uint64, rd io.Reader) (map[uint64]*tassa.Share[S], []uint64) {
		out, poly, err := sc.DealAndRevealDealerFunc(tassa.NewSecret(toy.FromInt(sec)), rd)
		if err != nil {
			panic(err)
		}
		shares := map[uint64]*tassa.Share[S]{}
		for _, id := range p.holders {
			sh, _ := out.Shares().Get(ID(id))
			shares[id] = sh
		}
		return shares, ints(poly.Coefficients())
	}
	results := func(shares map[uint64]*tassa.Share[S]) ([]bool, []map[string]any, []map[string]any) {
		can := make([]bool, len(p.subs))
		recs := make([]map[string]any, len(p.subs))
		adds := make([]map[string]any, len(p.subs))
		for i, s := range p.subs {
			can[i] = sc.CanReconstruct(toIDs(s)...)
			sel := []*tassa.Share[S]{}
			for _, id := range s {
				sel = append(sel, shares[id])
			}
			r := map[string]any{"ok": false, "v": 0, "missing": false}
			if v, err := tryV(sc.Reconstruct, sel); err == nil {
				r["ok"], r["v"] = true, v.Value().Int()
			}
			recs[i] = r
			a := map[string]any{"tried": false, "ok": false, "vals": emptyU()}
			if len(s) >= 2 {
				qm := must(unanimity.NewUnanimityAccessStructure(idSet(s)))
				a["tried"] = true
				vs := []uint64{}
				ok := true
				for _, sh := range sel {
					as, err := try(func() (*additive.Share[S], error) { return sc.ConvertShareToAdditive(sh, qm) })
					if err != nil {
						ok = false
						break
					}
					vs = append(vs, as.Value().Int())
				}
				a["ok"] = ok
				if ok {
					a["vals"] = vs
				}
			}
			adds[i] = a
		}
		return can, recs, adds
	}
	shl := func(shares map[uint64]*tassa.Share[S]) []map[string]any {
		return shareList(p.holders, func(id uint64) ([]uint64, bool) { return []uint64{shares[id].Value().Int()}, true })
	}
	for _, sec := range secrets {
		for _, col := range columns(top, sec, pr) {
			if top > 1 && col[top-1] == 0 {
				col[top-1] = 1 + pr.Uint64N(q-1)
			}
			shares, coeffs := deal(sec, chosen(col[1:]...))
			can, recs, adds := results(shares)
			emit("tassa", map[string]any{"pol": p.rec, "ok": true, "err": "", "subs": p.subs, "secret": sec, "coeffs": coeffs,
				"shares": shl(shares), "can": can, "rec": recs, "add": adds})
		}
	}
	// linearity (the sum may have a vanishing leading coefficient: Reconstruct then refuses; the spec models it)
	s1, s2, a := pr.Uint64N(q), pr.Uint64N(q), pr.Uint64N(q)
	sh1, c1 := deal(s1, rng())
	sh2, c2 := deal(s2, rng())
	sum, scaled := map[uint64]*tassa.Share[S]{}, map[uint64]*tassa.Share[S]{}
	for _, id := range p.holders {
		sum[id] = sh1[id].Op(sh2[id])
		scaled[id] = sh1[id].ScalarOp(toy.FromInt(a))
	}
	_, recS, _ := results(sum)
	_, recM, _ := results(scaled)
	emit("tassalin", map[string]any{"pol": p.rec, "subs": p.subs, "c1": c1, "c2": c2, "s": a,
		"sum": shl(sum), "scaled": shl(scaled), "recsum": recS, "recscaled": recM})
}

func secretsFor(pr interface{ Uint64N(uint64) uint64 }) []uint64 {
	out := []uint64{0, 1, q - 1}
	r := pr.Uint64N(q)
	for _, x := range out {
		if x == r {
			return out
		}
	}
	return append(out, r)
}

func runC02(pols []*policy) {
	pr := tr.PRand(seed, 7)
	for _, p := range pols {
		if p.acErr != nil {
			panic(fmt.Sprintf("generator produced a policy the constructor refuses: %v %v", p.rec, p.acErr))
		}
		curDeg = p.deg
		doAccess(p)
		info := doMSP(p)
		secrets := secretsFor(pr)
		if info != nil {
			d := len(info.M[0])
			for _, sec := range secrets {
				for _, col := range columns(d, sec, pr) {
					doKWDeal(p, info, "column", col)
				}
			}
			for _, sch := range []string{"prng", "feldman", "pedersen"} {
				col := make([]uint64, d)
				for i := range col {
					col[i] = pr.Uint64N(q)
				}
				doKWDeal(p, info, sch, col)
			}
			if d >= 2 {
				r1, r2 := make([]uint64, d), make([]uint64, d)
				for i := 0; i < d; i++ {
					r1[i], r2[i] = pr.Uint64N(q), pr.Uint64N(q)
				}
				doKWLinear(p, info, r1, r2, pr.Uint64N(q))
				doKWLinear(p, info, r1, r1, q-1) // r + r, and -r
			}
		}
		switch p.ap.fam {
		case "threshold":
			doShamir(p, secrets, pr)
		case "unanimity":
			doAdditive(p, secrets)
		case "hier":
			doTassa(p, secrets, pr)
		}
		if idsLE64(p.holders) && len(p.holders) <= 5 { // ISN pieces are keyed by 64-bit sets of identifiers
			doISN(p, secrets[:2])
			doISNLinear(p, secrets[0], secrets[1])
		}
	}
}

// ---------------------------------------------------------------- the C05 cases

func vvFromLogs(logs []uint64) *feldman.VerificationVector[E, S] {
	rows := make([][]uint64, len(logs))
	for i, x := range logs {
		rows[i] = []uint64{x}
	}
	return must(feldman.NewVerificationVector[E, S](tr.ElemMat(rows), nil))
}
func vvLogs(v *feldman.VerificationVector[E, S]) []uint64 {
	out := []uint64{}
	for _, r := range tr.ElemMatLogs(v.Value()) {
		out = append(out, r[0])
	}
	return out
}
func addAt(v []uint64, k int, d uint64) []uint64 {
	out := append([]uint64{}, v...)
	out[k] = (out[k] + d) % q
	return out
}
func deltas(pr interface{ Uint64N(uint64) uint64 }) []uint64 {
	out := []uint64{}
	if q-1 <= uint64(flagDeltas) {
		for d := uint64(1); d < q; d++ {
			out = append(out, d)
		}
		return out
	}
	out = append(out, 1, q-1)
	for len(out) < flagDeltas {
		out = append(out, 1+pr.Uint64N(q-1))
	}
	return out
}

func outsiderID(holders []uint64) (uint64, bool) {
	in := map[uint64]bool{}
	for _, h := range holders {
		in[h] = true
	}
	for x := uint64(1); x < q; x++ {
		if !in[x] {
			return x, true
		}
	}
	return 0, false
}

type fcase = map[string]any

func runC05(pols []*policy) {
	pr := tr.PRand(seed, 11)
	for _, p := range pols {
		if p.acErr != nil {
			continue
		}
		curDeg = p.deg
		fs, err := feldman.NewScheme(group, p.ac)
		if err != nil {
			emit("fnew", map[string]any{"pol": p.rec, "ok": false, "err": errStr(err)})
			continue
		}
		m := fs.MSP()
		info := &mspInfo{m: m, M: tr.MatInts(m.Matrix()), lab: labelsOf(m)}
		d := len(info.M[0])
		base := map[string]any{"pol": p.rec, "M": info.M, "lab": info.lab}
		mk := func(extra map[string]any) map[string]any {
			ev := map[string]any{}
			for k, v := range base {
				ev[k] = v
			}
			for k, v := range extra {
				ev[k] = v
			}
			return ev
		}
		if d < 2 {
			_, err := fs.Deal(kw.NewSecret(toy.FromInt(1)), rng())
			emit("fdeal", mk(map[string]any{"ok": err == nil, "err": errStr(err), "r": emptyU(), "V": emptyU(), "shares": []any{}, "secret": 1}))
			continue
		}
		dls := deltas(pr)
		holdersWithRows := []uint64{}
		for _, id := range p.holders {
			if len(rowsOf(info.lab, []uint64{id})) > 0 {
				holdersWithRows = append(holdersWithRows, id)
			}
		}
		type dealing struct {
			r      []uint64
			V      []uint64
			shares map[uint64][]uint64
		}
		fdeal := func(sec uint64) *dealing {
			out, df, err := fs.DealAndRevealDealerFunc(kw.NewSecret(toy.FromInt(sec)), rng())
			if err != nil {
				panic(err)
			}
			dl := &dealing{r: tr.Flat(df.RandomColumn()), V: vvLogs(out.VerificationMaterial()), shares: map[uint64][]uint64{}}
			for _, id := range holdersWithRows {
				sh, _ := out.Shares().Get(ID(id))
				dl.shares[id] = ints(sh.Value())
			}
			emit("fdeal", mk(map[string]any{"ok": true, "err": "", "r": dl.r, "V": dl.V, "secret": sec,
				"shares": shareList(holdersWithRows, func(id uint64) ([]uint64, bool) { return dl.shares[id], true })}))
			return dl
		}
		verify := func(id uint64, lam []uint64, V []uint64, tag string) fcase {
			c := fcase{"id": id, "lam": lam, "V": V, "tag": tag, "ok": false, "built": true, "j": 0}
			if len(lam) == 0 {
				c["built"] = false
				return c
			}
			sh, err := kw.NewShare(ID(id), tr.Ss(lam)...)
			if err != nil {
				c["built"] = false
				return c
			}
			c["ok"] = fs.Verify(sh, vvFromLogs(V)) == nil
			return c
		}
		tamperCases := func(dl *dealing) []fcase {
			cases := []fcase{}
			for _, id := range holdersWithRows {
				lam := dl.shares[id]
				cases = append(cases, verify(id, lam, dl.V, "honest"))
				for k := range lam {
					for _, dv := range dls {
						cases = append(cases, verify(id, addAt(lam, k, dv), dl.V, "coord"))
					}
				}
				// holders with several rows: changes of two coordinates that keep their sum, and exchanged coordinates
				for k1 := 0; k1 < len(lam); k1++ {
					for k2 := k1 + 1; k2 < len(lam); k2++ {
						for n, dv := range dls {
							if n < 3 && dv%q != 0 {
								cases = append(cases, verify(id, addAt(addAt(lam, k1, dv), k2, q-dv%q), dl.V, "pair"))
							}
						}
						if lam[k1] != lam[k2] {
							sw := append([]uint64{}, lam...)
							sw[k1], sw[k2] = sw[k2], sw[k1]
							cases = append(cases, verify(id, sw, dl.V, "swap"))
						}
					}
				}
				if len(lam) > 1 {
					cases = append(cases, verify(id, lam[:len(lam)-1], dl.V, "short"))
				}
				cases = append(cases, verify(id, append(append([]uint64{}, lam...), 0), dl.V, "long0"))
				cases = append(cases, verify(id, append(append([]uint64{}, lam...), pr.Uint64N(q)), dl.V, "long"))
				for _, id2 := range holdersWithRows {
					if id2 != id {
						cases = append(cases, verify(id2, lam, dl.V, "otherid"))
					}
				}
				if o, ok := outsiderID(p.holders); ok {
					cases = append(cases, verify(o, lam, dl.V, "outsider"))
				}
				for j := 0; j < d; j++ {
					for _, dv := range dls {
						c := verify(id, lam, addAt(dl.V, j, dv), "vventry")
						c["j"] = j + 1
						cases = append(cases, c)
					}
				}
				cases = append(cases, verify(id, lam, dl.V[:d-1], "vvshort"))
				cases = append(cases, verify(id, lam, append(append([]uint64{}, dl.V...), 0), "vvidentity"))
				cases = append(cases, verify(id, lam, append(append([]uint64{}, dl.V...), 0, 0), "vvidentity2"))
				cases = append(cases, verify(id, lam, append(append([]uint64{}, dl.V...), pr.Uint64N(q)), "vvlong"))
			}
			return cases
		}
		dl := fdeal(secretsFor(pr)[pr.Uint64N(3)])
		emit("fverify", mk(map[string]any{"V0": dl.V, "cases": tamperCases(dl),
			"shares": shareList(holdersWithRows, func(id uint64) ([]uint64, bool) { return dl.shares[id], true })}))

		// constructor dimension rule
		nv := []fcase{}
		for _, L := range []int{1, d - 1, d, d + 1, d + 2} {
			if L < 1 {
				continue
			}
			logs := make([]uint64, L)
			for i := range logs {
				if i < d {
					logs[i] = dl.V[i]
				}
			}
			rows := make([][]uint64, L)
			for i, x := range logs {
				rows[i] = []uint64{x}
			}
			_, e1 := feldman.NewVerificationVector[E, S](tr.ElemMat(rows), m)
			_, e2 := feldman.NewVerificationVector[E, S](tr.ElemMat(rows), nil)
			nv = append(nv, fcase{"len": L, "withmsp": e1 == nil, "nomsp": e2 == nil})
		}
		_, e3 := feldman.NewVerificationVector[E, S](tr.ElemMat([][]uint64{dl.V[:2]}), nil) // a row vector
		emit("newvv", mk(map[string]any{"cases": nv, "rowvector": e3 == nil}))

		// combined dealings
		dl2 := fdeal(pr.Uint64N(q))
		dl3 := fdeal(pr.Uint64N(q))
		for _, grp := range [][]*dealing{{dl, dl2}, {dl, dl2, dl3}} {
			vv := vvFromLogs(grp[0].V)
			opok := true
			for _, x := range grp[1:] {
				nv, err := vv.Op(vvFromLogs(x.V))
				if err != nil {
					opok = false
					break
				}
				vv = nv
			}
			comb := &dealing{V: vvLogs(vv), shares: map[uint64][]uint64{}}
			for _, id := range holdersWithRows {
				acc := must(kw.NewShare(ID(id), tr.Ss(grp[0].shares[id])...))
				for _, x := range grp[1:] {
					acc = acc.Add(must(kw.NewShare(ID(id), tr.Ss(x.shares[id])...)))
				}
				comb.shares[id] = ints(acc.Value())
			}
			vs := [][]uint64{}
			for _, x := range grp {
				vs = append(vs, x.V)
			}
			cases := tamperCases(comb)
			// the combined share against a single dealer's vector, and a single share against the combination
			for _, id := range holdersWithRows {
				cases = append(cases, verify(id, comb.shares[id], grp[0].V, "sum-vs-single"))
				cases = append(cases, verify(id, grp[0].shares[id], comb.V, "single-vs-sum"))
			}
			emit("fcombine", mk(map[string]any{"Vs": vs, "opok": opok, "V": comb.V,
				"shares": shareList(holdersWithRows, func(id uint64) ([]uint64, bool) { return comb.shares[id], true }),
				"parts": func() []any {
					out := []any{}
					for _, x := range grp {
						out = append(out, shareList(holdersWithRows, func(id uint64) ([]uint64, bool) { return x.shares[id], true }))
					}
					return out
				}(),
				"cases": cases}))
		}
		// Op on mismatching lengths
		ops := []fcase{}
		for _, L := range []int{d - 1, d, d + 1} {
			if L < 1 {
				continue
			}
			o := make([]uint64, L)
			for i := range o {
				o[i] = pr.Uint64N(q)
			}
			res, err := vvFromLogs(dl.V).Op(vvFromLogs(o))
			c := fcase{"V1": dl.V, "V2": o, "ok": err == nil, "V": emptyU()}
			if err == nil {
				c["V"] = vvLogs(res)
			}
			ops = append(ops, c)
		}
		emit("fop", mk(map[string]any{"cases": ops}))

		// ReconstructAndVerify, ReconstructInTheExponent, NewBaseShard over every subset
		rvs := []fcase{}
		for _, s := range p.subs {
			for _, tam := range []bool{false, true} {
				if tam && len(s) == 0 {
					continue
				}
				sel := []*kw.Share[S]{}
				lams := []any{}
				usable := true
				for i, id := range s {
					lam, ok := dl.shares[id]
					if !ok {
						usable = false
						break
					}
					if tam && i == len(s)-1 {
						lam = addAt(lam, len(lam)-1, dls[0])
					}
					lams = append(lams, map[string]any{"id": id, "v": lam})
					sel = append(sel, must(kw.NewShare(ID(id), tr.Ss(lam)...)))
				}
				if !usable {
					continue
				}
				c := fcase{"S": s, "shares": lams, "ok": false, "v": 0, "expok": false, "expv": 0}
				if v, err := fs.ReconstructAndVerify(vvFromLogs(dl.V), sel...); err == nil {
					c["ok"], c["v"] = true, v.Value().Int()
				}
				lifted := []*feldman.LiftedShare[E, S]{}
				for _, sh := range sel {
					lifted = append(lifted, must(feldman.LiftShare(sh, group.Generator())))
				}
				if v, err := fs.ReconstructInTheExponent(lifted...); err == nil {
					c["expok"], c["expv"] = true, v.Value().Log()
				}
				rvs = append(rvs, c)
			}
		}
		emit("frv", mk(map[string]any{"V": dl.V, "r": dl.r, "cases": rvs}))

		shards := []fcase{}
		for _, id := range holdersWithRows {
			lam := dl.shares[id]
			try := func(lam, V []uint64, tag string) {
				c := fcase{"id": id, "lam": lam, "V": V, "tag": tag, "ok": false, "pk": 0, "pks": []any{}}
				sh := must(kw.NewShare(ID(id), tr.Ss(lam)...))
				bs, err := mpc.NewBaseShard(sh, vvFromLogs(V), m)
				if err == nil {
					c["ok"] = true
					c["pk"] = bs.PublicKeyValue().Log()
					c["pks"] = shareList(holdersWithRows, func(h uint64) ([]uint64, bool) {
						ls, ok := bs.PublicKeyShares().Get(ID(h))
						if !ok {
							return nil, false
						}
						return tr.Logs(ls.Value()), true
					})
				}
				shards = append(shards, c)
			}
			try(lam, dl.V, "honest")
			try(addAt(lam, 0, dls[0]), dl.V, "coord")
			try(lam, addAt(dl.V, 0, dls[0]), "vventry")
			try(lam, dl.V[:d-1], "vvshort")
			try(lam, append(append([]uint64{}, dl.V...), 0), "vvidentity")
		}
		emit("shard", mk(map[string]any{"cases": shards}))

		// ---- Pedersen
		et := eta()
		key := must(pedcom.NewCommitmentKeyUnchecked[E, S](group.Generator(), toy.FromLog(et)))
		ps, err := pedersen.NewScheme(key, p.ac)
		if err != nil {
			panic(err)
		}
		type pdealing struct {
			rg, rh, V []uint64
			sec, bl   map[uint64][]uint64
		}
		pdeal := func(sec uint64) *pdealing {
			out, df, err := ps.DealAndRevealDealerFunc(kw.NewSecret(toy.FromInt(sec)), rng())
			if err != nil {
				panic(err)
			}
			x := &pdealing{rg: tr.Flat(df.G().RandomColumn()), rh: tr.Flat(df.H().RandomColumn()), V: vvLogs(out.VerificationMaterial()),
				sec: map[uint64][]uint64{}, bl: map[uint64][]uint64{}}
			for _, id := range holdersWithRows {
				sh, _ := out.Shares().Get(ID(id))
				x.sec[id] = ints(sh.Value())
				b := []uint64{}
				for _, wv := range sh.Blinding() {
					b = append(b, wv.Value().Int())
				}
				x.bl[id] = b
			}
			emit("pdeal", mk(map[string]any{"eta": et, "rg": x.rg, "rh": x.rh, "V": x.V, "secret": sec,
				"sec": shareList(holdersWithRows, func(id uint64) ([]uint64, bool) { return x.sec[id], true }),
				"bl":  shareList(holdersWithRows, func(id uint64) ([]uint64, bool) { return x.bl[id], true })}))
			return x
		}
		mkP := func(id uint64, sec, bl []uint64) (*pedersen.Share[S], bool) {
			if len(sec) == 0 || len(bl) == 0 {
				return nil, false
			}
			a, e1 := kw.NewShare(ID(id), tr.Ss(sec)...)
			b, e2 := kw.NewShare(ID(id), tr.Ss(bl)...)
			if e1 != nil || e2 != nil {
				return nil, false
			}
			sh, err := pedersen.NewShare(ID(id), a, b)
			return sh, err == nil
		}
		pverify := func(id uint64, sec, bl, V []uint64, tag string) fcase {
			c := fcase{"id": id, "sec": sec, "bl": bl, "V": V, "tag": tag, "ok": false, "built": true, "j": 0}
			sh, ok := mkP(id, sec, bl)
			if !ok {
				c["built"] = false
				return c
			}
			c["ok"] = ps.Verify(sh, vvFromLogs(V)) == nil
			return c
		}
		ptamper := func(x *pdealing) []fcase {
			cases := []fcase{}
			minusInvEta := (q - invq(et)) % q
			for _, id := range holdersWithRows {
				sec, bl := x.sec[id], x.bl[id]
				cases = append(cases, pverify(id, sec, bl, x.V, "honest"))
				for k := range sec {
					for _, dv := range dls {
						cases = append(cases, pverify(id, addAt(sec, k, dv), bl, x.V, "sec"))
						cases = append(cases, pverify(id, sec, addAt(bl, k, dv), x.V, "bl"))
					}
					// equivocation with the known trapdoor: the commitment is unchanged
					cases = append(cases, pverify(id, addAt(sec, k, dls[0]), addAt(bl, k, mulq(dls[0], minusInvEta)), x.V, "equivocate"))
				}
				// several rows: sum-preserving changes of two secret coordinates; secret and blinding coordinates exchanged in step
				for k1 := 0; k1 < len(sec); k1++ {
					for k2 := k1 + 1; k2 < len(sec); k2++ {
						cases = append(cases, pverify(id, addAt(addAt(sec, k1, dls[0]), k2, q-dls[0]%q), bl, x.V, "pair"))
						if sec[k1] != sec[k2] || bl[k1] != bl[k2] {
							s2, b2 := append([]uint64{}, sec...), append([]uint64{}, bl...)
							s2[k1], s2[k2], b2[k1], b2[k2] = s2[k2], s2[k1], b2[k2], b2[k1]
							cases = append(cases, pverify(id, s2, b2, x.V, "swap"))
						}
					}
				}
				if len(sec) > 1 {
					cases = append(cases, pverify(id, sec[:len(sec)-1], bl[:len(bl)-1], x.V, "short"))
				}
				cases = append(cases, pverify(id, append(append([]uint64{}, sec...), 0), append(append([]uint64{}, bl...), 0), x.V, "long0"))
				cases = append(cases, pverify(id, append(append([]uint64{}, sec...), 0), bl, x.V, "lenmismatch"))
				for _, id2 := range holdersWithRows {
					if id2 != id {
						cases = append(cases, pverify(id2, sec, bl, x.V, "otherid"))
					}
				}
				for j := 0; j < d; j++ {
					for _, dv := range dls {
						c := pverify(id, sec, bl, addAt(x.V, j, dv), "vventry")
						c["j"] = j + 1
						cases = append(cases, c)
					}
				}
				cases = append(cases, pverify(id, sec, bl, x.V[:d-1], "vvshort"))
				cases = append(cases, pverify(id, sec, bl, append(append([]uint64{}, x.V...), 0), "vvidentity"))
				cases = append(cases, pverify(id, sec, bl, append(append([]uint64{}, x.V...), pr.Uint64N(q)), "vvlong"))
			}
			return cases
		}
		pd := pdeal(secretsFor(pr)[pr.Uint64N(3)])
		emit("pverify", mk(map[string]any{"eta": et, "cases": ptamper(pd), "V0": pd.V,
			"sec": shareList(holdersWithRows, func(id uint64) ([]uint64, bool) { return pd.sec[id], true }),
			"bl":  shareList(holdersWithRows, func(id uint64) ([]uint64, bool) { return pd.bl[id], true })}))
		pd2 := pdeal(pr.Uint64N(q))
		// combination of two Pedersen dealings
		vv, operr := vvFromLogs(pd.V).Op(vvFromLogs(pd2.V))
		if operr == nil {
			comb := &pdealing{V: vvLogs(vv), sec: map[uint64][]uint64{}, bl: map[uint64][]uint64{}}
			for _, id := range holdersWithRows {
				a, _ := mkP(id, pd.sec[id], pd.bl[id])
				b, _ := mkP(id, pd2.sec[id], pd2.bl[id])
				cmb := a.Add(b)
				comb.sec[id] = ints(cmb.Value())
				bb := []uint64{}
				for _, wv := range cmb.Blinding() {
					bb = append(bb, wv.Value().Int())
				}
				comb.bl[id] = bb
			}
			emit("pcombine", mk(map[string]any{"eta": et, "Vs": [][]uint64{pd.V, pd2.V}, "V": comb.V,
				"sec":   shareList(holdersWithRows, func(id uint64) ([]uint64, bool) { return comb.sec[id], true }),
				"bl":    shareList(holdersWithRows, func(id uint64) ([]uint64, bool) { return comb.bl[id], true }),
				"sec1":  shareList(holdersWithRows, func(id uint64) ([]uint64, bool) { return pd.sec[id], true }),
				"sec2":  shareList(holdersWithRows, func(id uint64) ([]uint64, bool) { return pd2.sec[id], true }),
				"bl1":   shareList(holdersWithRows, func(id uint64) ([]uint64, bool) { return pd.bl[id], true }),
				"bl2":   shareList(holdersWithRows, func(id uint64) ([]uint64, bool) { return pd2.bl[id], true }),
				"cases": ptamper(comb)}))
		}
		// Pedersen ReconstructAndVerify over every subset
		prv := []fcase{}
		for _, s := range p.subs {
			for _, tam := range []bool{false, true} {
				if tam && len(s) == 0 {
					continue
				}
				sel := []*pedersen.Share[S]{}
				lams := []any{}
				usable := true
				for i, id := range s {
					sec, ok := pd.sec[id]
					if !ok {
						usable = false
						break
					}
					bl := pd.bl[id]
					if tam && i == 0 {
						bl = addAt(bl, 0, dls[0])
					}
					sh, _ := mkP(id, sec, bl)
					sel = append(sel, sh)
					lams = append(lams, map[string]any{"id": id, "sec": sec, "bl": bl})
				}
				if !usable {
					continue
				}
				c := fcase{"S": s, "shares": lams, "ok": false, "v": 0}
				if v, err := ps.ReconstructAndVerify(vvFromLogs(pd.V), sel...); err == nil {
					c["ok"], c["v"] = true, v.Value().Int()
				}
				prv = append(prv, c)
			}
		}
		emit("prv", mk(map[string]any{"eta": et, "V": pd.V, "rg": pd.rg, "cases": prv}))
	}
}

// ---------------------------------------------------------------- main

func main() {
	var (
		qf    = flag.Uint64("q", 7, "toy field order")
		out   = flag.String("out", "trace.ndjson", "output")
		sd    = flag.Uint64("seed", 1, "seed")
		mode  = flag.String("mode", "c02", "c02 | c05 | count")
		fams  = flag.String("fams", "threshold,unanimity,cnf,hier,tree", "policy families")
		split = flag.String("part", "0/1", "i/n: take every n-th policy starting at i")
		polf  = flag.String("pol", "", "replay: file with the JSON record of one policy (mode c02 / c05)")
	)
	flag.IntVar(&flagMaxN, "maxn", 4, "max holders (threshold, unanimity, hier, tree)")
	flag.IntVar(&flagCnfN, "cnfn", 4, "max holders of CNF policies")
	flag.IntVar(&flagLeaves, "leaves", 4, "max leaves of gate trees")
	flag.IntVar(&flagCap, "cap", 0, "cap on the number of gate trees / CNF policies (0 = all)")
	flag.IntVar(&flagDeals, "deals", 2, "sampled columns per secret when not exhaustive")
	flag.IntVar(&flagExh, "exh", 49, "enumerate all columns when there are at most this many per secret")
	flag.IntVar(&flagDeltas, "deltas", 10, "all deltas when q-1 <= this, else this many sampled")
	flag.StringVar(&flagIDKinds, "ids", "dense,sparse,unsorted,large", "identifier assignments")
	flag.Parse()
	q, seed = *qf, *sd
	toy.Setup(q)
	w = tr.NewW(*out)
	defer w.Close()
	w.Emit(map[string]any{"a": "hdr", "q": q, "mode": *mode, "eta": eta()})

	pr := tr.PRand(seed, 3)
	aps := []apol{}
	for _, f := range strings.Split(*fams, ",") {
		switch f {
		case "threshold":
			aps = append(aps, thresholdPols(flagMaxN)...)
		case "unanimity":
			aps = append(aps, unanimityPols(flagMaxN)...)
		case "cnf":
			c := cnfPols(flagCnfN)
			if flagCap > 0 && len(c) > flagCap {
				keep := append([]apol{}, c[:flagCap/2]...)
				rest := append([]apol{}, c[flagCap/2:]...)
				for len(keep) < flagCap {
					i := pr.IntN(len(rest))
					keep = append(keep, rest[i])
					rest[i] = rest[len(rest)-1]
					rest = rest[:len(rest)-1]
				}
				c = keep
			}
			aps = append(aps, c...)
		case "hier":
			aps = append(aps, hierPols(flagMaxN)...)
		case "tree":
			aps = append(aps, treePols(flagLeaves, flagMaxN, flagCap, pr)...)
		}
	}
	var pi, pn int
	fmt.Sscanf(*split, "%d/%d", &pi, &pn)
	pols := []*policy{}
	cnt := 0
	for _, ap := range aps {
		if ap.fam == "tree" && maxFanIn(ap.root) >= int(q) {
			continue // gate fan-in must stay below the field size (distinct non-zero nodes)
		}
		asg := idAssignments(ap.n, famLimit(ap.fam), flagIDKinds)
		kinds := []string{}
		for k := range asg {
			kinds = append(kinds, k)
		}
		sort.Strings(kinds)
		seen := map[string]bool{}
		for _, k := range kinds {
			key := fmt.Sprint(asg[k])
			if seen[key] {
				continue
			}
			seen[key] = true
			if ap.fam == "tree" && ap.n == 1 {
				continue
			}
			cnt++
			if pn > 1 && cnt%pn != pi {
				continue
			}
			pols = append(pols, realize(ap, asg[k], k))
		}
	}
	if *polf != "" {
		data, err := os.ReadFile(*polf)
		if err != nil {
			panic(err)
		}
		var rec map[string]any
		if err := json.Unmarshal(data, &rec); err != nil {
			panic(err)
		}
		pols = []*policy{fromRec(rec)}
	}
	switch *mode {
	case "c02":
		runC02(pols)
	case "c05":
		runC05(pols)
	case "count":
	}
	fmt.Fprintf(os.Stderr, "sharing: q=%d mode=%s policies=%d events=%d\n", q, *mode, len(pols), w.N)
}

func maxFanIn(n *node) int {
	if n == nil || n.leaf >= 0 {
		return 0
	}
	m := len(n.ch)
	for _, c := range n.ch {
		if x := maxFanIn(c); x > m {
			m = x
		}
	}
	return m
}

package main

import (
	"crypto"
	stdecdsa "crypto/ecdsa"
	"crypto/elliptic"
	"crypto/sha256"
	"crypto/sha3"
	"crypto/sha512"
	"fmt"
	"hash"
	"io"
	"math/big"

	"github.com/bronlabs/bron-crypto/pkg/base/algebra"
	"github.com/bronlabs/bron-crypto/pkg/base/curves"
	"github.com/bronlabs/bron-crypto/pkg/base/curves/k256"
	"github.com/bronlabs/bron-crypto/pkg/base/curves/p256"
	"github.com/bronlabs/bron-crypto/pkg/signatures/ecdsa"

	"verif/harness/tr"
)

func sBig[S interface{ Bytes() []byte }](s S) *big.Int { return new(big.Int).SetBytes(s.Bytes()) }

func hashBytes(h func() hash.Hash, m []byte) []byte {
	x := h()
	x.Write(m)
	return x.Sum(nil)
}

func runECDSA(n int, only string) {
	type hs struct {
		name string
		f    func() hash.Hash
	}
	hashes := []hs{{"sha256", sha256.New}, {"sha512", sha512.New}, {"sha3-256", func() hash.Hash { return sha3.New256() }}}
	for _, h := range hashes {
		if name := "ecdsa-k256-" + h.name; wanted(name, only) {
			su, err := ecdsa.NewSuite(k256.NewCurve(), h.f)
			must(err)
			ecdsaSuite(name, k256.NewCurve(), su, h.f, secp, nil, n)
		}
		if name := "ecdsa-p256-" + h.name; wanted(name, only) {
			su, err := ecdsa.NewSuite(p256.NewCurve(), h.f)
			must(err)
			ecdsaSuite(name, p256.NewCurve(), su, h.f, nistp256, elliptic.P256(), n)
		}
	}
	if name := "ecdsa-p256-sha256-det"; wanted(name, only) {
		su, err := ecdsa.NewDeterministicSuite(p256.NewCurve(), crypto.SHA256)
		must(err)
		ecdsaSuite(name, p256.NewCurve(), su, sha256.New, nistp256, elliptic.P256(), n)
	}
	// (a deterministic k256 suite can be constructed, but crypto/ecdsa refuses RFC 6979 on a custom curve: Sign always
	// fails with "signing failed"; nothing to verify there, reported separately)
}

type ecKey[P curves.Point[P, B, S], B algebra.PrimeFieldElement[B], S algebra.PrimeFieldElement[S]] struct {
	pk  *ecdsa.PublicKey[P, B, S]
	orc apt
}

func ecdsaSuite[P curves.Point[P, B, S], B algebra.PrimeFieldElement[B], S algebra.PrimeFieldElement[S]](
	name string, curve ecdsa.Curve[P, B, S], suite *ecdsa.Suite[P, B, S], hf func() hash.Hash, wc *wcurve, std elliptic.Curve, n int,
) {
	prng := tr.Rng(seed, 1500+uint64(len(name)))
	rnd := tr.PRand(seed, 1501+uint64(len(name)))
	sf := curve.ScalarField()
	newKey := func() (*ecdsa.PrivateKey[P, B, S], ecKey[P, B, S], bool) {
		d, err := sf.Random(prng)
		must(err)
		pkv := curve.ScalarBaseMul(d)
		pk, err := ecdsa.NewPublicKey(pkv)
		must(err)
		sk, err := ecdsa.NewPrivateKey(d, pk)
		must(err)
		o := wc.mul(sBig(d), wc.gen())
		ax, err := pkv.AffineX()
		must(err)
		ay, err := pkv.AffineY()
		must(err)
		return sk, ecKey[P, B, S]{pk, o}, sBig(ax).Cmp(o.x) == 0 && sBig(ay).Cmp(o.y) == 0
	}
	scheme, err := ecdsa.NewScheme(suite, prng)
	must(err)
	vfDefault, err := scheme.Verifier()
	must(err)
	vfStrict, err := scheme.Verifier(ecdsa.VerifyNonMalleably[P, B, S])
	must(err)
	half := new(big.Int).Rsh(wc.N, 1)
	isLow := func(s *big.Int) bool { return s.Cmp(half) <= 0 }
	stdVerify := func(Q apt, digest []byte, r, s *big.Int) bool {
		return stdecdsa.Verify(&stdecdsa.PublicKey{Curve: std, X: Q.x, Y: Q.y}, digest, r, s)
	}

	// constructors and decoders
	{
		one := sf.One()
		zero := sf.Zero()
		mk := func(what string, err error) {
			emit("construct", map[string]any{"suite": name, "what": what, "ok": err == nil})
		}
		_, err := ecdsa.NewSignature(one, one, nil)
		mk("v_absent", err)
		_, err = ecdsa.NewSignature(zero, one, nil)
		mk("r_zero", err)
		_, err = ecdsa.NewSignature(one, zero, nil)
		mk("s_zero", err)
		for _, c := range []struct {
			what string
			v    int
		}{{"v_0", 0}, {"v_3", 3}, {"v_4", 4}, {"v_neg", -1}} {
			v := c.v
			_, err = ecdsa.NewSignature(one, one, &v)
			mk(c.what, err)
		}
		_, err = ecdsa.NewPublicKey(curve.OpIdentity())
		mk("pk_identity", err)
		_, k, _ := newKey()
		_, err = ecdsa.NewPrivateKey(zero, k.pk)
		mk("sk_zero", err)
		_, err = sf.FromBytes(pad32(new(big.Int).Sub(wc.N, big.NewInt(1))))
		mk("valid", err)
	}

	// device W: signatures whose s lies in a small window around the middle of the scalar range (s = (n-1)/2 + off). A random
	// signature never gets there, so the key is solved from the signing equation: d = (s k - z) / r for a fresh nonce k.
	for it := 0; it < n; it++ {
		for off := -2; off <= 3; off++ {
			msg := make([]byte, 1+rnd.IntN(64))
			io.ReadFull(prng, msg)
			digest := hashBytes(hf, msg)
			z := wc.digestInt(digest)
			var kb *big.Int
			var Rp apt
			for {
				kS, err := sf.Random(prng)
				must(err)
				kb = sBig(kS)
				Rp = wc.mul(kb, wc.gen())
				if kb.Sign() != 0 && !Rp.inf && Rp.x.Cmp(wc.N) < 0 && Rp.x.Sign() != 0 {
					break
				}
			}
			rb := new(big.Int).Set(Rp.x)
			sb := new(big.Int).Add(half, big.NewInt(int64(off)))
			db := new(big.Int).Mul(sb, kb)
			db.Sub(db, z)
			db.Mul(db, new(big.Int).ModInverse(rb, wc.N))
			db.Mod(db, wc.N)
			if db.Sign() == 0 {
				continue
			}
			dS, err := sf.FromBytes(pad32(db))
			must(err)
			rS, err := sf.FromBytes(pad32(rb))
			must(err)
			sS, err := sf.FromBytes(pad32(sb))
			must(err)
			pk, err := ecdsa.NewPublicKey(curve.ScalarBaseMul(dS))
			must(err)
			orcQ := wc.mul(db, wc.gen())
			v := int(Rp.y.Bit(0))
			sig, err := ecdsa.NewSignature(rS, sS, &v)
			must(err)
			c := sig.Clone()
			c.Normalise()
			nOff := new(big.Int).Sub(sBig(c.S()), half)
			nOffV := 99 // sentinel: far from the middle
			if nOff.IsInt64() && nOff.Int64() >= -8 && nOff.Int64() <= 8 {
				nOffV = int(nOff.Int64())
			}
			rec, err := ecdsa.RecoverPublicKey(suite, sig, msg)
			emit("ebound", map[string]any{"suite": name, "off": off, "isNorm": sig.IsNormalized(),
				"accDefault": vfDefault.Verify(sig, pk, msg) == nil, "accStrict": vfStrict.Verify(sig, pk, msg) == nil,
				"orc": wc.ecdsaVerify(orcQ, digest, rb, sb), "recOK": err == nil && rec.Equal(pk),
				"nOff": nOffV, "nIsNorm": c.IsNormalized(), "nSameR": c.R().Equal(sig.R()), "nVflip": c.V() != nil && *c.V() == v^1, "nVsame": c.V() != nil && *c.V() == v,
				"nAccDefault": vfDefault.Verify(c, pk, msg) == nil, "nAccStrict": vfStrict.Verify(c, pk, msg) == nil,
				"nOrc": wc.ecdsaVerify(orcQ, digest, sBig(c.R()), sBig(c.S()))})
		}
	}

	for it := 0; it < n; it++ {
		sk, key, pkOK := newKey()
		_, other, _ := newKey()
		msg := make([]byte, 1+rnd.IntN(64))
		io.ReadFull(prng, msg)
		signer, err := scheme.Signer(sk)
		must(err)
		sig, err := signer.Sign(msg)
		ev := map[string]any{"suite": name, "ok": err == nil, "pkOK": pkOK, "det": suite.IsDeterministic(), "err": tr.ErrClass(err)}
		if err != nil {
			ev["selfv"], ev["recOK"], ev["orc"], ev["same2"] = false, false, false, false
			emit("esign", ev)
			continue
		}
		digest := hashBytes(hf, msg)
		r0, s0 := sBig(sig.R()), sBig(sig.S())
		ev["selfv"] = vfDefault.Verify(sig, key.pk, msg) == nil
		rec, err := ecdsa.RecoverPublicKey(suite, sig, msg)
		ev["recOK"] = err == nil && rec.Equal(key.pk)
		ev["orc"] = wc.ecdsaVerify(key.orc, digest, r0, s0)
		if std != nil {
			ev["std"] = stdVerify(key.orc, digest, r0, s0)
		}
		same2 := true
		if suite.IsDeterministic() {
			sig2, err := signer.Sign(msg)
			same2 = err == nil && sig2.Equal(sig) && *sig2.V() == *sig.V()
		}
		ev["same2"] = same2
		emit("esign", ev)

		// the two equivalent forms of the honest signature, one low-S and one high-S
		v0 := *sig.V()
		vt := v0 ^ 1
		twin, err := ecdsa.NewSignature(sig.R(), sig.S().Neg(), &vt)
		must(err)
		for _, orig := range []*ecdsa.Signature[S]{sig, twin} {
			so, vo := sBig(orig.S()), *orig.V()
			origLow := isLow(so)
			// Normalise
			{
				c := orig.Clone()
				c.Normalise()
				sRel, vRel := "other", "other"
				if c.S().Equal(orig.S()) {
					sRel = "same"
				} else if c.S().Equal(orig.S().Neg()) {
					sRel = "neg"
				}
				if *c.V() == vo {
					vRel = "same"
				} else if *c.V() == vo^1 {
					vRel = "flip"
				}
				emit("enorm", map[string]any{"suite": name, "high": !origLow, "sRel": sRel, "vRel": vRel, "hasV": true,
					"lowAfter": isLow(sBig(c.S())) && c.IsNormalized(), "accDefault": vfDefault.Verify(c, key.pk, msg) == nil,
					"accStrict": vfStrict.Verify(c, key.pk, msg) == nil, "orc": wc.ecdsaVerify(key.orc, digest, sBig(c.R()), sBig(c.S()))})
				nv, err := ecdsa.NewSignature(orig.R(), orig.S(), nil)
				must(err)
				nv.Normalise()
				sRel = "other"
				if nv.S().Equal(orig.S()) {
					sRel = "same"
				} else if nv.S().Equal(orig.S().Neg()) {
					sRel = "neg"
				}
				emit("enorm", map[string]any{"suite": name, "high": !origLow, "sRel": sRel, "vRel": map[bool]string{true: "same", false: "other"}[nv.V() == nil], "hasV": false,
					"lowAfter": nv.IsNormalized(), "accDefault": vfDefault.Verify(nv, key.pk, msg) == nil,
					"accStrict": vfStrict.Verify(nv, key.pk, msg) == nil, "orc": wc.ecdsaVerify(key.orc, digest, sBig(nv.R()), sBig(nv.S()))})
			}
			// alteration values
			flipped := append([]byte(nil), msg...)
			bit := rnd.IntN(len(msg) * 8)
			flipped[bit/8] ^= 1 << (bit % 8)
			msgs := map[string][]byte{"same": msg, "flip": flipped}
			negPk, err := ecdsa.NewPublicKey(key.pk.Value().Neg())
			must(err)
			keys := map[string]ecKey[P, B, S]{"same": key, "neg": {negPk, wc.neg(key.orc)}, "other": other}
			rOther, err := sf.Random(prng)
			must(err)
			sOther, err := sf.Random(prng)
			must(err)
			rs := map[string]S{"same": orig.R(), "neg": orig.R().Neg(), "other": rOther}
			ss := map[string]S{"same": orig.S(), "neg": orig.S().Neg(), "other": sOther}
			vs := map[string]int{"absent": -1, "right": vo, "flip": vo ^ 1, "plus2": vo ^ 2, "flipplus2": vo ^ 3}
			orcV := map[string]bool{}
			orcR := map[string]bool{}
			for _, am := range []string{"same", "flip"} {
				dg := hashBytes(hf, msgs[am])
				for _, ak := range []string{"same", "neg", "other"} {
					for _, ar := range []string{"same", "neg", "other"} {
						for _, as := range []string{"same", "neg", "other"} {
							rb, sb := sBig(rs[ar]), sBig(ss[as])
							kv := am + ak + ar + as
							orcV[kv] = wc.ecdsaVerify(keys[ak].orc, dg, rb, sb)
							for _, av := range []string{"absent", "right", "flip", "plus2", "flipplus2"} {
								var vp *int
								if vs[av] >= 0 {
									v := vs[av]
									vp = &v
								}
								pres, err := ecdsa.NewSignature(rs[ar], ss[as], vp)
								must(err)
								base := map[string]any{"suite": name, "alt": map[string]string{"msg": am, "key": ak, "r": ar, "s": as, "v": av},
									"lowS": isLow(sb), "origLow": origLow, "orc": orcV[kv]}
								if std != nil {
									base["std"] = stdVerify(keys[ak].orc, dg, rb, sb)
								}
								if vp != nil {
									rp, err := ecdsa.RecoverPublicKey(suite, pres, msgs[am])
									base["rec"] = err == nil && rp.Equal(keys[ak].pk)
									kr := fmt.Sprintf("%s%s%s%d", am, ar, as, *vp)
									if _, ok := orcR[kr+ak]; !ok {
										q, ok := wc.ecdsaRecover(dg, rb, sb, *vp)
										for _, kk := range []string{"same", "neg", "other"} {
											orcR[kr+kk] = ok && q.x.Cmp(keys[kk].orc.x) == 0 && q.y.Cmp(keys[kk].orc.y) == 0
										}
									}
									base["orcRec"] = orcR[kr+ak]
								}
								for _, strict := range []bool{false, true} {
									evv := map[string]any{"strict": strict}
									for k, v := range base {
										evv[k] = v
									}
									vf := vfDefault
									if strict {
										vf = vfStrict
									}
									err := vf.Verify(pres, keys[ak].pk, msgs[am])
									evv["acc"] = err == nil
									evv["err"] = tr.ErrClass(err)
									emit("everify", evv)
								}
							}
						}
					}
				}
			}
		}
	}
}

package main

// Published vectors: the BLS (Ethereum consensus-spec) vectors the repository ships under pkg/signatures/bls/vectors,
// read from the tree under test, and the first BIP-340 vectors of the BIP's test-vectors.csv.

import (
	"bytes"
	"encoding/hex"
	"encoding/json"
	"os"
	"path/filepath"
	"sort"
	"strings"

	"github.com/bronlabs/bron-crypto/pkg/base/curves/k256"
	"github.com/bronlabs/bron-crypto/pkg/base/curves/pairable"
	"github.com/bronlabs/bron-crypto/pkg/base/curves/pairable/bls12381"
	"github.com/bronlabs/bron-crypto/pkg/signatures/bls"
	"github.com/bronlabs/bron-crypto/pkg/signatures/schnorrlike/bip340"
)

func unhex(s string) []byte {
	b, err := hex.DecodeString(strings.TrimPrefix(s, "0x"))
	must(err)
	return b
}

type g1pk = bls.PublicKey[*bls12381.PointG1, *bls12381.BaseFieldElementG1, *bls12381.PointG2, *bls12381.BaseFieldElementG2, *bls12381.GtElement, *bls12381.Scalar]
type g2sig = bls.Signature[*bls12381.PointG2, *bls12381.BaseFieldElementG2, *bls12381.PointG1, *bls12381.BaseFieldElementG1, *bls12381.GtElement, *bls12381.Scalar]

func runVectors() {
	bip340Vectors()
	dir := filepath.Join(repo, "pkg/signatures/bls/vectors")
	fam := pairable.NewBLS12381()
	g1, g2 := fam.SourceSubGroup(), fam.TwistedSubGroup()
	dst, err := bls.BLS12381CipherSuite().GetDst(bls.POP, bls.ShortKey) // the vectors were generated for the PoP ciphersuite
	must(err)
	sch, err := bls.NewShortKeyScheme(fam, bls.Basic)
	must(err)
	files := func(kind string) []string {
		es, err := os.ReadDir(filepath.Join(dir, kind))
		must(err)
		var out []string
		for _, e := range es {
			if strings.HasSuffix(e.Name(), ".json") {
				out = append(out, e.Name())
			}
		}
		sort.Strings(out)
		return out
	}
	load := func(kind, f string, v any) bool {
		data, err := os.ReadFile(filepath.Join(dir, kind, f))
		must(err)
		if len(bytes.TrimSpace(data)) == 0 {
			return false
		}
		must(json.Unmarshal(data, v))
		return true
	}
	out := func(kind, f string, expected, got bool) {
		emit("vector", map[string]any{"kind": "bls-" + kind, "file": f, "expected": expected, "got": got})
	}
	pkOf := func(h string) (*g1pk, bool) {
		pk, err := bls.NewPublicKeyFromBytes(g1, unhex(h))
		return pk, err == nil
	}
	sigOf := func(h string) (*g2sig, bool) {
		s, err := bls.NewSignatureFromBytes(g2, unhex(h), nil)
		return s, err == nil
	}
	verifier := func() *bls.Verifier[*bls12381.PointG1, *bls12381.BaseFieldElementG1, *bls12381.PointG2, *bls12381.BaseFieldElementG2, *bls12381.GtElement, *bls12381.Scalar] {
		vf, err := sch.Verifier(bls.VerifyWithCustomDST[*bls12381.PointG1](dst))
		must(err)
		return vf
	}
	for _, f := range files("sign") {
		var v struct {
			Input  struct{ Privkey, Message string }
			Output *string
		}
		if !load("sign", f, &v) {
			continue
		}
		got := false
		if sk, err := bls.NewPrivateKeyFromBytes(g1, unhex(v.Input.Privkey)); err == nil {
			sg, err := sch.Signer(sk, bls.SignWithCustomDST[*bls12381.PointG1](dst))
			must(err)
			if sig, err := sg.Sign(unhex(v.Input.Message)); err == nil {
				got = v.Output == nil || bytes.Equal(sig.Bytes(), unhex(*v.Output))
			}
		}
		out("sign", f, v.Output != nil, got)
	}
	for _, f := range files("verify") {
		var v struct {
			Input  struct{ Pubkey, Message, Signature string }
			Output bool
		}
		if !load("verify", f, &v) {
			continue
		}
		pk, ok1 := pkOf(v.Input.Pubkey)
		sig, ok2 := sigOf(v.Input.Signature)
		got := ok1 && ok2 && verifier().Verify(sig, pk, unhex(v.Input.Message)) == nil
		out("verify", f, v.Output, got)
	}
	for _, f := range files("aggregate") {
		var v struct {
			Input  []string
			Output *string
		}
		if !load("aggregate", f, &v) {
			continue
		}
		var sigs []*g2sig
		ok := len(v.Input) > 0
		for _, h := range v.Input {
			s, o := sigOf(h)
			ok = ok && o
			sigs = append(sigs, s)
		}
		got := false
		if ok {
			agg, err := bls.AggregateAll[*bls12381.PointG1](sigs)
			got = err == nil && v.Output != nil && bytes.Equal(agg.Bytes(), unhex(*v.Output))
		}
		// the library refuses identity ("infinity") signatures by policy, so that vector is expected to fail here
		expected := v.Output != nil && !strings.Contains(f, "infinity")
		out("aggregate", f, expected, got)
	}
	for _, f := range files("aggregate_verify") {
		var v struct {
			Input struct {
				Pubkeys, Messages []string
				Signature         string
			}
			Output bool
		}
		if !load("aggregate_verify", f, &v) {
			continue
		}
		ok := true
		var pks []*g1pk
		var msgs [][]byte
		for _, h := range v.Input.Pubkeys {
			pk, o := pkOf(h)
			ok = ok && o
			pks = append(pks, pk)
		}
		for _, h := range v.Input.Messages {
			msgs = append(msgs, unhex(h))
		}
		sig, o := sigOf(v.Input.Signature)
		ok = ok && o
		got := ok && verifier().AggregateVerify(sig, pks, msgs) == nil
		out("aggregate_verify", f, v.Output, got)
	}
	for _, f := range files("batch_verify") {
		var v struct {
			Input  struct{ Pubkeys, Messages, Signatures []string }
			Output bool
		}
		if !load("batch_verify", f, &v) {
			continue
		}
		got := len(v.Input.Pubkeys) == len(v.Input.Signatures) && len(v.Input.Messages) == len(v.Input.Signatures)
		for i := range v.Input.Signatures {
			if !got {
				break
			}
			pk, ok1 := pkOf(v.Input.Pubkeys[i])
			sig, ok2 := sigOf(v.Input.Signatures[i])
			got = ok1 && ok2 && verifier().Verify(sig, pk, unhex(v.Input.Messages[i])) == nil
		}
		out("batch_verify", f, v.Output, got)
	}
}

func bip340Vectors() {
	vs := []struct{ sk, pk, aux, msg, sig string }{
		{"0000000000000000000000000000000000000000000000000000000000000003", "F9308A019258C31049344F85F89D5229B531C845836F99B08601F113BCE036F9",
			"0000000000000000000000000000000000000000000000000000000000000000", "0000000000000000000000000000000000000000000000000000000000000000",
			"E907831F80848D1069A5371B402410364BDF1C5F8307B0084C55F1CE2DCA821525F66A4A85EA8B71E482A74F382D2CE5EBEEE8FDB2172F477DF4900D310536C0"},
		{"B7E151628AED2A6ABF7158809CF4F3C762E7160F38B4DA56A784D9045190CFEF", "DFF1D77F2A671C5F36183726DB2341BE58FEAE1DA2DECED843240F7B502BA659",
			"0000000000000000000000000000000000000000000000000000000000000001", "243F6A8885A308D313198A2E03707344A4093822299F31D0082EFA98EC4E6C89",
			"6896BD60EEAE296DB48A229FF71DFE071BDE413E6D43F917DC8DCF8C78DE33418906D11AC976ABCCB20B091292BFF4EA897EFCB639EA871CFA95F6DE339E4B0A"},
		{"C90FDAA22168C234C4C6628B80DC1CD129024E088A67CC74020BBEA63B14E5C9", "DD308AFEC5777E13121FA72B9CC1B7CC0139715309B086C960E18FD969774EB8",
			"C87AA53824B4D7AE2EB035A2B5BBBCCC080E76CDC6D1692C4B0B62D798E6D906", "7E2D58D8B3BCDF1ABADEC7829054F90DDA9805AAB56C77333024B9D0A508B75C",
			"5831AAEED7B44BB74E5EAB94BA9D4294C49BCF2A60728D8B4C200F50DD313C1BAB745879A5AD954A72C45A91C3A51D3C7ADEA98D82F8481E0E1E03674A6F3FB7"},
		{"0B432B2677937381AEF05BB02A66ECD012773062CF3FA2549E44F58ED2401710", "25D1DFF95105F5253C4022F628A996AD3A0D95FBF21D468A1B33F8C160D8F517",
			"FFFFFFFFFFFFFFFFFFFFFFFFFFFFFFFFFFFFFFFFFFFFFFFFFFFFFFFFFFFFFFFF", "FFFFFFFFFFFFFFFFFFFFFFFFFFFFFFFFFFFFFFFFFFFFFFFFFFFFFFFFFFFFFFFF",
			"7EB0509757E246F19449885651611CB965ECC1A187DD51B64FDA1EDC9637D5EC97582B9CB13DB3933705B32BA982AF5AF25FD78881EBB32771FC5922EFC66EA3"},
	}
	for i, v := range vs {
		skv, err := k256.NewScalarField().FromBytes(unhex(v.sk))
		must(err)
		sk, err := bip340.NewPrivateKey(skv)
		must(err)
		var aux [32]byte
		copy(aux[:], unhex(v.aux))
		sch := bip340.NewSchemeWithAux(aux)
		sg, err := sch.Signer(sk)
		must(err)
		sig, err := sg.Sign(unhex(v.msg))
		got := false
		if err == nil {
			b, err := bip340.SerializeSignature(sig)
			pkb, err2 := bip340.SerializePublicKey(sk.PublicKey())
			got = err == nil && err2 == nil && bytes.Equal(b, unhex(v.sig)) && bytes.Equal(pkb, unhex(v.pk))
		}
		emit("vector", map[string]any{"kind": "bip340-sign", "file": i, "expected": true, "got": got})
		// verification of the published signature from its bytes, and of the same with one bit of s / of the message changed
		for _, alt := range []string{"none", "sig", "msg"} {
			sb, mb := unhex(v.sig), unhex(v.msg)
			switch alt {
			case "sig":
				sb[63] ^= 1
			case "msg":
				mb[0] ^= 0x80
			}
			pk, err1 := bip340.NewPublicKeyFromBytes(unhex(v.pk))
			ps, err2 := bip340.NewSignatureFromBytes(sb)
			got := false
			if err1 == nil && err2 == nil {
				vf, err := sch.Verifier()
				must(err)
				got = vf.Verify(ps, pk, mb) == nil
			}
			emit("vector", map[string]any{"kind": "bip340-verify-" + alt, "file": i, "expected": alt == "none", "got": got,
				"orc": bip340Verify(unhex(v.pk), mb, sb)})
		}
	}
}

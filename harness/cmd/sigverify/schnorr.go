package main

import (
	stded "crypto/ed25519"
	"crypto/sha256"
	"crypto/sha3"
	"crypto/sha512"
	"hash"
	"io"
	"slices"

	"github.com/bronlabs/bron-crypto/pkg/base/algebra"
	"github.com/bronlabs/bron-crypto/pkg/base/curves/edwards25519"
	"github.com/bronlabs/bron-crypto/pkg/base/curves/k256"
	"github.com/bronlabs/bron-crypto/pkg/base/curves/p256"
	"github.com/bronlabs/bron-crypto/pkg/base/curves/pasta"
	"github.com/bronlabs/bron-crypto/pkg/signatures"
	"github.com/bronlabs/bron-crypto/pkg/signatures/schnorrlike"
	"github.com/bronlabs/bron-crypto/pkg/signatures/schnorrlike/bip340"
	"github.com/bronlabs/bron-crypto/pkg/signatures/schnorrlike/mina"
	vanilla "github.com/bronlabs/bron-crypto/pkg/signatures/schnorrlike/schnorr"

	"verif/harness/tr"
)

// sOps is what the alteration matrix needs from one Schnorr-like suite.
type sOps[GE schnorrlike.GroupElement[GE, S], S schnorrlike.Scalar[S], M any] struct {
	name   string
	group  algebra.PrimeGroup[GE, S]
	neg    bool // s = k - e d
	det    bool // signing is deterministic
	newKey func(prng io.Reader) (*schnorrlike.PrivateKey[GE, S], *schnorrlike.PublicKey[GE, S])
	sign   func(sk *schnorrlike.PrivateKey[GE, S], m M) (*schnorrlike.Signature[GE, S], error)
	verify func(sig *schnorrlike.Signature[GE, S], pk *schnorrlike.PublicKey[GE, S], m M) error
	msgs   func(prng io.Reader) (M, M)                                                         // a message and the same with one bit flipped
	secret func(sk *schnorrlike.PrivateKey[GE, S]) S                                           // the scalar d with s = k +- e d (BIP-340: parity adjusted)
	oracle func(sig *schnorrlike.Signature[GE, S], pk *schnorrlike.PublicKey[GE, S], m M) bool // independent verifier on bytes (nil if none)
	batch  func(sigs []*schnorrlike.Signature[GE, S], pks []*schnorrlike.PublicKey[GE, S], ms []M) error
}

func rawSPK[GE schnorrlike.GroupElement[GE, S], S schnorrlike.Scalar[S]](v GE) *schnorrlike.PublicKey[GE, S] {
	return &schnorrlike.PublicKey[GE, S]{PublicKeyTrait: signatures.PublicKeyTrait[GE, S]{V: v}}
}

var (
	sKeyAlts = []string{"same", "neg", "other", "identity"}
	sSAlts   = []string{"same", "neg", "other", "zero", "nonceneg"}
	sEAlts   = []string{"same", "other", "nil"}
)

func schnorrMatrix[GE schnorrlike.GroupElement[GE, S], S schnorrlike.Scalar[S], M any](o sOps[GE, S, M], n int) {
	prng := tr.Rng(seed, 2500+uint64(len(o.name)))
	rnd := tr.PRand(seed, 2501+uint64(len(o.name)))
	sf := algebra.StructureMustBeAs[algebra.PrimeField[S]](o.group.ScalarStructure())
	randS := func() S {
		for {
			s, err := sf.Random(prng)
			must(err)
			if !s.IsZero() {
				return s
			}
		}
	}
	// constructors
	{
		_, err := schnorrlike.NewPublicKey[GE, S](o.group.OpIdentity())
		emit("construct", map[string]any{"suite": o.name, "what": "pk_identity", "ok": err == nil})
		_, err = schnorrlike.NewSignature[GE, S](sf.One(), o.group.Generator(), sf.Zero())
		emit("construct", map[string]any{"suite": o.name, "what": "s_zero", "ok": err == nil})
		_, err = schnorrlike.NewSignature[GE, S](sf.One(), o.group.Generator(), sf.One())
		emit("construct", map[string]any{"suite": o.name, "what": "valid", "ok": err == nil})
	}
	type honest struct {
		sig *schnorrlike.Signature[GE, S]
		pk  *schnorrlike.PublicKey[GE, S]
		m   M
	}
	var pool []honest
	for it := 0; it < n; it++ {
		sk, pk := o.newKey(prng)
		_, otherPk := o.newKey(prng)
		m, mflip := o.msgs(prng)
		sig, err := o.sign(sk, m)
		ev := map[string]any{"suite": o.name, "ok": err == nil, "det": o.det, "err": tr.ErrClass(err)}
		if err != nil {
			ev["selfv"], ev["same2"], ev["eqOK"] = false, false, false
			emit("ssign", ev)
			continue
		}
		ev["selfv"] = o.verify(sig, pk, m) == nil
		if o.oracle != nil {
			ev["orc"] = o.oracle(sig, pk, m)
		}
		same2 := true
		if o.det {
			sig2, err := o.sign(sk, m)
			same2 = err == nil && sig2.R.Equal(sig.R) && sig2.S.Equal(sig.S)
		}
		ev["same2"] = same2
		// known-secret identity: k = s -+ e d must be the discrete log of R
		d := o.secret(sk)
		ed := sig.E.Mul(d)
		k := sig.S.Sub(ed)
		if o.neg {
			k = sig.S.Add(ed)
		}
		ev["eqOK"] = o.group.ScalarBaseOp(k).Equal(sig.R)
		emit("ssign", ev)
		pool = append(pool, honest{sig, pk, m})

		negPk, err := schnorrlike.NewPublicKey[GE, S](pk.V.OpInv())
		must(err)
		keys := map[string]*schnorrlike.PublicKey[GE, S]{"same": pk, "neg": negPk, "other": otherPk, "identity": rawSPK[GE, S](o.group.OpIdentity())}
		Rs := map[string]GE{"same": sig.R, "neg": sig.R.OpInv(), "other": o.group.ScalarBaseOp(randS()), "identity": o.group.OpIdentity()}
		ss := map[string]S{"same": sig.S, "neg": sig.S.Neg(), "other": randS(), "zero": sf.Zero(), "nonceneg": sig.S.Sub(k.Add(k))}
		var nilS S
		es := map[string]S{"same": sig.E, "other": randS(), "nil": nilS}
		msgs := map[string]M{"same": m, "flip": mflip}
		for _, am := range []string{"same", "flip"} {
			for _, ak := range sKeyAlts {
				for _, ar := range sKeyAlts {
					for _, as := range sSAlts {
						for _, ae := range sEAlts {
							pres := &schnorrlike.Signature[GE, S]{E: es[ae], R: Rs[ar], S: ss[as]}
							err := o.verify(pres, keys[ak], msgs[am])
							ev := map[string]any{"suite": o.name, "alt": map[string]string{"msg": am, "key": ak, "R": ar, "s": as}, "e": ae,
								"acc": err == nil, "err": tr.ErrClass(err)}
							if o.oracle != nil && ak != "identity" && ar != "identity" && as != "zero" && ae == "same" {
								ev["orc"] = o.oracle(pres, keys[ak], msgs[am])
							}
							emit("sverify", ev)
						}
					}
				}
			}
		}
	}
	// batch verification: items drawn from the honest pool, each altered or not
	if o.batch != nil && len(pool) > 0 {
		choices := [][4]string{{"same", "same", "same", "same"}, {"same", "same", "same", "same"}, {"flip", "same", "same", "same"},
			{"same", "other", "same", "same"}, {"same", "neg", "same", "same"}, {"same", "same", "neg", "same"}, {"same", "same", "same", "neg"},
			{"same", "same", "same", "other"}, {"same", "same", "other", "same"}}
		for b := 0; b < 12*n; b++ {
			cnt := 1 + rnd.IntN(4)
			var sigs []*schnorrlike.Signature[GE, S]
			var pks []*schnorrlike.PublicKey[GE, S]
			var ms []M
			var items []map[string]string
			for j := 0; j < cnt; j++ {
				h := pool[rnd.IntN(len(pool))]
				c := choices[rnd.IntN(len(choices))]
				if b%3 == 0 {
					c = choices[0]
				}
				_, otherPk := o.newKey(prng)
				_, mflip := o.msgs(prng)
				pres := &schnorrlike.Signature[GE, S]{R: h.sig.R, S: h.sig.S}
				pk := h.pk
				mm := h.m
				if c[0] == "flip" {
					mm = mflip // an unrelated message
				}
				switch c[1] {
				case "other":
					pk = otherPk
				case "neg":
					var err error
					pk, err = schnorrlike.NewPublicKey[GE, S](h.pk.V.OpInv())
					must(err)
				}
				switch c[2] {
				case "neg":
					pres.R = h.sig.R.OpInv()
				case "other":
					pres.R = o.group.ScalarBaseOp(randS())
				}
				switch c[3] {
				case "neg":
					pres.S = h.sig.S.Neg()
				case "other":
					pres.S = randS()
				}
				sigs, pks, ms = append(sigs, pres), append(pks, pk), append(ms, mm)
				items = append(items, map[string]string{"msg": c[0], "key": c[1], "R": c[2], "s": c[3]})
			}
			err := o.batch(sigs, pks, ms)
			emit("sbatch", map[string]any{"suite": o.name, "items": items, "acc": err == nil, "err": tr.ErrClass(err)})
		}
	}
}

func flipBit(m []byte, bit int) []byte {
	out := append([]byte(nil), m...)
	out[(bit/8)%len(m)] ^= 1 << (bit % 8)
	return out
}

func byteMsgs(rnd func() int) func(prng io.Reader) ([]byte, []byte) {
	return func(prng io.Reader) ([]byte, []byte) {
		m := make([]byte, 1+rnd()%64)
		io.ReadFull(prng, m)
		return m, flipBit(m, rnd())
	}
}

func vanillaOps[GE algebra.PrimeGroupElement[GE, S], S algebra.PrimeFieldElement[S]](name string, group algebra.PrimeGroup[GE, S], h func() hash.Hash, neg, le bool,
	oracle func(sig *schnorrlike.Signature[GE, S], pk *schnorrlike.PublicKey[GE, S], m []byte) bool) sOps[GE, S, []byte] {
	prng := tr.Rng(seed, 2600)
	rnd := tr.PRand(seed, 2601)
	sch, err := vanilla.NewScheme[GE, S](group, h, neg, le, nil, prng)
	must(err)
	vf, err := sch.Verifier()
	must(err)
	return sOps[GE, S, []byte]{
		name: name, group: group, neg: neg, det: false,
		newKey: func(p io.Reader) (*schnorrlike.PrivateKey[GE, S], *schnorrlike.PublicKey[GE, S]) {
			kg, err := sch.Keygen()
			must(err)
			sk, pk, err := kg.Generate(p)
			must(err)
			return sk, pk
		},
		sign: func(sk *schnorrlike.PrivateKey[GE, S], m []byte) (*schnorrlike.Signature[GE, S], error) {
			sg, err := sch.Signer(sk)
			must(err)
			return sg.Sign(m)
		},
		verify: func(sig *schnorrlike.Signature[GE, S], pk *schnorrlike.PublicKey[GE, S], m []byte) error {
			return vf.Verify(sig, pk, m)
		},
		msgs:   byteMsgs(func() int { return rnd.IntN(1 << 20) }),
		secret: func(sk *schnorrlike.PrivateKey[GE, S]) S { return sk.Value() },
		oracle: oracle,
		batch: func(sigs []*schnorrlike.Signature[GE, S], pks []*schnorrlike.PublicKey[GE, S], ms [][]byte) error {
			return vf.BatchVerify(sigs, pks, ms)
		},
	}
}

func runSchnorr(n int, only string) {
	rnd := tr.PRand(seed, 2700)
	want := func(name string) bool { return wanted(name, only) }
	if want("bip340") {
		var aux [32]byte
		io.ReadFull(tr.Rng(seed, 2701), aux[:])
		sch := bip340.NewSchemeWithAux(aux)
		vf, err := sch.Verifier(bip340.VerifyWithPRNG(tr.Rng(seed, 2702)))
		must(err)
		x32 := func(p *k256.Point) []byte { return p.ToCompressed()[1:] }
		schnorrMatrix(sOps[*k256.Point, *k256.Scalar, []byte]{
			name: "bip340", group: k256.NewCurve(), det: true,
			newKey: func(p io.Reader) (*bip340.PrivateKey, *bip340.PublicKey) {
				kg, err := sch.Keygen()
				must(err)
				sk, pk, err := kg.Generate(p)
				must(err)
				return sk, pk
			},
			sign: func(sk *bip340.PrivateKey, m []byte) (*bip340.Signature, error) {
				sg, err := sch.Signer(sk)
				must(err)
				return sg.Sign(m)
			},
			verify: func(sig *bip340.Signature, pk *bip340.PublicKey, m []byte) error { return vf.Verify(sig, pk, m) },
			msgs:   byteMsgs(func() int { return rnd.IntN(1 << 20) }),
			secret: func(sk *bip340.PrivateKey) *k256.Scalar {
				y, err := sk.PublicKey().Value().AffineY()
				must(err)
				if y.IsOdd() {
					return sk.Value().Neg()
				}
				return sk.Value()
			},
			oracle: func(sig *bip340.Signature, pk *bip340.PublicKey, m []byte) bool {
				return bip340Verify(x32(pk.Value()), m, slices.Concat(x32(sig.R), sig.S.Bytes()))
			},
			batch: func(sigs []*bip340.Signature, pks []*bip340.PublicKey, ms [][]byte) error {
				return vf.BatchVerify(sigs, pks, ms)
			},
		}, n)
	}
	if want("schnorr-k256-sha256") {
		schnorrMatrix(vanillaOps[*k256.Point, *k256.Scalar]("schnorr-k256-sha256", k256.NewCurve(), sha256.New, false, false, nil), n)
	}
	if want("schnorr-k256-sha256-neg") {
		schnorrMatrix(vanillaOps[*k256.Point, *k256.Scalar]("schnorr-k256-sha256-neg", k256.NewCurve(), sha256.New, true, false, nil), n)
	}
	if want("schnorr-p256-sha3") {
		schnorrMatrix(vanillaOps[*p256.Point, *p256.Scalar]("schnorr-p256-sha3", p256.NewCurve(), func() hash.Hash { return sha3.New256() }, false, false, nil), n)
	}
	if want("schnorr-pallas-sha256") {
		schnorrMatrix(vanillaOps[*pasta.PallasPoint, *pasta.PallasScalar]("schnorr-pallas-sha256", pasta.NewPallasCurve(), sha256.New, false, false, nil), n)
	}
	if want("schnorr-ed25519-sha512le") {
		// SHA-512 with a little-endian challenge over the prime subgroup of edwards25519 is Ed25519's verification
		// equation, so crypto/ed25519 is an independent verifier of (R || s_le) under the encoded key.
		orc := func(sig *schnorrlike.Signature[*edwards25519.PrimeSubGroupPoint, *edwards25519.Scalar],
			pk *schnorrlike.PublicKey[*edwards25519.PrimeSubGroupPoint, *edwards25519.Scalar], m []byte) bool {
			s := slices.Clone(sig.S.Bytes())
			slices.Reverse(s)
			return stded.Verify(stded.PublicKey(pk.Value().Bytes()), m, slices.Concat(sig.R.Bytes(), s))
		}
		schnorrMatrix(vanillaOps[*edwards25519.PrimeSubGroupPoint, *edwards25519.Scalar]("schnorr-ed25519-sha512le",
			edwards25519.NewPrimeSubGroup(), sha512.New, false, true, orc), n)
	}
	for _, mc := range []struct {
		name string
		nid  mina.NetworkID
		det  bool
	}{{"mina-main", mina.MainNet, true}, {"mina-test", mina.TestNet, true}, {"mina-rand", mina.MainNet, false}} {
		if !want(mc.name) {
			continue
		}
		rsch, err := mina.NewRandomisedScheme(mc.nid, tr.Rng(seed, 2703))
		must(err)
		vf, err := rsch.Verifier()
		must(err)
		schnorrMatrix(sOps[*pasta.PallasPoint, *pasta.PallasScalar, *mina.ROInput]{
			name: mc.name, group: pasta.NewPallasCurve(), det: mc.det,
			newKey: func(p io.Reader) (*mina.PrivateKey, *mina.PublicKey) {
				kg, err := rsch.Keygen()
				must(err)
				sk, pk, err := kg.Generate(p)
				must(err)
				return sk, pk
			},
			sign: func(sk *mina.PrivateKey, m *mina.ROInput) (*mina.Signature, error) {
				sch := rsch
				if mc.det {
					var err error
					sch, err = mina.NewScheme(mc.nid, sk)
					must(err)
				}
				sg, err := sch.Signer(sk)
				must(err)
				return sg.Sign(m)
			},
			verify: func(sig *mina.Signature, pk *mina.PublicKey, m *mina.ROInput) error { return vf.Verify(sig, pk, m) },
			msgs: func(p io.Reader) (*mina.ROInput, *mina.ROInput) {
				txt := make([]byte, 1+rnd.IntN(40))
				io.ReadFull(p, txt)
				bf := pasta.NewPallasBaseField()
				f1, err := bf.Random(p)
				must(err)
				mk := func(t []byte) *mina.ROInput {
					m := new(mina.ROInput).Init()
					m.AddFields(f1)
					m.AddString(string(t))
					return m
				}
				return mk(txt), mk(flipBit(txt, rnd.IntN(1<<20)))
			},
			secret: func(sk *mina.PrivateKey) *pasta.PallasScalar { return sk.Value() },
			batch: func(sigs []*mina.Signature, pks []*mina.PublicKey, ms []*mina.ROInput) error {
				return vf.BatchVerify(sigs, pks, ms)
			},
		}, n)
	}
}

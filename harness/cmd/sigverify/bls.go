package main

import (
	"bytes"
	"io"
	"slices"
	"strings"

	"github.com/bronlabs/bron-crypto/pkg/base/algebra"
	"github.com/bronlabs/bron-crypto/pkg/base/curves"
	"github.com/bronlabs/bron-crypto/pkg/base/curves/pairable"
	"github.com/bronlabs/bron-crypto/pkg/base/curves/pairable/bls12381"
	bls12381Impl "github.com/bronlabs/bron-crypto/pkg/base/curves/pairable/bls12381/impl"
	"github.com/bronlabs/bron-crypto/pkg/signatures"
	"github.com/bronlabs/bron-crypto/pkg/signatures/bls"

	"verif/harness/tr"
)

func torsionG1(prng io.Reader) *bls12381.PointG1 {
	// low-level constructor: G1.FromAffineX refuses points outside the prime-order subgroup (since fix 36a8334)
	for {
		var x bls12381Impl.Fp
		if x.SetRandom(prng) != 1 {
			panic("fp random")
		}
		var p bls12381.PointG1
		if p.V.SetFromAffineX(&x) == 1 && !p.IsTorsionFree() && !p.IsOpIdentity() {
			return &p
		}
	}
}

func torsionG2(prng io.Reader) *bls12381.PointG2 {
	for {
		var x bls12381Impl.Fp2
		if x.SetRandom(prng) != 1 {
			panic("fp2 random")
		}
		var p bls12381.PointG2
		if p.V.SetFromAffineX(&x) == 1 && !p.IsTorsionFree() && !p.IsOpIdentity() {
			return &p
		}
	}
}

func runBLS(n, nagg int, only string) {
	fam := pairable.NewBLS12381()
	modes := []struct {
		name string
		alg  bls.RogueKeyPreventionAlgorithm
	}{{"basic", bls.Basic}, {"aug", bls.MessageAugmentation}, {"pop", bls.POP}}
	for _, m := range modes {
		if name := "bls-short-" + m.name; wanted(name, only) {
			sch, err := bls.NewShortKeyScheme(fam, m.alg)
			must(err)
			blsSuite(name, m.name, sch, func(p io.Reader) *bls12381.PointG1 { return torsionG1(p) }, n, nagg)
		}
		if name := "bls-long-" + m.name; wanted(name, only) {
			sch, err := bls.NewLongKeyScheme(fam, m.alg)
			must(err)
			blsSuite(name, m.name, sch, func(p io.Reader) *bls12381.PointG2 { return torsionG2(p) }, n, nagg)
		}
	}
}

type interner struct{ ids map[string]int }

func (in *interner) id(b []byte) int {
	if in.ids == nil {
		in.ids = map[string]int{}
	}
	if v, ok := in.ids[string(b)]; ok {
		return v
	}
	in.ids[string(b)] = len(in.ids) + 1
	return len(in.ids)
}

func blsSuite[
	PK curves.PairingFriendlyPoint[PK, PKFE, SG, SGFE, E, S], PKFE algebra.FieldElement[PKFE],
	SG curves.PairingFriendlyPoint[SG, SGFE, PK, PKFE, E, S], SGFE algebra.FieldElement[SGFE],
	E algebra.MultiplicativeGroupElement[E], S algebra.PrimeFieldElement[S],
](name, mode string, sch *bls.Scheme[PK, PKFE, SG, SGFE, E, S], torsion func(io.Reader) PK, n, nagg int) {
	type tPK = bls.PublicKey[PK, PKFE, SG, SGFE, E, S]
	type tSK = bls.PrivateKey[PK, PKFE, SG, SGFE, E, S]
	type tSig = bls.Signature[SG, SGFE, PK, PKFE, E, S]
	type tPop = bls.ProofOfPossession[SG, SGFE, PK, PKFE, E, S]
	prng := tr.Rng(seed, 3500+uint64(len(name)))
	rnd := tr.PRand(seed, 3501+uint64(len(name)))
	kg := sch.KeySubGroup()
	sgp := sch.SignatureSubGroup()
	dst, err := sch.CipherSuite().GetDst(sch.RogueKeyPreventionAlgorithm(), sch.Variant())
	must(err)
	popDst := sch.CipherSuite().GetPopDst(sch.Variant())
	// the published ciphersuite identifiers (draft-irtf-cfrg-bls-signature section 4.2) are constants of the harness: the
	// known-secret identity of an honest signature / proof of possession is evaluated under THEM, not under what the library says
	grp := map[bool]string{true: "G2", false: "G1"}[strings.HasPrefix(name, "bls-short-")] // short keys: signatures in G2
	pubDst := "BLS_SIG_BLS12381" + grp + "_XMD:SHA-256_SSWU_RO_" + map[string]string{"basic": "NUL_", "aug": "AUG_", "pop": "POP_"}[mode]
	pubPopDst := "BLS_POP_BLS12381" + grp + "_XMD:SHA-256_SSWU_RO_POP_"
	emit("vector", map[string]any{"kind": "bls-dst-sig", "file": name, "expected": pubDst, "got": dst})
	emit("vector", map[string]any{"kind": "bls-dst-pop", "file": name, "expected": pubPopDst, "got": popDst})
	rawPK := func(v PK) *tPK { return &tPK{PublicKeyTrait: signatures.PublicKeyTrait[PK, S]{V: v}} }
	newKey := func() (*tSK, *tPK) {
		g, err := sch.Keygen()
		must(err)
		sk, pk, err := g.Generate(prng)
		must(err)
		return sk, pk
	}
	processed := func(m []byte, pk PK) []byte {
		if mode == "aug" {
			return slices.Concat(pk.Bytes(), m)
		}
		return m
	}
	// known-secret identity, with the library's own hash-to-curve (trusted) : sigma = [x] H_dst(m)
	hx := func(d string, m []byte, x S) SG {
		h, err := sgp.HashWithDst(d, m)
		must(err)
		return h.ScalarMul(x)
	}
	mkPop := func(v SG) *tPop {
		p, err := bls.NewProofOfPossession[SG, SGFE, PK, PKFE, E, S](v)
		must(err)
		return p
	}
	mkSig := func(v SG, pop *tPop) *tSig {
		s, err := bls.NewSignature(v, pop)
		must(err)
		return s
	}
	sign := func(sk *tSK, m []byte) *tSig {
		sg, err := sch.Signer(sk)
		must(err)
		s, err := sg.Sign(m)
		must(err)
		return s
	}
	verifier := func(pops ...*tPop) *bls.Verifier[PK, PKFE, SG, SGFE, E, S] {
		var vf *bls.Verifier[PK, PKFE, SG, SGFE, E, S]
		var err error
		if len(pops) > 0 {
			vf, err = sch.Verifier(bls.VerifyWithProofsOfPossession[PK, PKFE, SG, SGFE, E, S](pops...))
		} else {
			vf, err = sch.Verifier()
		}
		must(err)
		return vf
	}
	tors := torsion(prng)

	// constructors
	{
		mk := func(what string, err error) {
			emit("construct", map[string]any{"suite": name, "what": what, "ok": err == nil})
		}
		_, err := bls.NewPublicKey[PK, PKFE, SG, SGFE, E, S](kg.OpIdentity())
		mk("pk_identity", err)
		_, err = bls.NewPublicKey[PK, PKFE, SG, SGFE, E, S](tors)
		mk("pk_torsion", err)
		_, err = bls.NewSignature[SG, SGFE, PK, PKFE, E, S](sgp.OpIdentity(), nil)
		mk("sig_identity", err)
		_, err = bls.NewProofOfPossession[SG, SGFE, PK, PKFE, E, S](sgp.OpIdentity())
		mk("pop_identity", err)
		sf := algebra.StructureMustBeAs[algebra.PrimeField[S]](kg.ScalarStructure())
		_, err = bls.NewPrivateKey(kg, sf.Zero())
		mk("sk_zero", err)
		_, err = bls.NewPublicKey[PK, PKFE, SG, SGFE, E, S](kg.Generator())
		mk("valid", err)
	}

	for it := 0; it < n; it++ {
		sk, pk := newKey()
		sk2, pk2 := newKey()
		sk3, _ := newKey()
		msg := make([]byte, 1+rnd.IntN(48))
		io.ReadFull(prng, msg)
		flip := flipBit(msg, rnd.IntN(1<<20))
		sg, err := sch.Signer(sk)
		must(err)
		sig, err := sg.Sign(msg)
		ev := map[string]any{"suite": name, "ok": err == nil, "err": tr.ErrClass(err)}
		if err != nil {
			ev["selfv"], ev["orcEq"], ev["popEq"] = false, false, false
			emit("bsign", ev)
			continue
		}
		ev["selfv"] = verifier().Verify(sig, pk, msg) == nil
		ev["orcEq"] = sig.Value().Equal(hx(pubDst, processed(msg, pk.Value()), sk.Value()))
		ev["popEq"] = mode != "pop" || (sig.Pop() != nil && sig.Pop().Value().Equal(hx(pubPopDst, pk.Value().Bytes(), sk.Value())))
		emit("bsign", ev)

		third := sign(sk3, msg)
		keys := map[string]*tPK{"same": pk, "neg": rawPK(pk.Value().Neg()), "other": pk2, "identity": rawPK(kg.OpIdentity()), "torsion": rawPK(tors)}
		secrets := map[string]S{"same": sk.Value(), "neg": sk.Value().Neg(), "other": sk2.Value()}
		sigs := map[string]SG{"same": sig.Value(), "neg": sig.Value().Neg(), "other": third.Value()}
		pops := map[string]*tPop{"same": sig.Pop()}
		popAlts := []string{"same"}
		if mode == "pop" {
			pops["other"] = third.Pop()
			pops["wrongdst"] = mkPop(hx(dst, pk.Value().Bytes(), sk.Value()))
			pops["absent"] = nil
			popAlts = []string{"same", "other", "wrongdst", "absent"}
		}
		msgs := map[string][]byte{"same": msg, "flip": flip}
		for _, am := range []string{"same", "flip"} {
			for _, ak := range []string{"same", "neg", "other", "identity", "torsion"} {
				for _, as := range []string{"same", "neg", "other"} {
					for _, ap := range popAlts {
						pres := mkSig(sigs[as], pops[ap])
						err := verifier().Verify(pres, keys[ak], msgs[am])
						ev := map[string]any{"suite": name, "alt": map[string]string{"msg": am, "key": ak, "sig": as, "pop": ap}, "acc": err == nil, "err": tr.ErrClass(err)}
						if x, ok := secrets[ak]; ok {
							ev["orc"] = sigs[as].Equal(hx(dst, processed(msgs[am], keys[ak].Value()), x))
						}
						emit("bverify", ev)
					}
				}
			}
		}
	}

	// aggregates
	labels := []string{"none", "msgflip", "missing_sig", "missing_pk", "foreign_sig", "foreign_pk", "identity_pk", "torsion_pk", "neg_pk",
		"swap", "dup_sig", "sig_neg", "pop_other", "pop_wrongdst", "pop_missing", "rogue", "identity_pk_missing_sig"}
	unit := func(i int) []int { v := make([]int, 4); v[i-1] = 1; return v }
	for rep := 0; rep < n; rep++ {
		for cnt := 1; cnt <= nagg; cnt++ {
			for _, same := range []bool{false, true} {
				sks := make([]*tSK, 5)
				pks := make([]*tPK, 5)
				for t := 1; t <= 4; t++ {
					sks[t], pks[t] = newKey()
				}
				mbytes := map[int][]byte{}
				for id := 1; id <= 9; id++ {
					b := make([]byte, 8+rnd.IntN(24))
					io.ReadFull(prng, b)
					mbytes[id] = b
				}
				mid := func(t int) int {
					if same {
						return 1
					}
					return t
				}
				hsig := make([]*tSig, 5)
				for t := 1; t <= 4; t++ {
					hsig[t] = sign(sks[t], mbytes[mid(min(t, cnt))])
				}
				for _, lab := range labels {
					if (lab == "missing_sig" || lab == "missing_pk" || lab == "swap" || lab == "identity_pk_missing_sig") && cnt < 2 {
						continue
					}
					if strings.HasPrefix(lab, "pop_") && mode != "pop" {
						continue
					}
					if lab == "rogue" && cnt != 2 {
						continue
					}
					for i := 1; i <= cnt; i++ {
						if lab == "none" && i > 1 || lab == "rogue" && i > 1 || lab == "sig_neg" && i > 1 || lab == "pop_missing" && i > 1 {
							continue
						}
						j := i%cnt + 1
						var in interner
						type term struct {
							Key []int `json:"key"`
							Pm  int   `json:"pm"`
							C   int   `json:"c"`
						}
						// presented lists
						var ppk []*tPK
						var pvec [][]int
						var raw []int
						var torsF, popok []bool
						var ppops []*tPop
						for t := 1; t <= cnt; t++ {
							if lab == "missing_pk" && t == i {
								continue
							}
							k, vec, r, tf, pop, pok := pks[t], unit(t), mid(t), false, hsig[t].Pop(), true
							if t == i {
								switch lab {
								case "foreign_pk":
									k, vec, pop = pks[4], unit(4), hsig[4].Pop()
								case "identity_pk", "identity_pk_missing_sig":
									k, vec, pok = rawPK(kg.OpIdentity()), []int{0, 0, 0, 0}, false
								case "neg_pk":
									vec = unit(t)
									vec[t-1] = -1
									k, pok = rawPK(pks[t].Value().Neg()), false
								case "torsion_pk":
									k, tf, pok = rawPK(tors), true, false
								case "msgflip":
									r = 9
								case "swap":
									r = mid(j)
								case "pop_other":
									pop, pok = hsig[4].Pop(), false
								case "pop_wrongdst":
									pop, pok = mkPop(hx(dst, pks[t].Value().Bytes(), sks[t].Value())), false
								}
							}
							if lab == "swap" && t == j {
								r = mid(i)
							}
							if lab == "rogue" && t == 2 {
								vec = []int{-1, 0, 0, 1}
								k, pop, pok = rawPK(pks[4].Value().Sub(pks[1].Value())), hsig[4].Pop(), false
							}
							ppk, pvec, raw, torsF = append(ppk, k), append(pvec, vec), append(raw, r), append(torsF, tf)
							if mode == "pop" {
								ppops, popok = append(ppops, pop), append(popok, pok)
							}
						}
						if lab == "pop_missing" {
							ppops, popok = ppops[:len(ppops)-1], popok[:len(popok)-1]
						}
						// the aggregate signature and its form
						var parts []*tSig
						var terms []term
						var orcSum SG
						addTerm := func(s *tSig, vec []int, pm []byte, x S) {
							parts = append(parts, s)
							terms = append(terms, term{vec, in.id(pm), 1})
							h := hx(dst, pm, x)
							if len(parts) == 1 {
								orcSum = h
							} else {
								orcSum = orcSum.Add(h)
							}
						}
						if lab == "rogue" {
							pkA := ppk[1].Value()
							pm := processed(mbytes[mid(1)], pkA)
							addTerm(mkSig(hx(dst, pm, sks[4].Value()), nil), unit(4), pm, sks[4].Value())
						} else {
							for t := 1; t <= cnt; t++ {
								if (lab == "missing_sig" || lab == "identity_pk_missing_sig") && t == i {
									continue
								}
								if lab == "foreign_sig" && t == i {
									addTerm(sign(sks[4], mbytes[mid(t)]), unit(4), processed(mbytes[mid(t)], pks[4].Value()), sks[4].Value())
									continue
								}
								addTerm(hsig[t], unit(t), processed(mbytes[mid(t)], pks[t].Value()), sks[t].Value())
								if lab == "dup_sig" && t == i {
									addTerm(hsig[t], unit(t), processed(mbytes[mid(t)], pks[t].Value()), sks[t].Value())
								}
							}
						}
						// aggregate without proofs of possession (they travel separately)
						stripped := make([]*tSig, len(parts))
						for q, p := range parts {
							stripped[q] = mkSig(p.Value(), nil)
						}
						agg, err := bls.AggregateAll[PK, PKFE, SG, SGFE, E, S](stripped)
						must(err)
						aggEq := agg.Value().Equal(orcSum)
						if lab == "sig_neg" {
							agg = mkSig(agg.Value().Neg(), nil)
							for q := range terms {
								terms[q].C = -1
							}
						}
						var pmsIDs []int
						var rawMsgs [][]byte
						for q := range ppk {
							rawMsgs = append(rawMsgs, mbytes[raw[q]])
							pmsIDs = append(pmsIDs, in.id(processed(mbytes[raw[q]], ppk[q].Value())))
						}
						err = verifier(ppops...).AggregateVerify(agg, ppk, rawMsgs)
						if popok == nil {
							popok = []bool{}
						}
						// distinct raw message names for the uniqueness rule: identical bytes get identical names
						var rin interner
						rawIDs := make([]int, len(raw))
						for q := range raw {
							rawIDs[q] = rin.id(mbytes[raw[q]])
						}
						ev := map[string]any{"suite": name, "n": cnt, "same": same, "lab": lab, "i": i, "pks": pvec, "pms": pmsIDs, "raw": rawIDs,
							"sig": terms, "tors": torsF, "popok": popok, "acc": err == nil, "err": tr.ErrClass(err)}
						if lab != "sig_neg" {
							ev["aggEq"] = aggEq
						}
						emit("bagg", ev)
					}
				}
			}
		}
	}
	_ = bytes.Equal
}

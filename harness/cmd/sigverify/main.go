// sigverify drives the single-party signature schemes of pkg/signatures (C15): generic Schnorr on the toy
// group Z_q exhaustively (device X), and ECDSA / BIP-340 / generic Schnorr / Mina / BLS on the production
// curves (device T: alteration classes + independent-oracle booleans). It logs every call with its arguments
// (toy: discrete logs; production: how the presented triple relates to the signed one) and the real outcome.
// Nothing is judged here; the TLA+ trace specification SigVerifyTrace decides.
package main

import (
	"flag"
	"fmt"
	"os"
	"strings"

	"verif/harness/tr"
)

var (
	w    *tr.W
	kseq int
	seed uint64
	repo string
)

func emit(a string, ev map[string]any) {
	kseq++
	ev["a"] = a
	ev["k"] = fmt.Sprintf("%s#%d", a, kseq)
	w.Emit(ev)
}

// wanted: "" selects every suite, "prefix-" every suite with that prefix, anything else exactly one suite.
func wanted(name, only string) bool {
	if only == "" {
		return true
	}
	if strings.HasSuffix(only, "-") {
		return strings.HasPrefix(name, only)
	}
	return name == only
}

func must(err error) {
	if err != nil {
		panic(err)
	}
}

func main() {
	mode := flag.String("mode", "toy", "toy|ecdsa|schnorr|bls|vectors")
	out := flag.String("out", "trace.ndjson", "")
	q := flag.Uint64("q", 11, "toy modulus")
	n := flag.Int("n", 2, "honest signatures per suite (production modes)")
	cross := flag.Int("cross", 4, "toy: number of honest signatures whose full alteration cross product is run")
	nagg := flag.Int("nagg", 3, "bls: largest signer set")
	suite := flag.String("suite", "", "restrict to suites whose name contains this")
	flag.Uint64Var(&seed, "seed", 1, "")
	flag.StringVar(&repo, "repo", "/repo", "repository root (published vectors are read from it)")
	flag.Parse()
	w = tr.NewW(*out)
	defer w.Close()
	switch *mode {
	case "toy":
		runToy(*q, *cross)
	case "ecdsa":
		emit("hdr", map[string]any{"q": 11, "mode": "ecdsa"})
		runECDSA(*n, *suite)
	case "schnorr":
		emit("hdr", map[string]any{"q": 11, "mode": "schnorr"})
		runSchnorr(*n, *suite)
	case "bls":
		emit("hdr", map[string]any{"q": 11, "mode": "bls"})
		runBLS(*n, *nagg, *suite)
	case "vectors":
		emit("hdr", map[string]any{"q": 11, "mode": "vectors"})
		runVectors()
	default:
		fmt.Fprintln(os.Stderr, "unknown mode")
		os.Exit(2)
	}
}

package main

import (
	"crypto/sha256"
	"errors"
	"math/big"

	"github.com/bronlabs/bron-crypto/pkg/signatures"
	"github.com/bronlabs/bron-crypto/pkg/signatures/schnorrlike"
	vanilla "github.com/bronlabs/bron-crypto/pkg/signatures/schnorrlike/schnorr"

	"verif/harness/toy"
	"verif/harness/tr"
)

// script is an io.Reader that makes toy.Fq.SetRandom (16 bytes, little endian, reduced mod q) return the scripted values.
type script struct {
	vals []uint64
	buf  []byte
}

func newScript(vals ...uint64) *script {
	s := &script{vals: vals}
	for _, v := range vals {
		b := make([]byte, 16)
		for i := 0; i < 8; i++ {
			b[i] = byte(v >> (8 * i))
		}
		s.buf = append(s.buf, b...)
	}
	return s
}

func (s *script) Read(p []byte) (int, error) {
	if len(s.buf) == 0 {
		return 0, errors.New("script exhausted")
	}
	n := copy(p, s.buf)
	s.buf = s.buf[n:]
	return n, nil
}

type tPK = schnorrlike.PublicKey[*toy.Elem, *toy.Scalar]
type tSK = schnorrlike.PrivateKey[*toy.Elem, *toy.Scalar]
type tSig = schnorrlike.Signature[*toy.Elem, *toy.Scalar]

var (
	tq    uint64
	tnm   = 3
	tmsgs [][]byte
)

// rawPK builds a public key without the constructor's checks (the struct is public), so that the verifier's own
// identity check is reached.
func rawPK(log uint64) *tPK {
	return &tPK{PublicKeyTrait: signatures.PublicKeyTrait[*toy.Elem, *toy.Scalar]{V: toy.FromLog(log)}}
}

func rawSig(R, s uint64, E int64) *tSig {
	sig := &tSig{R: toy.FromLog(R), S: toy.FromInt(s)}
	if E >= 0 {
		sig.E = toy.FromInt(uint64(E))
	}
	return sig
}

func tok(R, pk uint64, m int) uint64 { return (R*tq+pk)*uint64(tnm) + uint64(m) }

// hashTable is the harness's own evaluation of the documented challenge H(R || P || m) = SHA-256 read as a
// big-endian integer mod q (independent of schnorrlike.MakeGenericChallenge).
func hashTable() []uint64 {
	tab := make([]uint64, tq*tq*uint64(tnm))
	Q := new(big.Int).SetUint64(tq)
	for R := uint64(0); R < tq; R++ {
		for pk := uint64(0); pk < tq; pk++ {
			for m := 0; m < tnm; m++ {
				h := sha256.New()
				h.Write(toy.FromLog(R).Bytes())
				h.Write(toy.FromLog(pk).Bytes())
				h.Write(tmsgs[m])
				d := new(big.Int).SetBytes(h.Sum(nil))
				tab[tok(R, pk, m)] = d.Mod(d, Q).Uint64()
			}
		}
	}
	return tab
}

func tScheme(neg bool, rd *script) *vanilla.Scheme[*toy.Elem, *toy.Scalar] {
	sch, err := vanilla.NewScheme[*toy.Elem, *toy.Scalar](toy.NewGroup(), sha256.New, neg, false, nil, rd)
	must(err)
	return sch
}

func tVerify(neg bool, R, s, pk uint64, m int, E int64, ctx map[string]any) {
	vf, err := tScheme(neg, newScript(1)).Verifier()
	must(err)
	err = vf.Verify(rawSig(R, s, E), rawPK(pk), tmsgs[m])
	ev := map[string]any{"neg": neg, "R": R, "s": s, "pk": pk, "m": m, "E": E, "acc": err == nil, "err": tr.ErrClass(err)}
	for k, v := range ctx {
		ev[k] = v
	}
	emit("tverify", ev)
}

// tPartial runs the partial-signature verifier (challenge key fixed, cached challenge used when present).
func tPartial(neg bool, cpk, R, s, pk uint64, m int, E int64) {
	vf, err := tScheme(neg, newScript(1)).PartialSignatureVerifier(rawPK(cpk))
	must(err)
	err = vf.Verify(rawSig(R, s, E), rawPK(pk), tmsgs[m])
	emit("tpverify", map[string]any{"neg": neg, "cpk": cpk, "R": R, "s": s, "pk": pk, "m": m, "E": E, "acc": err == nil, "err": tr.ErrClass(err)})
}

func runToy(q uint64, cross int) {
	toy.Setup(q)
	tq = q
	for i := 0; i < tnm; i++ {
		tmsgs = append(tmsgs, []byte{'m', 's', 'g', byte(i)})
	}
	emit("hdr", map[string]any{"q": q, "nm": tnm, "mode": "toy", "H": hashTable()})
	rnd := tr.PRand(seed, 15)
	crossLeft := cross
	for _, neg := range []bool{false, true} {
		// constructors
		for v := uint64(0); v < q; v++ {
			_, err := vanilla.NewPublicKey[*toy.Elem, *toy.Scalar](toy.FromLog(v))
			emit("tnewpk", map[string]any{"pk": v, "ok": err == nil})
			_, err = schnorrlike.NewSignature[*toy.Elem, *toy.Scalar](toy.FromInt(1), toy.FromLog(1), toy.FromInt(v))
			emit("tnewsig", map[string]any{"s": v, "ok": err == nil})
		}
		for x := uint64(1); x < q; x++ {
			kscript := []uint64{x}
			if x%3 == 0 {
				kscript = []uint64{0, 0, x} // zero draws are retried
			}
			kg, err := tScheme(neg, newScript(1)).Keygen()
			must(err)
			sk, pk, err := kg.Generate(newScript(kscript...))
			ev := map[string]any{"script": kscript, "ok": err == nil}
			if err == nil {
				ev["x"] = sk.Value().Int()
				ev["pk"] = pk.Value().Log()
			}
			emit("tkeygen", ev)
			if err != nil {
				continue
			}
			for k := uint64(1); k < q; k++ {
				for m := 0; m < tnm; m++ {
					nscript := []uint64{k}
					if (k+uint64(m))%4 == 0 {
						nscript = []uint64{0, k}
					}
					sch := tScheme(neg, newScript(nscript...))
					sg, err := sch.Signer(sk)
					must(err)
					sig, err := sg.Sign(tmsgs[m])
					ev := map[string]any{"neg": neg, "x": x, "script": nscript, "m": m, "ok": err == nil, "err": tr.ErrClass(err)}
					if err == nil {
						ev["R"] = sig.R.Log()
						ev["s"] = sig.S.Int()
						ev["E"] = sig.E.Int()
					}
					emit("tsign", ev)
					var R, s uint64
					var E int64
					if err == nil {
						R, s, E = sig.R.Log(), sig.S.Int(), int64(sig.E.Int())
					} else {
						R, s, E = k, 0, -1 // the signer refused (s = 0); the would-be triple must be rejected too
					}
					ctx := map[string]any{"x": x, "k": k, "m0": m}
					tVerify(neg, R, s, x, m, E, ctx) // the triple as signed
					// every single-component alteration, every value
					for v := uint64(0); v < q; v++ {
						if v != R {
							tVerify(neg, v, s, x, m, E, ctx)
						}
						if v != s {
							tVerify(neg, R, v, x, m, E, ctx)
						}
						if v != x {
							tVerify(neg, R, s, v, m, E, ctx)
						}
						if int64(v) != E {
							tVerify(neg, R, s, x, m, int64(v), ctx)
						}
					}
					tVerify(neg, R, s, x, m, -1, ctx) // cached challenge absent
					for m2 := 0; m2 < tnm; m2++ {
						if m2 != m {
							tVerify(neg, R, s, x, m2, E, ctx)
						}
					}
					// partial-signature verifier: challenge bound to another key, cached challenge trusted
					cpk := 1 + rnd.Uint64N(q-1)
					tPartial(neg, cpk, R, s, x, m, E)
					tPartial(neg, cpk, R, s, x, m, -1)
					tPartial(neg, x, R, s, x, m, int64(rnd.Uint64N(q)))
					// full cross product of alterations for a few honest signatures
					if err == nil && crossLeft > 0 && rnd.IntN(40) == 0 {
						crossLeft--
						for R2 := uint64(0); R2 < q; R2++ {
							for s2 := uint64(0); s2 < q; s2++ {
								for p2 := uint64(0); p2 < q; p2++ {
									for m2 := 0; m2 < tnm; m2++ {
										tVerify(neg, R2, s2, p2, m2, E, ctx)
									}
								}
							}
						}
					}
				}
			}
		}
		// batch verification (sequential in the generic trait)
		for i := 0; i < 60; i++ {
			n := 1 + rnd.IntN(3)
			items := []map[string]any{}
			sigs := []*tSig{}
			pks := []*tPK{}
			msgs := [][]byte{}
			tab := hashTable()
			for j := 0; j < n; j++ {
				x, k, m := 1+rnd.Uint64N(q-1), 1+rnd.Uint64N(q-1), rnd.IntN(tnm)
				e := tab[tok(k, x, m)]
				s := (k + e*x) % q
				if neg {
					s = (k + q*q - e*x) % q
				}
				if rnd.IntN(4) == 0 {
					s = rnd.Uint64N(q)
				}
				items = append(items, map[string]any{"R": k, "s": s, "pk": x, "m": m})
				sigs = append(sigs, rawSig(k, s, -1))
				pks = append(pks, rawPK(x))
				msgs = append(msgs, tmsgs[m])
			}
			vf, err := tScheme(neg, newScript(1)).Verifier()
			must(err)
			err = vf.BatchVerify(sigs, pks, msgs)
			emit("tbatch", map[string]any{"neg": neg, "items": items, "acc": err == nil})
		}
	}
}

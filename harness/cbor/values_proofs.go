package cbor

// Sigma protocols (statement / witness / commitment / state / response produced by the real
// provers), the non-interactive compilers (Fiat-Shamir / zkmodule, Fischlin, randomised
// Fischlin) and -- second half of the file, group "zkp" -- the Paillier / ring-Pedersen / CGGMP21
// zero-knowledge proofs. Set PRF_TIMING=1 to get per-protocol timings on stderr, PRF_ZKP_FULL=1 to
// include the three slow protocols (affgstar, dec, lpdl).

import (
	"bytes"
	"encoding/hex"
	"errors"
	"fmt"
	"io"
	"math/big"
	"os"
	"time"

	"github.com/bronlabs/bron-crypto/pkg/base"
	"github.com/bronlabs/bron-crypto/pkg/base/algebra"
	"github.com/bronlabs/bron-crypto/pkg/base/curves/edwards25519"
	"github.com/bronlabs/bron-crypto/pkg/base/curves/k256"
	"github.com/bronlabs/bron-crypto/pkg/base/nt/modular"
	"github.com/bronlabs/bron-crypto/pkg/base/nt/num"
	"github.com/bronlabs/bron-crypto/pkg/base/nt/znstar"
	"github.com/bronlabs/bron-crypto/pkg/base/serde"
	"github.com/bronlabs/bron-crypto/pkg/base/utils"
	"github.com/bronlabs/bron-crypto/pkg/commitments/indcpacom"
	"github.com/bronlabs/bron-crypto/pkg/commitments/intcom"
	"github.com/bronlabs/bron-crypto/pkg/encryption"
	"github.com/bronlabs/bron-crypto/pkg/encryption/elgamal"
	"github.com/bronlabs/bron-crypto/pkg/encryption/paillier"
	"github.com/bronlabs/bron-crypto/pkg/mpc/session"
	"github.com/bronlabs/bron-crypto/pkg/mpc/sharing"
	"github.com/bronlabs/bron-crypto/pkg/proofs/cggmp21/affg"
	"github.com/bronlabs/bron-crypto/pkg/proofs/cggmp21/affgstar"
	"github.com/bronlabs/bron-crypto/pkg/proofs/cggmp21/blummod"
	"github.com/bronlabs/bron-crypto/pkg/proofs/cggmp21/dec"
	"github.com/bronlabs/bron-crypto/pkg/proofs/cggmp21/enc"
	"github.com/bronlabs/bron-crypto/pkg/proofs/cggmp21/encelg"
	"github.com/bronlabs/bron-crypto/pkg/proofs/cggmp21/fac"
	"github.com/bronlabs/bron-crypto/pkg/proofs/dlog/batch_schnorr"
	"github.com/bronlabs/bron-crypto/pkg/proofs/dlog/schnorr"
	"github.com/bronlabs/bron-crypto/pkg/proofs/elgamal/elcomop"
	"github.com/bronlabs/bron-crypto/pkg/proofs/elgamal/elog"
	"github.com/bronlabs/bron-crypto/pkg/proofs/okamoto"
	"github.com/bronlabs/bron-crypto/pkg/proofs/paillier/lp"
	"github.com/bronlabs/bron-crypto/pkg/proofs/paillier/lpdl"
	"github.com/bronlabs/bron-crypto/pkg/proofs/paillier/nthroot"
	"github.com/bronlabs/bron-crypto/pkg/proofs/paillier/pailliern"
	paillierrange "github.com/bronlabs/bron-crypto/pkg/proofs/paillier/range"
	"github.com/bronlabs/bron-crypto/pkg/proofs/prm"
	"github.com/bronlabs/bron-crypto/pkg/proofs/sigma"
	"github.com/bronlabs/bron-crypto/pkg/proofs/sigma/compiler"
	"github.com/bronlabs/bron-crypto/pkg/proofs/sigma/compiler/fiatshamir"
	"github.com/bronlabs/bron-crypto/pkg/proofs/sigma/compiler/fiatshamir/zkmodule"
	"github.com/bronlabs/bron-crypto/pkg/proofs/sigma/compiler/fischlin"
	"github.com/bronlabs/bron-crypto/pkg/proofs/sigma/compiler/randfischlin"

	"verif/harness/tr"
)

// prfVerifyInValid: while values are captured the closures below also run the verifier (sanity of the capture);
// during the campaign the validity predicate of a proof type is what its decoder can enforce (presence, dimensions).
var prfVerifyInValid = true

func init() {
	group("sigma", captureSigma)
	group("zkp", captureZkp)
	group("zkp2", captureZkp2)
}

// ---- generic helpers (prefix prf) ----

// prfRun drives one honest execution of a sigma protocol: validate, commit, random challenge,
// respond, verify.
func prfRun[X sigma.Statement, W sigma.Witness, A sigma.Commitment, S sigma.State, Z sigma.Response](
	p sigma.Protocol[X, W, A, S, Z], x X, w W, rng io.Reader,
) (A, S, Z, sigma.ChallengeBytes) {
	t0 := time.Now()
	must0(p.ValidateStatement(x, w))
	t1 := time.Now()
	a, s := must2(p.ComputeProverCommitment(x, w))
	t2 := time.Now()
	e := make([]byte, p.GetChallengeBytesLength())
	if _, err := io.ReadFull(rng, e); err != nil {
		panic(err)
	}
	z := must(p.ComputeProverResponse(x, w, a, s, e))
	t3 := time.Now()
	must0(p.Verify(x, a, e, z))
	if os.Getenv("PRF_TIMING") != "" {
		fmt.Fprintf(os.Stderr, "[run] %.30s validate %.2f commit %.2f respond %.2f verify %.2f\n", p.Name(), t1.Sub(t0).Seconds(), t2.Sub(t1).Seconds(), t3.Sub(t2).Seconds(), time.Since(t3).Seconds())
	}
	return a, s, z, e
}

// prfNoPanic evaluates f and turns a panic (nil component dereference) into an error.
func prfNoPanic(what string, f func()) (err error) {
	defer func() {
		if r := recover(); r != nil {
			err = fmt.Errorf("%s panicked: %v", what, r)
		}
	}()
	f()
	return nil
}

type prfBytes interface{ Bytes() []byte }

// prfEqBytes compares the transcript encodings (types without an Equal method of their own).
// Objects with absent components (accepted by decoders without validation) make Bytes() panic:
// two such objects compare equal iff both are in that state (the validity predicate reports them).
func prfEqBytes[T prfBytes](a, b T) bool {
	var ba, bb []byte
	ea := prfNoPanic("Bytes()", func() { ba = a.Bytes() })
	eb := prfNoPanic("Bytes()", func() { bb = b.Bytes() })
	if ea != nil || eb != nil {
		return ea != nil && eb != nil
	}
	return bytes.Equal(ba, bb)
}

// prfEqSafe wraps a component-wise comparison in the same way.
func prfEqSafe[T any](f func(a, b T) bool) func(a, b T) bool {
	return func(a, b T) bool {
		var r bool
		if err := prfNoPanic("Equal", func() { r = f(a, b) }); err != nil {
			var ra, rb bool
			ea := prfNoPanic("Equal", func() { ra = f(a, a) })
			eb := prfNoPanic("Equal", func() { rb = f(b, b) })
			_, _ = ra, rb
			return ea != nil && eb != nil
		}
		return r
	}
}

// prfValidBytes: every component the constructor demands to be non-nil is dereferenced by Bytes().
func prfValidBytes[T prfBytes](v T) error {
	if utils.IsNil(v) {
		return errors.New("nil")
	}
	return prfNoPanic("Bytes()", func() { _ = v.Bytes() })
}

// prfValued is the shape of the five maurer09 message types (Value() returns the group element).
type prfValued[V any] interface {
	Value() V
	Bytes() []byte
}

type prfEqualer[V any] interface{ Equal(V) bool }

// prfAddV captures a maurer09-style wrapper of one group element. Validity = what UnmarshalCBOR
// (the only validating constructor of these types) enforces: the element is present.
func prfAddV[T prfValued[V], V prfEqualer[V]](typ, name string, v T, extra func(T) error) {
	add(typ, name, v,
		func(a, b T) bool { return a.Value().Equal(b.Value()) },
		func(x T) error {
			if utils.IsNil(x) {
				return errors.New("nil")
			}
			if utils.IsNil(x.Value()) {
				return errors.New("group element is nil")
			}
			if extra != nil {
				return extra(x)
			}
			return nil
		})
}

// prfCtxs builds the session contexts of a prover (id 1) and a verifier (id 2) with a common seed.
func prfCtxs(stream uint64) (prover, verifier *session.Context) {
	rng := tr.Rng(seed, stream)
	common := make([]byte, 64)
	pair := make([]byte, 64)
	if _, err := io.ReadFull(rng, common); err != nil {
		panic(err)
	}
	if _, err := io.ReadFull(rng, pair); err != nil {
		panic(err)
	}
	q := idset(1, 2)
	prover = must(session.NewContext(1, q, common, map[sharing.ID][]byte{2: pair}))
	verifier = must(session.NewContext(2, q, common, map[sharing.ID][]byte{1: pair}))
	return prover, verifier
}

// ---- Schnorr on any prime group + the three compilers ----

func prfSchnorr[G algebra.PrimeGroupElement[G, S], S algebra.PrimeFieldElement[S]](cn, pn string, grp algebra.PrimeGroup[G, S], compilers bool, stream uint64) {
	rng := tr.Rng(seed, stream)
	field := algebra.StructureMustBeAs[algebra.PrimeField[S]](grp.ScalarStructure())
	g := grp.Generator()
	proto := must(schnorr.NewProtocol(g, rng))
	var stmts []*schnorr.Statement[G, S]
	var wits []*schnorr.Witness[S]
	for i := 0; i < 2; i++ {
		wv := must(field.Random(rng))
		w := schnorr.NewWitness(wv)
		x := schnorr.NewStatement[G, S](g.ScalarOp(wv))
		a, s, z, _ := prfRun(proto, x, w, rng)
		n := fmt.Sprintf("schnorr%d", i)
		prfAddV("maurer09.Statement["+cn+"."+pn+"]", n, x, nil)
		prfAddV("maurer09.Witness["+cn+".Scalar]", n, w, nil)
		prfAddV("maurer09.Commitment["+cn+"."+pn+"]", n, a, nil)
		prfAddV("maurer09.State["+cn+".Scalar]", n, s, nil)
		prfAddV("maurer09.Response["+cn+".Scalar]", n, z, nil)
		stmts = append(stmts, x)
		wits = append(wits, w)
	}
	if !compilers {
		return
	}

	type AT = *schnorr.Commitment[G, S]
	type ZT = *schnorr.Response[S]

	// the generic entry point compiler.Compile, for the three compiler names
	for ci, cname := range []compiler.Name{fiatshamir.Name, fischlin.Name, randfischlin.Name} {
		ni := must(compiler.Compile(cname, proto, rng))
		for i := range stmts {
			pctx, vctx := prfCtxs(stream + 10 + uint64(ci)*2 + uint64(i))
			prover := must(ni.NewProver(pctx))
			proof := must(prover.Prove(stmts[i], wits[i]))
			x := stmts[i]
			verify := func(p compiler.NIZKPoKProof) error {
				v, err := ni.NewVerifier(vctx.Clone())
				if err != nil {
					return err
				}
				if !prfVerifyInValid {
					return nil // a decoder does not verify proofs: only the structural rules above are its validity predicate
				}
				return v.Verify(x, p)
			}
			must0(verify(proof))
			add("compiler.NIZKPoKProof", fmt.Sprintf("%s-%s-%d", cname, cn, i), proof,
				func(a, b compiler.NIZKPoKProof) bool { return bytes.Equal(a, b) }, verify)

			// the inner structure, as the verifier of the compiler decodes it
			switch cname {
			case fiatshamir.Name:
				inner, err := serde.UnmarshalCBOR[*zkmodule.Proof[AT, ZT]](proof)
				must0(err)
				add("zkmodule.Proof[schnorr,"+cn+"]", fmt.Sprint(i), inner, nil, func(p *zkmodule.Proof[AT, ZT]) error {
					if p == nil || utils.IsNil(p.Commitment()) || utils.IsNil(p.Response()) || len(p.Challenge()) == 0 {
						return errors.New("nil / empty component")
					}
					if utils.IsNil(p.Commitment().Value()) || utils.IsNil(p.Response().Value()) {
						return errors.New("nil group element")
					}
					// zkmodule.Verify takes the structure itself; the domain separator is the one of fiatshamir.NewVerifier
					c := vctx.Clone()
					if _, err := ni.NewVerifier(c); err != nil {
						return err
					}
					if !prfVerifyInValid {
						return nil // a decoder does not verify proofs: only the structural rules above are its validity predicate
					}
					return zkmodule.Verify(c, proto, x, p)
				})
			case fischlin.Name:
				inner, err := serde.UnmarshalCBOR[*fischlin.Proof[AT, ZT]](proof)
				must0(err)
				add("fischlin.Proof[schnorr,"+cn+"]", fmt.Sprint(i), inner, nil, func(p *fischlin.Proof[AT, ZT]) error {
					if p == nil {
						return errors.New("nil")
					}
					if err := prfValidAEZ(p.A, p.E, p.Z, 0); err != nil {
						return err
					}
					return verify(must(serde.MarshalCBOR(p)))
				})
			case randfischlin.Name:
				inner, err := serde.UnmarshalCBOR[*randfischlin.Proof[AT, ZT]](proof)
				must0(err)
				add("randfischlin.Proof[schnorr,"+cn+"]", fmt.Sprint(i), inner, nil, func(p *randfischlin.Proof[AT, ZT]) error {
					if p == nil {
						return errors.New("nil")
					}
					if err := prfValidAEZ(p.A, p.E, p.Z, randfischlin.R); err != nil {
						return err
					}
					return verify(must(serde.MarshalCBOR(p)))
				})
			}
		}
	}
}

// prfValidAEZ: the dimension / presence rules of the (rand)fischlin proof decoders.
func prfValidAEZ[A prfValued[AV], Z prfValued[ZV], AV, ZV any](a []A, e [][]byte, z []Z, r int) error {
	if len(a) == 0 || len(a) != len(e) || len(a) != len(z) {
		return errors.New("invalid proof dimensions")
	}
	if r != 0 && len(a) != r {
		return fmt.Errorf("%d repetitions, want %d", len(a), r)
	}
	for i := range a {
		if utils.IsNil(a[i]) || utils.IsNil(z[i]) || len(e[i]) == 0 {
			return fmt.Errorf("invalid element at index %d", i)
		}
		if utils.IsNil(a[i].Value()) || utils.IsNil(z[i].Value()) {
			return fmt.Errorf("nil group element at index %d", i)
		}
	}
	return nil
}

// ---- the group ----

func captureSigma() {
	curve := k256.NewCurve()
	sf := k256.NewScalarField()
	type P = *k256.Point
	type S = *k256.Scalar

	prfSchnorr("k256", "Point", curve, true, 200)
	prfSchnorr("edwards25519", "PrimeSubGroupPoint", edwards25519.NewPrimeSubGroup(), false, 201)

	// batch Schnorr
	{
		rng := tr.Rng(seed, 202)
		for _, k := range []int{2, 3} {
			proto := must(batch_schnorr.NewProtocol(k, curve, rng))
			g := curve.Generator()
			var ws []S
			var xs []P
			for i := 0; i < k; i++ {
				w := must(sf.Random(rng))
				ws = append(ws, w)
				xs = append(xs, g.ScalarOp(w))
			}
			x := batch_schnorr.NewStatement(g, xs...)
			w := batch_schnorr.NewWitness(ws...)
			a, s, z, _ := prfRun(proto, x, w, rng)
			n := fmt.Sprintf("k%d", k)
			add("batch_schnorr.Statement[k256]", n, x, prfEqBytes, func(x *batch_schnorr.Statement[P, S]) error {
				if x == nil || x.Gen == nil {
					return errors.New("nil")
				}
				for _, e := range x.Xs {
					if e == nil {
						return errors.New("nil element")
					}
				}
				return nil
			})
			add("batch_schnorr.Witness[k256]", n, w, prfEqBytes, func(w *batch_schnorr.Witness[S]) error {
				if w == nil {
					return errors.New("nil")
				}
				for _, e := range w.Ws {
					if e == nil {
						return errors.New("nil element")
					}
				}
				return nil
			})
			add("batch_schnorr.Commitment[k256]", n, a, prfEqBytes, func(a *batch_schnorr.Commitment[P, S]) error {
				if a == nil || a.A == nil {
					return errors.New("nil")
				}
				return nil
			})
			add("batch_schnorr.State[k256]", n, s, prfEqSafe(func(a, b *batch_schnorr.State[S]) bool { return a.S.Equal(b.S) }), func(s *batch_schnorr.State[S]) error {
				if s == nil || s.S == nil {
					return errors.New("nil")
				}
				return nil
			})
			add("batch_schnorr.Response[k256]", n, z, prfEqBytes, func(z *batch_schnorr.Response[S]) error {
				if z == nil || z.Z == nil {
					return errors.New("nil")
				}
				return nil
			})
		}
	}

	// Okamoto (representation) with 2 and 3 generators
	{
		rng := tr.Rng(seed, 203)
		for _, m := range []int{2, 3} {
			var gens []P
			var ws []S
			acc := curve.OpIdentity()
			for i := 0; i < m; i++ {
				g := must(curve.Random(rng))
				w := must(sf.Random(rng))
				gens = append(gens, g)
				ws = append(ws, w)
				acc = acc.Op(g.ScalarOp(w))
			}
			proto := must(okamoto.NewProtocol(gens, rng))
			x := must(okamoto.NewStatement[P, S](acc))
			w := must(okamoto.NewWitness(ws...))
			a, s, z, _ := prfRun(proto, x, w, rng)
			n := fmt.Sprintf("okamoto%d", m)
			prfAddV("maurer09.Statement[k256.Point]", n, x, func(x *okamoto.Statement[P, S]) error {
				_, err := okamoto.NewStatement[P, S](x.Value())
				return err
			})
			prfAddV("maurer09.Commitment[k256.Point]", n, a, nil)
			vw := func(c []S) error {
				_, err := okamoto.NewWitness(c...)
				return err
			}
			prfAddV("maurer09.Witness[DirectPowerRing[k256.Scalar]]", n, w, func(w *okamoto.Witness[S]) error { return vw(w.Value().Components()) })
			prfAddV("maurer09.State[DirectPowerRing[k256.Scalar]]", n, s, func(w *okamoto.State[S]) error { return vw(w.Value().Components()) })
			prfAddV("maurer09.Response[DirectPowerRing[k256.Scalar]]", n, z, func(w *okamoto.Response[S]) error { return vw(w.Value().Components()) })
		}
	}

	// elcomop (opening of an ElGamal commitment) and elog (AND composition with Schnorr)
	{
		rng := tr.Rng(seed, 204)
		for i := 0; i < 2; i++ {
			sk := must(elgamal.SampleSecretKey(curve, rng))
			comKey := must(indcpacom.NewCommitmentKey(sk.Public()))
			h := must(curve.Random(rng))
			g := curve.Generator()
			y := must(sf.Random(rng))
			lambda := must(sf.Random(rng))

			nonce := must(elgamal.NewNonce(lambda))
			cw := must(indcpacom.NewWitness(nonce))
			msg := must(indcpacom.NewMessage(must(elgamal.NewPlaintext(g.ScalarOp(y)))))
			com := must(comKey.CommitWithWitness(msg, cw))

			w1 := must(elcomop.NewWitness(msg, cw))
			x1 := must(elcomop.NewStatement(com))
			p1 := must(elcomop.NewProtocol(curve, comKey, rng))
			a1, s1, z1, _ := prfRun(p1, x1, w1, rng)
			n := fmt.Sprintf("elcomop%d", i)
			vImg := func(v interface{ Components() []P }) error {
				c := v.Components()
				if len(c) != 2 || c[0] == nil || c[1] == nil {
					return errors.New("image element must have two non-nil components")
				}
				return nil
			}
			vPre := func(v interface{ Components() (P, S) }) error {
				m, l := v.Components()
				if m == nil || l == nil {
					return errors.New("nil component")
				}
				return nil
			}
			prfAddV("maurer09.Statement[DirectPowerModule[k256.Point]]", n, x1, func(x *elcomop.Statement[P, S]) error { return vImg(x.Value()) })
			prfAddV("maurer09.Commitment[DirectPowerModule[k256.Point]]", n, a1, func(x *elcomop.Commitment[P, S]) error { return vImg(x.Value()) })
			prfAddV("maurer09.Witness[DirectProductGroup[k256.Point,k256.Scalar]]", n, w1, func(x *elcomop.Witness[P, S]) error { return vPre(x.Value()) })
			prfAddV("maurer09.State[DirectProductGroup[k256.Point,k256.Scalar]]", n, s1, func(x *elcomop.State[P, S]) error { return vPre(x.Value()) })
			prfAddV("maurer09.Response[DirectProductGroup[k256.Point,k256.Scalar]]", n, z1, func(x *elcomop.Response[P, S]) error { return vPre(x.Value()) })

			w2 := schnorr.NewWitness(y)
			x2 := schnorr.NewStatement[P, S](h.ScalarOp(y))
			w := must(elog.NewWitness(w1, w2))
			x := must(elog.NewStatement(x1, x2))
			p := must(elog.NewProtocol(curve, comKey, h, rng))
			a, s, z, _ := prfRun(p, x, w, rng)
			n = fmt.Sprintf("elog%d", i)
			add("sigand.StatementCartesian[elcomop,schnorr,k256]", n, x, prfEqBytes, func(x *elog.Statement[P, S]) error {
				if x == nil {
					return errors.New("nil")
				}
				if _, err := elog.NewStatement(x.X0, x.X1); err != nil {
					return err
				}
				return prfValidBytes(x)
			})
			add("sigand.WitnessCartesian[elcomop,schnorr,k256]", n, w,
				prfEqSafe(func(a, b *elog.Witness[P, S]) bool {
					return a.W0.Value().Equal(b.W0.Value()) && a.W1.Value().Equal(b.W1.Value())
				}),
				func(w *elog.Witness[P, S]) error {
					if w == nil || w.W0 == nil || w.W1 == nil || w.W0.Value() == nil || w.W1.Value() == nil {
						return errors.New("nil")
					}
					_, err := elog.NewWitness(w.W0, w.W1)
					return err
				})
			add("sigand.CommitmentCartesian[elcomop,schnorr,k256]", n, a, prfEqBytes, func(a *elog.Commitment[P, S]) error {
				if a == nil || a.A0 == nil || a.A1 == nil {
					return errors.New("nil")
				}
				return prfValidBytes(a)
			})
			add("sigand.StateCartesian[elcomop,schnorr,k256]", n, s,
				prfEqSafe(func(a, b *elog.State[P, S]) bool {
					return a.S0.Value().Equal(b.S0.Value()) && a.S1.Value().Equal(b.S1.Value())
				}),
				func(s *elog.State[P, S]) error {
					if s == nil || s.S0 == nil || s.S1 == nil || s.S0.Value() == nil || s.S1.Value() == nil {
						return errors.New("nil")
					}
					return nil
				})
			add("sigand.ResponseCartesian[elcomop,schnorr,k256]", n, z, prfEqBytes, func(z *elog.Response[P, S]) error {
				if z == nil || z.Z0 == nil || z.Z1 == nil {
					return errors.New("nil")
				}
				return prfValidBytes(z)
			})
		}
	}
}

// ======================================================================================
// group "zkp": Paillier / ring-Pedersen / CGGMP21 zero-knowledge proofs
// ======================================================================================

// Primes generated once with a scratch program (crypto/rand; Miller-Rabin 20 rounds + Baillie-PSW):
// prfBlum*: 1536-bit Blum primes (p = 3 mod 4) -> two 3072-bit Paillier-Blum moduli (the library's
// floor for Paillier keys in a non-test binary is 3072 bits);
// prfSafe1536*: 1536-bit safe primes -> a 3072-bit ring-Pedersen modulus (floor of affg / encelg);
// prfSafe512*: 512-bit safe primes -> a 1024-bit ring-Pedersen modulus (protocols without a floor).
const (
	prfBlumA1    = "d32c7502fc63849ad053acec4d8d31dfc0293158e4810c928c6fcb36c8fe8f6d4a02bc9c5d5cda0344edfc8c2a8e7e5529f0714e8ac9a1ad1317d8272e2c7d8f73a2160bbc2986cc9bef3496e528137ed411ddade3e5be9f9717da03fe2212c9ffc502672cfd0d109c728521ffbabb5fd27400910c691fa3f3f81c09bbd12bc095bb22b49d56efa93cee41fdb0ca9b100312f955e990f6a1221d4fd27bdf8544f08b854bdb7333f43bd6173f278e9a31588cbcb279424825b25d143448503663"
	prfBlumA2    = "cb03aca68789f091f95a6bb03e80102659285628d313bc59f01fd59abe54876e4161ea8ec88b7d16261368dd4f94f8564a1b4292bb9da2e82046932daa6061be9c9da6f575819fb6a7ab2baccf2e297842db5404837044458af477cc6aa44593e0845990150a49965f88d55594c1ba5bec1b6117bfa18d5cfd5eabc4a72d546a6f925712166dda550e6656ab84d35c6fb1686746437bacd3abd45c360e8c615a5dfbcc5ea07d0fa160a87072c4ab730666e7a03cb7fd5aedb7aef7ec1277c0cf"
	prfBlumB1    = "d7d0d5d1e7399dbebb6b0f9374cc51586fc434f231d03e0e5bda3917a71d87d6d1fceb26a637b969ac67b57557a125e2cb680e611c4336f7da0ee43453450d2883e5f6714920eb7df97492c04337cab16a2202578ce9e4b1a97bb6f8c2c561a1d56e4994837b9e3c64c311ed2870803696891b9de5fbccf92dcdeb70b62e1578670a3f5351242eb4454950b556479cde00081140a336d8415d9bb751ac134317c15188000105d03ae55353d28e7dd08735982d7401abbd2f214b4b971a2d7817"
	prfBlumB2    = "e7ec90fb09a6932228a94eb09c7851cb89b3be502349e8ce5777f6266a1ce229707f3edfc8288609c6565af85dffbb99664bfde06865cf2f7f4169e77ba8d4575413b2b825aaf16dd76fbf952944b382280933455a37aac19fb4da292016fe117ed941af50406957c27a5657583dd6e27e7f9a80c346a675dfdff8a9cef255447c1f495a5e29bd506eec32961cb5b79534ca27ed804dbbabfb2b053d96314c2c31c3b3f4f29c045aa9baf7d6b33ec25525a90f4bc5b0d1ef8c77244f421422a3"
	prfSafe1536P = "da565edca7482e38ae4cc40ae3f4c7b87e915c98126ec1152dc16aac015d3f6c7e225ffe598dd1227fbe3899396134330db1d2234db76f7a154e4c70482708142f170873016cdadabcdfdb1d6e8942403cdd68cf08a4f98a418fb1caa24e1b8404dc0225ed8519de6be481547cd3ec3969261c1ca1ee3608375a0f86a3db8c90a1cf8ed1160046eff3391ef637ad4ea894e357fec126ff725aa1fa795efee1ff62ea38aecbc0312e3fc0ad8e83726c704eb44857f57865619ef7fddca41ecd77"
	prfSafe1536Q = "c5a4ce51244c4bff9e2665ac9a1e25e2dcbc71f0a8e7ee074e756dd42bcbb4f94f02c4ff987e97f4a6f85374b5387d911e99c9c7cf693d178990d17055700768b68bd1068dc29b41f14816e4ce06646cb51b47346558e8a477444f571378d46ea10e0ce01552b9b4e9d08cd6f052af5deadbc385b6168204b84ce345e650e59215992a5dd747a099a290fd62714ffb8a1476a2ec03586c27332dcdea3863bc8d5c7687c32ed77b0bbd4d95802e2622fc976c226f93d92e2c2b96799cdd5c591b"
	prfSafe512P  = "ea0d46757eaa84bdf77503b0e90eab781ad6a8e1e296960b23b608b071ccf8d641eece12a5a614b056c247b91a51749a9659d147ba15e3d928d5eaf25f89a1f3"
	prfSafe512Q  = "f50fafefadb29b70d62f034b8d5fa5fc02852569a5d033cbb14a273cf00b9464b51a5c8ffd02932c918a2d9167c82f4a961b9cc98ae214b9c9390c02c91804a3"
)

func prfPrime(h string) *num.NatPlus {
	return must(num.NPlus().FromBytesBE(must(hex.DecodeString(h))))
}

// prfTrapdoor builds a ring-Pedersen trapdoor key over the safe-prime RSA group of (p, q) through the
// public constructor (the generator t and the trapdoor lambda are sampled as intcom.SamplePedersenParameters does).
func prfTrapdoor(p, q *num.NatPlus, rng io.Reader) *intcom.TrapdoorKey {
	g := must(znstar.NewRSAGroup(p, q))
	var t *znstar.RSAGroupElementKnownOrder
	for {
		t = must(g.RandomQuadraticResidue(rng))
		if t.Value().Decrement().Nat().Coprime(g.Modulus().Nat()) {
			break
		}
	}
	zm := must(num.NewZMod(p.Rsh(1).Mul(q.Rsh(1))))
	var lambda *num.Uint
	for {
		lambda = must(zm.Random(rng))
		if lambda.IsUnit() && !lambda.IsOne() {
			break
		}
	}
	return must(intcom.NewTrapdoorKey(t, lambda))
}

type prfZkpEnv struct {
	skA, skB *paillier.SecretKey // 3072-bit Paillier-Blum keys
	rpBig    *intcom.TrapdoorKey // 3072-bit ring-Pedersen parameters
	rpSmall  *intcom.TrapdoorKey // 1024-bit ring-Pedersen parameters
}

func (e *prfZkpEnv) timed(name string, f func()) {
	t0 := time.Now()
	f()
	if os.Getenv("PRF_TIMING") != "" {
		fmt.Fprintf(os.Stderr, "[zkp] %-12s %.2fs\n", name, time.Since(t0).Seconds())
	}
}

// prfFS runs the Fiat-Shamir compiler on the protocol exactly as fiatshamir.Prover.Prove does
// (zkmodule.Commit, then zkmodule.Prove on the prover's session context after the compiler's domain
// separator), so that the prover state is available too. The proof is captured as the
// zkmodule.Proof structure; verifyInValid selects whether the validity predicate of the structure
// runs the (possibly expensive) verifier or only the presence rules of the decoder.
func prfFS[X sigma.Statement, W sigma.Witness, A sigma.Commitment, S sigma.State, Z sigma.Response](
	pname, name string, p sigma.Protocol[X, W, A, S, Z], x X, w W, stream uint64, verifyInValid bool,
) (A, S, Z) {
	t0 := time.Now()
	must0(p.ValidateStatement(x, w))
	ni := must(fiatshamir.NewCompiler(p))
	pctx, vctx := prfCtxs(stream)
	must(ni.NewProver(pctx)) // applies the domain separator to pctx
	a, s := must2(zkmodule.Commit(p, x, w))
	t1 := time.Now()
	pr := must(zkmodule.Prove(pctx, p, x, w, a, s))
	t2 := time.Now()
	proof := compiler.NIZKPoKProof(must(serde.MarshalCBOR(pr)))
	verifier := must(ni.NewVerifier(vctx.Clone()))
	must0(verifier.Verify(x, proof))
	if os.Getenv("PRF_TIMING") != "" {
		fmt.Fprintf(os.Stderr, "[fs]  %.30s commit %.2f prove %.2f verify %.2f\n", p.Name(), t1.Sub(t0).Seconds(), t2.Sub(t1).Seconds(), time.Since(t2).Seconds())
	}
	inner := must(serde.UnmarshalCBOR[*zkmodule.Proof[A, Z]](proof))
	add("zkmodule.Proof["+pname+"]", name, inner, nil, func(pr *zkmodule.Proof[A, Z]) error {
		if pr == nil || utils.IsNil(pr.Commitment()) || utils.IsNil(pr.Response()) || len(pr.Challenge()) == 0 {
			return errors.New("nil / empty component")
		}
		if err := prfValidBytes(pr.Commitment()); err != nil {
			return err
		}
		if err := prfValidBytes(pr.Response()); err != nil {
			return err
		}
		if !verifyInValid {
			return nil
		}
		c := vctx.Clone()
		if _, err := ni.NewVerifier(c); err != nil {
			return err
		}
		if !prfVerifyInValid {
			return nil // a decoder does not verify proofs: only the structural rules above are its validity predicate
		}
		return zkmodule.Verify(c, p, x, pr)
	})
	return a, s, pr.Response()
}

// prfAddB captures a message type without accessors: equality through the transcript encoding,
// validity = the presence rules of the constructor (every component is dereferenced by Bytes()).
func prfAddB[T prfBytes](typ, name string, v T) {
	add(typ, name, v, prfEqBytes[T], prfValidBytes[T])
}

func prfEnv() *prfZkpEnv {
	env := &prfZkpEnv{}
	rng := tr.Rng(seed, 220)
	env.timed("keys", func() {
		env.skA = must(paillier.NewSecretKey(must(znstar.NewPaillierGroup(prfPrime(prfBlumA1), prfPrime(prfBlumA2)))))
		env.skB = must(paillier.NewSecretKey(must(znstar.NewPaillierGroup(prfPrime(prfBlumB1), prfPrime(prfBlumB2)))))
		env.rpBig = prfTrapdoor(prfPrime(prfSafe1536P), prfPrime(prfSafe1536Q), rng)
		env.rpSmall = prfTrapdoor(prfPrime(prfSafe512P), prfPrime(prfSafe512Q), rng)
	})
	return env
}

// The zero-knowledge proofs over Paillier / ring-Pedersen moduli are split into two capture groups so that the
// check can run them as separate processes.
func captureZkp() {
	env := prfEnv()
	env.timed("prm", func() { prfCapPrm(env) })
	env.timed("enc", func() { prfCapEnc(env) })
	env.timed("fac", func() { prfCapFac(env) })
	env.timed("nthroot", func() { prfCapNthRoot(env) })
	env.timed("pailliern", func() { prfCapPaillierN(env) })
	env.timed("lp", func() { prfCapLp(env) })
}

func captureZkp2() {
	env := prfEnv()
	env.timed("blummod", func() { prfCapBlummod(env) })
	env.timed("encelg", func() { prfCapEncElg(env) })
	env.timed("affg", func() { prfCapAffg(env) })
	env.timed("range", func() { prfCapRange(env) })
	// The remaining protocols need 128 parallel Paillier repetitions on 3072-bit moduli (affgstar ~34 s,
	// dec ~18 s, lpdl ~25 s): thorough tier (or PRF_ZKP_FULL=1) only.
	if thorough || os.Getenv("PRF_ZKP_FULL") != "" {
		env.timed("affgstar", func() { prfCapAffgStar(env) })
		env.timed("dec", func() { prfCapDec(env) })
		env.timed("lpdl", func() { prfCapLpdl(env) })
	}
}

// ---- prm: ring-Pedersen parameters (1024-bit and 3072-bit moduli) ----

func prfCapPrm(env *prfZkpEnv) {
	rng := tr.Rng(seed, 221)
	p := must(prm.NewProtocol(rng))
	x := must(prm.NewStatement(env.rpSmall.Export()))
	w := must(prm.NewWitness(env.rpSmall))
	prfAddB("prm.Statement", "1024", x)
	// the 3072-bit parameters: statement only (one honest run costs ~8 s: 3 x 128 exponentiations)
	prfAddB("prm.Statement", "3072", must(prm.NewStatement(env.rpBig.Export())))
	for i := 0; i < 2; i++ {
		var a *prm.Commitment
		var s *prm.State
		var z *prm.Response
		if i == 0 {
			a, s, z, _ = prfRun(p, x, w, rng)
		} else {
			a, s, z = prfFS("prm", "1024", p, x, w, 222, true)
		}
		n := fmt.Sprintf("1024-%d", i)
		prfAddB("prm.Commitment", n, a)
		add("prm.State", n, s, nil, nil)
		prfAddB("prm.Response", n, z)
	}
}

// ---- blummod: Paillier-Blum modulus ----

func prfCapBlummod(env *prfZkpEnv) {
	rng := tr.Rng(seed, 223)
	p := must(blummod.NewProtocol(rng))
	x := must(blummod.NewStatement(env.skA.Public()))
	w := must(blummod.NewWitness(env.skA))
	prfAddB("blummod.Statement", "A", x)
	prfAddB("blummod.Statement", "B", must(blummod.NewStatement(env.skB.Public())))
	// one honest proof only (3072-bit modulus: the response costs ~10 s, the verification ~4 s)
	a, s, z := prfFS("blummod", "A", p, x, w, 224, false)
	prfAddB("blummod.Commitment", "A", a)
	add("blummod.State", "A", s, nil, nil)
	prfAddB("blummod.Response", "A", z)
	// a response item through its public constructor (the items of a Response are not accessible)
	pk := env.skA.Public()
	for i := uint8(0); i < 2; i++ {
		it := must(blummod.NewResponseItem(must(pk.SampleNonce(rng)), i, 1-i, must(pk.SampleNonce(rng))))
		add("blummod.ResponseItem", fmt.Sprint(i), it, nil, nil)
	}
}

// ---- enc: Paillier encryption in range ----

func prfSignedBits(bits int, rng io.Reader) *num.Int {
	b := make([]byte, bits/8)
	if _, err := io.ReadFull(rng, b); err != nil {
		panic(err)
	}
	return must(num.Z().FromTwosComplementBytesBE(b))
}

func prfCapEnc(env *prfZkpEnv) {
	rng := tr.Rng(seed, 225)
	pk := env.skA.Public()
	p := must(enc.NewProtocol(pk, env.rpSmall.Export(), 256, 512, rng))
	for i := 0; i < 2; i++ {
		k := must(paillier.NewPlaintextSymmetric(prfSignedBits(256, rng), pk.PlaintextGroup().Modulus()))
		bigK, rho := must2(encryption.Encrypt(k, pk, rng))
		x := must(enc.NewStatement(bigK))
		w := must(enc.NewWitness(k, rho))
		var a *enc.Commitment
		var z *enc.Response
		if i == 0 {
			a, _, z, _ = prfRun(p, x, w, rng)
		} else {
			a, _, z = prfFS("enc", "1", p, x, w, 226, true)
		}
		n := fmt.Sprint(i)
		prfAddB("enc.Statement", n, x)
		prfAddB("enc.Commitment", n, a)
		prfAddB("enc.Response", n, z)
	}
}

// ---- fac: no small factor ----

func prfCapFac(env *prfZkpEnv) {
	rng := tr.Rng(seed, 227)
	p := must(fac.NewProtocol(env.rpSmall.Export(), 128, 256, rng))
	for _, k := range []struct {
		n  string
		sk *paillier.SecretKey
	}{{"A", env.skA}, {"B", env.skB}} {
		x := must(fac.NewStatement(k.sk.Public()))
		w := must(fac.NewWitness(k.sk))
		var a *fac.Commitment
		var z *fac.Response
		if k.n == "A" {
			a, _, z, _ = prfRun(p, x, w, rng)
		} else {
			a, _, z = prfFS("fac", "B", p, x, w, 228, true)
		}
		prfAddB("fac.Statement", k.n, x)
		add("fac.Commitment", k.n, a, prfEqSafe(func(a, b *fac.Commitment) bool { return a.Equal(b) }), prfValidBytes[*fac.Commitment])
		prfAddB("fac.Response", k.n, z)
	}
}

// ---- paillier/nthroot (verifier's view of the group: unknown order) ----

func prfCapNthRoot(env *prfZkpEnv) {
	rng := tr.Rng(seed, 229)
	grp := env.skA.Public().Group()
	p := must(nthroot.NewProtocol(grp, rng))
	for i := 0; i < 2; i++ {
		wv := must(grp.Random(rng))
		xv := must(grp.NthResidue(wv))
		x := must(nthroot.NewStatement(xv))
		w := must(nthroot.NewWitness(wv))
		a, s, z, _ := prfRun(p, x, w, rng)
		n := fmt.Sprint(i)
		prfAddV("maurer09.Statement[PaillierGroupElementUnknownOrder]", n, x, func(x *nthroot.Statement[*modular.SimpleModulus]) error {
			_, err := nthroot.NewStatement(x.Value())
			return err
		})
		prfAddV("maurer09.Witness[PaillierGroupElementUnknownOrder]", n, w, func(x *nthroot.Witness[*modular.SimpleModulus]) error {
			_, err := nthroot.NewWitness(x.Value())
			return err
		})
		prfAddV("maurer09.Commitment[PaillierGroupElementUnknownOrder]", n, a, nil)
		prfAddV("maurer09.State[PaillierGroupElementUnknownOrder]", n, s, nil)
		prfAddV("maurer09.Response[PaillierGroupElementUnknownOrder]", n, z, nil)
	}
}

// ---- paillier/pailliern ----

func prfCapPaillierN(env *prfZkpEnv) {
	for i, sk := range []*paillier.SecretKey{env.skA, env.skB} {
		pctx, vctx := prfCtxs(230 + uint64(i))
		prover := must(pailliern.NewProver(pctx.SessionID(), sk, pctx.Transcript()))
		proof, pk := must2(prover.Prove())
		verify := func(p *pailliern.Proof) error {
			if p == nil {
				return errors.New("nil")
			}
			for _, s := range p.Sigmas {
				if s == nil {
					return errors.New("nil sigma")
				}
			}
			if !prfVerifyInValid {
				return nil // a decoder does not verify proofs: only the structural rules above are its validity predicate
			}
			return pailliern.Verify(vctx.SessionID(), vctx.Transcript().Clone(), pk, p)
		}
		must0(verify(proof))
		add("pailliern.Proof", fmt.Sprint(i), proof, nil, verify)
	}
}

// ---- affg / affgstar: Paillier affine operation with group commitment ----

type prfAffInputs struct {
	n0, n1    *paillier.PublicKey
	c, d, y   *paillier.Ciphertext
	xPoint    *k256.Point
	xInt      *num.Int
	yN1       *paillier.Plaintext
	rho, rhoY *paillier.Nonce
}

func prfAffSample(env *prfZkpEnv, xv, yv, cv int64, rng io.Reader) *prfAffInputs {
	curve := k256.NewCurve()
	in := &prfAffInputs{n0: env.skA.Public(), n1: env.skB.Public()}
	in.xInt = num.Z().FromInt64(xv)
	xs := must(curve.ScalarField().FromBytesBEReduce(in.xInt.Big().Bytes()))
	in.xPoint = curve.ScalarBaseMul(xs)
	yInt := num.Z().FromInt64(yv)
	in.yN1 = must(paillier.NewPlaintextSymmetric(yInt, in.n1.PlaintextGroup().Modulus()))
	in.rhoY = must(in.n1.SampleNonce(rng))
	in.y = must(in.n1.EncryptWithNonce(in.yN1, in.rhoY))
	cp := must(paillier.NewPlaintextSymmetric(num.Z().FromInt64(cv), in.n0.PlaintextGroup().Modulus()))
	in.c = must(in.n0.EncryptWithNonce(cp, must(in.n0.SampleNonce(rng))))
	in.rho = must(in.n0.SampleNonce(rng))
	yN0 := must(paillier.NewPlaintextSymmetric(yInt, in.n0.PlaintextGroup().Modulus()))
	encY := must(in.n0.EncryptWithNonce(yN0, in.rho))
	in.d = must(in.n0.CiphertextOp(must(in.n0.CiphertextScalarOp(in.c, in.xInt)), encY))
	return in
}

func prfCapAffg(env *prfZkpEnv) {
	rng := tr.Rng(seed, 240)
	type P = *k256.Point
	type B = *k256.BaseFieldElement
	type S = *k256.Scalar
	p := must(affg.NewProtocol(env.rpBig.Export(), 256, 1280, 512, k256.NewCurve(), rng))
	in := prfAffSample(env, 42, -17, 123, rng)
	x := must(affg.NewStatement(in.n0, in.n1, in.c, in.d, in.y, in.xPoint))
	w := must(affg.NewWitness(in.xInt, in.yN1, in.rho, in.rhoY))
	a, _, z := prfFS[*affg.Statement[P, B, S], *affg.Witness, *affg.Commitment[P, B, S], *affg.State, *affg.Response]("affg,k256", "0", p, x, w, 241, false)
	prfAddB("affg.Statement[k256]", "0", x)
	prfAddB("affg.Commitment[k256]", "0", a)
	prfAddB("affg.Response", "0", z)
}

func prfCapAffgStar(env *prfZkpEnv) {
	rng := tr.Rng(seed, 242)
	type P = *k256.Point
	type B = *k256.BaseFieldElement
	type S = *k256.Scalar
	p := must(affgstar.NewProtocol(256, 1280, 512, k256.NewCurve(), rng))
	in := prfAffSample(env, 7, 1000, -5, rng)
	x := must(affgstar.NewStatement(in.n0, in.n1, in.c, in.d, in.y, in.xPoint))
	w := must(affgstar.NewWitness(in.xInt, in.yN1, in.rho, in.rhoY))
	a, _, z := prfFS[*affgstar.Statement[P, B, S], *affgstar.Witness, *affgstar.Commitment[P, B, S], *affgstar.State, *affgstar.Response]("affgstar,k256", "0", p, x, w, 243, false)
	prfAddB("affgstar.Statement[k256]", "0", x)
	prfAddB("affgstar.Commitment[k256]", "0", a)
	prfAddB("affgstar.Response", "0", z)
}

// ---- dec: Paillier special decryption ----

func prfCapDec(env *prfZkpEnv) {
	rng := tr.Rng(seed, 244)
	type P = *k256.Point
	type B = *k256.BaseFieldElement
	type S = *k256.Scalar
	curve := k256.NewCurve()
	n0 := env.skA.Public()
	xInt := num.Z().FromInt64(42)
	xPoint := curve.ScalarBaseMul(must(curve.ScalarField().FromBytesBEReduce(xInt.Big().Bytes())))
	yInt := num.Z().FromInt64(17)
	sPoint := curve.ScalarBaseMul(must(curve.ScalarField().FromBytesBEReduce(yInt.Big().Bytes())))
	p := must(dec.NewProtocol(256, 1280, 512, curve.Generator(), rng))
	kp := must(paillier.NewPlaintextSymmetric(num.Z().FromInt64(123), n0.PlaintextGroup().Modulus()))
	k := must(n0.EncryptWithNonce(kp, must(n0.SampleNonce(rng))))
	rho := must(n0.SampleNonce(rng))
	yp := must(paillier.NewPlaintextSymmetric(yInt, n0.PlaintextGroup().Modulus()))
	encY := must(n0.EncryptWithNonce(yp, rho))
	kXInv := must(n0.CiphertextOpInv(must(n0.CiphertextScalarOp(k, xInt))))
	d := must(n0.CiphertextOp(encY, kXInv))
	x := must(dec.NewStatement(n0, k, xPoint, d, sPoint))
	w := must(dec.NewWitness(xInt, yInt, rho))
	a, _, z := prfFS[*dec.Statement[P, B, S], *dec.Witness, *dec.Commitment[P, B, S], *dec.State, *dec.Response]("dec,k256", "0", p, x, w, 245, false)
	prfAddB("dec.Statement[k256]", "0", x)
	prfAddB("dec.Commitment[k256]", "0", a)
	prfAddB("dec.Response", "0", z)
}

// ---- encelg: range proof with ElGamal commitment ----

func prfCapEncElg(env *prfZkpEnv) {
	rng := tr.Rng(seed, 246)
	type P = *k256.Point
	type B = *k256.BaseFieldElement
	type S = *k256.Scalar
	curve := k256.NewCurve()
	n0 := env.skA.Public()
	ask := must(elgamal.SampleSecretKey[P, S](curve, rng))
	eck := must(indcpacom.NewHomomorphicCommitmentKey(ask.Public()))
	p := must(encelg.NewProtocol[P, B, S](env.rpBig.Export(), eck, 256, 512, rng))
	for i := 0; i < 2; i++ {
		xInt := num.Z().FromInt64(42 + int64(i)*1000)
		xs := must(curve.ScalarField().FromBytesBEReduce(xInt.Big().Bytes()))
		bx := must(curve.ScalarField().Random(rng))
		bxW := must(indcpacom.NewWitness(must(elgamal.NewNonce[S](bx))))
		bxM := must(indcpacom.NewMessage(must(elgamal.NewPlaintext[P, S](curve.ScalarBaseMul(xs)))))
		bxC := must(eck.CommitWithWitness(bxM, bxW))
		xp := must(paillier.NewPlaintextSymmetric(xInt, n0.PlaintextGroup().Modulus()))
		rho := must(n0.SampleNonce(rng))
		c := must(n0.EncryptWithNonce(xp, rho))
		x := must(encelg.NewStatement(n0, c, bxC))
		w := must(encelg.NewWitness[S](xInt, rho, bxW))
		var a *encelg.Commitment[P, B, S]
		var z *encelg.Response[S]
		if i == 0 {
			a, _, z, _ = prfRun(p, x, w, rng)
		} else {
			a, _, z = prfFS[*encelg.Statement[P, B, S], *encelg.Witness[S], *encelg.Commitment[P, B, S], *encelg.State[S], *encelg.Response[S]]("encelg,k256", "1", p, x, w, 247, true)
		}
		n := fmt.Sprint(i)
		prfAddB("encelg.Statement[k256]", n, x)
		prfAddB("encelg.Commitment[k256]", n, a)
		prfAddB("encelg.Response[k256]", n, z)
	}
}

// ---- paillier/range ----

func prfCapRange(env *prfZkpEnv) {
	rng := tr.Rng(seed, 248)
	sk := env.skA
	q := must(num.NPlus().FromBytesBE(k256.NewCurve().Order().Bytes()))
	third := must(num.NPlus().FromBig(new(big.Int).Div(q.Big(), big.NewInt(3))))
	p := must(paillierrange.NewPaillierRange(base.StatisticalSecurityBits, third, sk, rng))
	xNat := must(num.N().Random(num.N().Zero(), third.Nat(), rng))
	xp := must(paillier.NewPlaintextFromNat(xNat, sk.Group().N()))
	c, r := must2(encryption.Encrypt(xp, sk, rng))
	x := must(paillierrange.NewStatement(c))
	w := must(paillierrange.NewWitness(xp, r))
	a, s, z, _ := prfRun(p, x, w, rng)
	prfAddB("paillierrange.Statement", "0", x)
	prfAddB("paillierrange.Witness", "0", w)
	prfAddB("paillierrange.Commitment", "0", a)
	add("paillierrange.State", "0", s, nil, nil)
	prfAddB("paillierrange.Response", "0", z)
}

// ---- paillier/lp: the four round messages of the interactive protocol (k = 2 repetitions) ----

func prfCapLp(env *prfZkpEnv) {
	for i, sk := range []*paillier.SecretKey{env.skA, env.skB} {
		rng := tr.Rng(seed, 250+uint64(i))
		pctx, vctx := prfCtxs(252 + uint64(i))
		const k = 2
		verifier := must(lp.NewVerifier(vctx, k, sk.Public(), rng))
		prover := must(lp.NewProver(pctx, k, sk, rng))
		r1 := must(verifier.Round1())
		r2 := must(prover.Round2(r1))
		r3 := must(verifier.Round3(r2))
		r4 := must(prover.Round4(r3))
		must0(verifier.Round5(r4))
		n := fmt.Sprint(i)
		addMsg("lp.Round1Output", n, r1, nil, func(m *lp.Round1Output) error { return m.Validate(prover, 2) })
		addMsg("lp.Round2Output", n, r2, nil, func(m *lp.Round2Output) error { return m.Validate(verifier, 1) })
		addMsg("lp.Round3Output", n, r3, nil, func(m *lp.Round3Output) error { return m.Validate(prover, 2) })
		addMsg("lp.Round4Output", n, r4, nil, func(m *lp.Round4Output) error { return m.Validate(verifier, 1) })
	}
}

// ---- paillier/lpdl: the four round messages (runs a t = 128 Paillier range proof: slow) ----

func prfCapLpdl(env *prfZkpEnv) {
	type P = *k256.Point
	type B = *k256.BaseFieldElement
	type S = *k256.Scalar
	rng := tr.Rng(seed, 254)
	curve := k256.NewCurve()
	sk := env.skA
	q := curve.Order().Big()
	third := new(big.Int).Div(q, big.NewInt(3))
	off := must(num.N().Random(num.N().Zero(), must(num.N().FromBig(third)), rng))
	xNat := must(num.N().FromBig(new(big.Int).Add(third, off.Big())))
	xMsg := must(paillier.NewPlaintextFromNat(xNat, sk.Group().N()))
	x := must(curve.ScalarField().FromBytesBEReduce(xNat.Big().Bytes()))
	bigQ := curve.ScalarBaseMul(x)
	xEnc, r := must2(encryption.Encrypt(xMsg, sk, rng))
	pctx, vctx := prfCtxs(255)
	verifier := must(lpdl.NewVerifier(vctx, sk.Public(), bigQ, xEnc, rng))
	prover := must(lpdl.NewProver(pctx, curve, sk, x, r, rng))
	r1 := must(verifier.Round1())
	r2 := must(prover.Round2(r1))
	r3 := must(verifier.Round3(r2))
	r4 := must(prover.Round4(r3))
	must0(verifier.Round5(r4))
	addMsg("lpdl.Round1Output[k256]", "0", r1, nil, func(m *lpdl.Round1Output[P, B, S]) error { return m.Validate(prover, 2) })
	addMsg("lpdl.Round2Output[k256]", "0", r2, nil, func(m *lpdl.Round2Output[P, B, S]) error { return m.Validate(verifier, 1) })
	addMsg("lpdl.Round3Output[k256]", "0", r3, nil, func(m *lpdl.Round3Output[P, B, S]) error { return m.Validate(prover, 2) })
	addMsg("lpdl.Round4Output[k256]", "0", r4, nil, func(m *lpdl.Round4Output[P, B, S]) error { return m.Validate(verifier, 1) })
}

package cbor

// Constructor-rule violations crafted directly in CBOR: an honest encoding of a captured value is
// edited at one field so that exactly one rule of the type's validating constructor is broken.
// Logged: accepted / rejected (+ validity predicate, panic). CborTrace requires a rejection.

import (
	"encoding/hex"
	"fmt"
	"strings"
)

func capOf(typ, name string) *capture {
	for _, c := range captures {
		if c.typ == typ && (name == "" || c.name == name) {
			return c
		}
	}
	return nil
}

func siteAt(root *node, path string) (site, bool) {
	for _, s := range sites(root) {
		if s.path == path {
			return s, true
		}
	}
	return site{}, false
}

func uintN(v uint64) *node { return &node{mt: mtUint, arg: v} }
func bytesN(b []byte) *node { return &node{mt: mtBytes, payload: b} }
func hexN(h string) *node {
	b, err := hex.DecodeString(h)
	if err != nil {
		panic(err)
	}
	return bytesN(b)
}

// craftSet replaces the item at path by nn.
func craftSet(path string, nn *node) func(root *node) (*node, error) {
	return func(root *node) (*node, error) {
		s, ok := siteAt(root, path)
		if !ok {
			return nil, fmt.Errorf("no item at %q", path)
		}
		return replace(s, root, nn.clone()), nil
	}
}

// craftMap edits the map at path.
func craftMap(path string, f func(m *node)) func(root *node) (*node, error) {
	return func(root *node) (*node, error) {
		s, ok := siteAt(root, path)
		if !ok || s.n.mt != mtMap {
			return nil, fmt.Errorf("no map at %q", path)
		}
		f(s.n)
		sortMapCanonical(s.n)
		return root, nil
	}
}

func craftArr(path string, f func(a *node)) func(root *node) (*node, error) {
	return func(root *node) (*node, error) {
		s, ok := siteAt(root, path)
		if !ok || s.n.mt != mtArray {
			return nil, fmt.Errorf("no array at %q", path)
		}
		f(s.n)
		return root, nil
	}
}

func seq(fs ...func(root *node) (*node, error)) func(root *node) (*node, error) {
	return func(root *node) (*node, error) {
		var err error
		for _, f := range fs {
			if root, err = f(root); err != nil {
				return nil, err
			}
		}
		return root, nil
	}
}

var craftMissing []string

// craftInfo logs a crafted encoding that breaks no constructor rule (e.g. a non-canonical representative that the
// field constructor itself reduces): only "never a panic, accepted => valid" is required of it.
func craftInfo(typ, name, rule string, edit func(root *node) (*node, error)) {
	craftMust = "any"
	craft(typ, name, rule, edit)
	craftMust = "rej"
}

var craftMust = "rej"

func craft(typ, name, rule string, edit func(root *node) (*node, error)) {
	c := capOf(typ, name)
	if c == nil {
		return // the group that captures this type is not part of this run
	}
	var b []byte
	if edit == nil {
		b = c.enc
	} else {
		r, err := edit(c.tree.clone())
		if err != nil {
			craftMissing = append(craftMissing, fmt.Sprintf("%s/%s %s: %v", typ, name, rule, err))
			return
		}
		b = r.bytes()
	}
	o := c.try(b)
	must := craftMust
	if rule == "none" {
		must = "acc"
	}
	ev := map[string]any{"typ": typ, "name": c.name, "grp": c.group, "rule": rule, "must": must, "res": o.res, "valid": o.valid, "regen": o.regen,
		"panic": o.panic_, "hex": hexCap(b, 6000), "detail": o.detail}
	if o.panic_ {
		ev["site"] = siteOf(o.detail)
	}
	emit("craft", ev)
}

func delKey(key string) func(m *node) {
	return func(m *node) {
		for i := 0; i+1 < len(m.kids); i += 2 {
			if keyLabel(m.kids[i]) == key {
				m.kids = append(append([]*node(nil), m.kids[:i]...), m.kids[i+2:]...)
				return
			}
		}
	}
}

func addPair(k, v *node) func(m *node) {
	return func(m *node) { m.kids = append(m.kids, k, v) }
}

var craftFns []func()

func crafted() {
	for _, f := range craftFns {
		f()
	}
	if len(craftMissing) > 0 {
		panic("craft: paths not found (the wire layout changed?): " + strings.Join(craftMissing, "; "))
	}
}

func init() { craftFns = append(craftFns, craftAccess, craftSharing) }

var (
	scalarN   = "fffffffffffffffffffffffffffffffebaaedce6af48a03bbfd25e8cd0364141" // order of k256: not a canonical scalar
	allOnes32 = strings.Repeat("ff", 32)
	// x = 5 is not the abscissa of a k256 point (5^3 + 7 = 132 is a non-residue mod p)
	k256NoPoint = "02" + strings.Repeat("00", 31) + "05"
)

func craftAccess() {
	T := "threshold.Threshold"
	craft(T, "thr2of3", "none", nil)
	craft(T, "thr2of3", "threshold 0", craftSet("/#5053/threshold", uintN(0)))
	craft(T, "thr2of3", "threshold 1 (< 2)", craftSet("/#5053/threshold", uintN(1)))
	craft(T, "thr2of3", "threshold > n", craftSet("/#5053/threshold", uintN(4)))
	craft(T, "thr2of3", "shareholder id 0", craftMap("/#5053/shareholders", addPair(uintN(0), &node{mt: mtSimp, arg: 21, ai: 21})))
	craft(T, "thr2of3", "no shareholders", craftMap("/#5053/shareholders", func(m *node) { m.kids = nil }))
	craft(T, "thr2of3", "shareholders missing", craftMap("/#5053", delKey("shareholders")))

	U := "unanimity.Unanimity"
	craft(U, "una3", "none", nil)
	craft(U, "una3", "shareholder id 0", craftMap("/#5054/shareholders", addPair(uintN(0), &node{mt: mtSimp, arg: 21, ai: 21})))
	craft(U, "una3", "fewer than 2 shareholders", craftMap("/#5054/shareholders", func(m *node) { m.kids = m.kids[:2] }))

	C := "cnf.CNF"
	craft(C, "cnf", "none", nil)
	craft(C, "cnf", "shareholder id 0 in a clause", craftMap("/#5051/maximal_unqualified_sets/1", addPair(uintN(0), &node{mt: mtSimp, arg: 21, ai: 21})))
	craft(C, "cnf", "no clauses", craftArr("/#5051/maximal_unqualified_sets", func(a *node) { a.kids = nil }))

	H := "hierarchical.HierarchicalConjunctiveThreshold"
	craft(H, "hier", "none", nil)
	craft(H, "hier", "level threshold 0", craftSet("/#5052/levels/0/threshold", uintN(0)))
	craft(H, "hier", "party id 0", craftSet("/#5052/levels/0/parties/0", uintN(0)))
	craft(H, "hier", "thresholds not increasing", craftSet("/#5052/levels/1/threshold", uintN(1)))
	craft(H, "hier", "levels overlap", craftArr("/#5052/levels/1/parties", func(a *node) { a.kids = append(a.kids, uintN(1)) }))
	craft(H, "hier", "threshold > cumulative parties", craftSet("/#5052/levels/1/threshold", uintN(5)))
	craft(H, "hier", "no levels", craftArr("/#5052/levels", func(a *node) { a.kids = nil }))
	craft(H, "hier", "level without parties", craftArr("/#5052/levels/0/parties", func(a *node) { a.kids = nil }))

	G := "boolexpr.ThresholdGateAccessStructure"
	craft(G, "gate", "none", nil)
	craft(G, "gate", "gate threshold 0", craftSet("/#5050/root/threshold", uintN(0)))
	craft(G, "gate", "gate threshold > children", craftSet("/#5050/root/threshold", uintN(3)))
	craft(G, "gate", "attribute id 0", craftSet("/#5050/root/children/0/children/0/attr", uintN(0)))
	craft(G, "gate", "shareholder not in the tree", craftMap("/#5050/shareholders", addPair(uintN(9), &node{mt: mtSimp, arg: 21, ai: 21})))
	craft(G, "gate", "leaf not in the shareholders", craftMap("/#5050/shareholders", delKey("4")))
	craft(G, "gate", "gate without children", craftArr("/#5050/root/children/1/children", func(a *node) { a.kids = nil }))

	// the same through the interface type
	M := "accessstructures.Monotone(threshold)"
	craft(M, "iface-thr2of3", "none", nil)
	craft(M, "iface-thr2of3", "threshold 0", craftSet("/#5053/threshold", uintN(0)))
	craft(M, "iface-thr2of3", "threshold > n", craftSet("/#5053/threshold", uintN(4)))
	craft(M, "iface-thr2of3", "type tag of another access structure", func(root *node) (*node, error) { root.arg = 5054; return root, nil })
}

func craftSharing() {
	for _, g := range []string{"k256"} {
		T := func(s string) string { return s + "[" + g + "]" }
		craft(T("kw.Share"), "thr2of3-p1", "none", nil)
		craft(T("kw.Share"), "thr2of3-p1", "id 0", craftSet("/id", uintN(0)))
		craft(T("kw.Share"), "thr2of3-p1", "empty value vector", craftArr("/value", func(a *node) { a.kids = nil }))
		craftInfo(T("kw.Share"), "thr2of3-p1", "non-canonical scalar (= group order)", craftSet("/value/0/fieldBytes", hexN(scalarN)))
		craftInfo(T("kw.Share"), "thr2of3-p1", "non-canonical scalar (2^256-1)", craftSet("/value/0/fieldBytes", hexN(allOnes32)))

		craft(T("shamir.Share"), "p1", "none", nil)
		craft(T("shamir.Share"), "p1", "id 0", craftSet("/sharingID", uintN(0)))
		craft(T("shamir.Share"), "p1", "value missing", craftMap("", delKey("value")))

		craft(T("feldman.LiftedShare"), "thr2of3-p1", "none", nil)
		craft(T("feldman.LiftedShare"), "thr2of3-p1", "id 0", craftSet("/id", uintN(0)))
		craft(T("feldman.LiftedShare"), "thr2of3-p1", "empty value vector", craftArr("/value", func(a *node) { a.kids = nil }))
		craft(T("feldman.LiftedShare"), "thr2of3-p1", "not a curve point", craftSet("/value/0/compressedBytes", hexN(k256NoPoint)))

		craft(T("pedersen.Share"), "thr2of3-p1", "none", nil)
		craft(T("pedersen.Share"), "thr2of3-p1", "id 0", craftSet("/sharingID", uintN(0)))
		craft(T("pedersen.Share"), "thr2of3-p1", "secret / blinding lengths differ", craftArr("/blinding", func(a *node) { a.kids = append(a.kids, a.kids[0].clone()) }))
		craft(T("pedersen.Share"), "thr2of3-p1", "empty secret", craftArr("/secret", func(a *node) { a.kids = nil }))

		MT := "mat.Matrix[k256]"
		craft(MT, "2x3", "none", nil)
		craft(MT, "2x3", "rows 0", craftSet("/rows", uintN(0)))
		craft(MT, "2x3", "cols 0", craftSet("/cols", uintN(0)))
		craft(MT, "2x3", "rows*cols != len(data)", craftSet("/rows", uintN(3)))
		craft(MT, "2x3", "rows*cols < len(data)", craftSet("/rows", uintN(1)))
		craft(MT, "2x3", "surplus data element", craftArr("/data", func(a *node) { a.kids = append(a.kids, a.kids[0].clone()) }))
		craft(MT, "2x3", "negative rows", craftSet("/rows", &node{mt: mtNint, arg: 1}))
		craft(MT, "2x3", "rows*cols overflows", seq(craftSet("/rows", uintN(1<<62)), craftSet("/cols", uintN(4))))
		craft(MT, "2x3", "rows*cols wraps to len(data)", seq(craftSet("/rows", uintN(1<<63)), craftSet("/cols", uintN(2))))
		craft(MT, "2x3", "data element missing", craftArr("/data", func(a *node) { a.kids = a.kids[:5] }))
		craft(MT, "2x3", "null data element", craftSet("/data/2", null()))
		SQ := "mat.SquareMatrix[k256]"
		craft(SQ, "2x2", "none", nil)
		craft(SQ, "2x2", "size 0", craftSet("/size", uintN(0)))
		craft(SQ, "2x2", "size^2 != len(data)", craftSet("/size", uintN(3)))
		craft(SQ, "2x2", "size^2 < len(data)", craftSet("/size", uintN(1)))
		MV := "mat.ModuleValuedMatrix[k256]"
		craft(MV, "2x3", "none", nil)
		craft(MV, "2x3", "rows*cols != len(data)", craftSet("/cols", uintN(4)))
		craft(MV, "2x3", "rows*cols < len(data)", craftSet("/cols", uintN(2)))
		craft(MV, "2x3", "not a curve point", craftSet("/data/0/compressedBytes", hexN(k256NoPoint)))

		MS := T("msp.MSP")
		craft(MS, "thr2of3", "none", nil)
		craft(MS, "thr2of3", "row without holder", craftMap("/RowsToHolders", delKey("2")))
		craft(MS, "thr2of3", "holder id 0", craftSet("/RowsToHolders/1", uintN(0)))
		craft(MS, "thr2of3", "row index out of range", craftMap("/RowsToHolders", addPair(uintN(7), uintN(1))))
		craft(MS, "thr2of3", "matrix rows*cols != len(data)", craftSet("/Matrix/rows", uintN(2)))

		VV := T("feldman.VerificationVector")
		craft(VV, "thr2of3", "none", nil)
		craft(VV, "thr2of3", "not a column vector", seq(craftSet("/verification_vector/rows", uintN(1)), craftSet("/verification_vector/cols", uintN(2))))
		craft(VV, "thr2of3", "rows != len(data)", craftSet("/verification_vector/rows", uintN(3)))

		BS := T("mpc.BaseShard")
		other := capOf(T("kw.Share"), "thr2of3-p2")
		craft(BS, "thr2of3-p1", "none", nil)
		if other != nil {
			ov, _ := siteAt(other.tree, "/value/0/fieldBytes")
			craft(BS, "thr2of3-p1", "share does not match the public data (foreign scalar)", craftSet("/share/value/0/fieldBytes", ov.n))
		}
		craft(BS, "thr2of3-p1", "share does not match the public data (zero)", craftSet("/share/value/0/fieldBytes", bytesN(make([]byte, 32))))
		craft(BS, "thr2of3-p1", "share id of another shareholder", craftSet("/share/id", uintN(2)))
		craft(BS, "thr2of3-p1", "share id not a shareholder", craftSet("/share/id", uintN(9)))
		craft(BS, "thr2of3-p1", "share id 0", craftSet("/share/id", uintN(0)))
		craft(BS, "thr2of3-p1", "verification vector shorter than the MSP", seq(
			craftSet("/publicMaterial/verificationVector/verification_vector/rows", uintN(1)),
			craftArr("/publicMaterial/verificationVector/verification_vector/data", func(a *node) { a.kids = a.kids[:1] })))
		craft(BS, "thr2of3-p1", "verification vector entry of another dealing", func(root *node) (*node, error) {
			o := capOf(BS, "thr3of5-p10")
			if o == nil {
				return nil, fmt.Errorf("no second dealing")
			}
			ov, _ := siteAt(o.tree, "/publicMaterial/verificationVector/verification_vector/data/0/compressedBytes")
			return craftSet("/publicMaterial/verificationVector/verification_vector/data/0/compressedBytes", ov.n)(root)
		})
		craft(BS, "thr2of3-p1", "MSP holder id 0", craftSet("/publicMaterial/msp/RowsToHolders/0", uintN(0)))
		craft(BS, "thr2of3-p1", "share missing", craftMap("", delKey("share")))
		craft(BS, "thr2of3-p1", "public material missing", craftMap("", delKey("publicMaterial")))

		PM := T("mpc.BasePublicMaterial")
		craft(PM, "thr2of3", "none", nil)
		craft(PM, "thr2of3", "verification vector longer than the MSP", seq(
			craftSet("/verificationVector/verification_vector/rows", uintN(3)),
			craftArr("/verificationVector/verification_vector/data", func(a *node) { a.kids = append(a.kids, a.kids[0].clone()) })))
		craft(PM, "thr2of3", "msp missing", craftMap("", delKey("msp")))
	}
	// numbers
	craft("num.NatPlus", "42", "none", nil)
	craft("num.NatPlus", "42", "zero", craftSet("/natPlus/natBytes", bytesN([]byte{0})))
	craft("num.NatPlus", "42", "zero (empty bytes)", craftSet("/natPlus/natBytes", bytesN(nil)))
	craft("num.Uint", "42", "none", nil)
	craft("num.Uint", "42", "value = modulus", craftSet("/value/natBytes", bytesN([]byte{100})))
	craft("num.Uint", "42", "value > modulus", craftSet("/value/natBytes", bytesN([]byte{1, 0})))
	craft("num.Uint", "42", "modulus zero", craftSet("/modulus/modulus/natBytes", bytesN([]byte{0})))
	craft("numct.Modulus", "100", "none", nil)
	craft("numct.Modulus", "100", "modulus zero", craftSet("/modulus/natBytes", bytesN([]byte{0})))
	craft("num.Rat", "-3/4", "denominator zero", craftSet("/b/natPlus/natBytes", bytesN([]byte{0})))
	craft("num.ZMod", "100", "modulus zero", craftSet("/modulus/natPlus/natBytes", bytesN([]byte{0})))

	// znstar
	PK := "znstar.PaillierGroupKnownOrder"
	craft(PK, "256", "none", nil)
	craft(PK, "256", "p not prime (p = 2^127+1... even)", func(root *node) (*node, error) {
		s, ok := siteAt(root, "/#5014/p/natPlus/natBytes")
		if !ok {
			return nil, fmt.Errorf("no p")
		}
		b := append([]byte(nil), s.n.payload...)
		b[len(b)-1] ^= 1 // even
		return replace(s, root, bytesN(b)), nil
	})
	craft(PK, "256", "p and q of different length", craftSet("/#5014/p/natPlus/natBytes", bytesN([]byte{0x0b})))
	craft(PK, "256", "p = q", func(root *node) (*node, error) {
		s, _ := siteAt(root, "/#5014/q/natPlus/natBytes")
		return craftSet("/#5014/p/natPlus/natBytes", s.n)(root)
	})
	RU := "znstar.RSAGroupElementUnknownOrder"
	craft(RU, "0", "none", nil)
	craft(RU, "0", "element zero (not a unit)", craftSet("/#5013/v/value/natBytes", bytesN([]byte{0})))
	craft(RU, "0", "element modulus differs from the group modulus", craftSet("/#5013/v/modulus/modulus/natBytes", bytesN([]byte{0x0f})))

	// curve points and scalars
	craft("k256.Point", "g", "none", nil)
	craft("k256.Point", "g", "not a curve point", craftSet("/compressedBytes", hexN(k256NoPoint)))
	craft("k256.Point", "g", "wrong length", craftSet("/compressedBytes", hexN(k256NoPoint[:64])))
	craft("k256.Point", "g", "bad prefix", craftSet("/compressedBytes", hexN("05"+k256NoPoint[2:])))
	craftInfo("k256.Point", "g", "x >= p", craftSet("/compressedBytes", hexN("02"+allOnes32)))
	craft("k256.Scalar", "one", "none", nil)
	craftInfo("k256.Scalar", "one", "value = order", craftSet("/fieldBytes", hexN(scalarN)))
	craft("k256.Scalar", "one", "wrong length", craftSet("/fieldBytes", hexN(scalarN[:62])))
	craftInfo("k256.BaseFieldElement", "one", "value >= p", craftSet("/fieldBytes", hexN(allOnes32)))
	// small-order points of edwards25519 must not decode as elements of the prime-order subgroup
	for i, h := range []string{
		"ec" + strings.Repeat("ff", 30) + "7f", // order 2
		strings.Repeat("00", 32), // order 4
		"26e8958fc2b227b045c3f489f2ef98f0d5dfac05d3c63339b13802886d53fc05", // order 8
		"c7176a703d4dd84fba3c0b760d10670f2a2053fa2c39ccc64ec7fd7792ac037a", // order 8
	} {
		craft("edwards25519.PrimeSubGroupPoint", "g", fmt.Sprintf("small-order point %d", i), craftSet("/compressedBytes", hexN(h)))
	}
	craft("edwards25519.PrimeSubGroupPoint", "g", "none", nil)
	craft("edwards25519.PrimeSubGroupPoint", "g", "non-canonical y (>= p)", craftSet("/compressedBytes", hexN("ed"+strings.Repeat("ff", 30)+"7f")))
	craftInfo("edwards25519.Scalar", "one", "value >= order", craftSet("/fieldBytes", hexN(allOnes32)))
}

// Package cbor is the C12 driver: it obtains real values of the library's serialisable types by
// running real code, round-trips them through pkg/base/serde, applies structure mutations to the
// encodings and logs what the real decoders do. The TLA+ trace specification CborTrace decides.
//
// It is a non-main package so that it can be built both as a plain binary (cmd/cbor, size floors
// of the library active) and as a `go test -c` binary (testing.Testing() true, floors off).
package cbor

import (
	"bytes"
	"flag"
	"fmt"
	"math/rand/v2"
	"os"
	"sort"
	"strings"
	"testing"
	"time"

	"verif/harness/tr"
)

var (
	w        *tr.W
	seed     uint64
	thorough bool
)

func emit(a string, ev map[string]any) {
	ev["a"] = a
	w.Emit(ev)
}

type tierParams struct {
	vals      int // values per type that get mutations
	perClass  int // sites per class and value (0 = all)
	flipBytes int // byte offsets per value for bit flips (0 = all)
	flipCap   int // encodings longer than this get sampled offsets even in the thorough tier
	truncAll  bool
	budget    time.Duration // wall budget per value for flips / truncations (so one slow decoder cannot eat the tier)
	mutBudget time.Duration // wall budget per value and semantic mutation class
	malBudget time.Duration // wall budget per value and malformed class (exceeded: the type's summary is not "full")
}

func Main(args []string) int {
	fs := flag.NewFlagSet("cbor", flag.ContinueOnError)
	out := fs.String("out", "trace.ndjson", "ndjson trace")
	sd := fs.Uint64("seed", 1, "seed")
	tier := fs.String("tier", "quick", "quick|thorough")
	groups := fs.String("groups", "all", "comma separated capture groups (all = every group)")
	model := fs.String("model", "", "TLC-generated behaviours (ndjson) to replay through the real serde on the model types")
	list := fs.Bool("list", false, "list captured types and exit")
	only := fs.String("only", "", "restrict the campaign to types containing this substring")
	replay := fs.String("replay", "", "hex encoding to decode with -only type (replay of a reported case)")
	shard := fs.String("shard", "0/1", "i/n: run the campaign only on the types whose index is i modulo n")
	deadline := fs.Int("deadline", 900, "seconds after which the remaining types get the sampled (quick) campaign")
	if err := fs.Parse(args); err != nil {
		return 2
	}
	seed = *sd
	thorough = *tier == "thorough"
	tp := tierParams{vals: 2, perClass: 3, flipBytes: 12, flipCap: 4096, budget: 700 * time.Millisecond, mutBudget: 150 * time.Millisecond, malBudget: 300 * time.Millisecond}
	if thorough {
		tp = tierParams{vals: 6, perClass: 0, flipBytes: 0, flipCap: 3000, truncAll: true, budget: 5 * time.Second, mutBudget: 1500 * time.Millisecond, malBudget: 4 * time.Second}
	}
	quickTp := tierParams{vals: 1, perClass: 2, flipBytes: 12, flipCap: 4096, budget: 700 * time.Millisecond, mutBudget: 150 * time.Millisecond, malBudget: 300 * time.Millisecond}

	want := map[string]bool{}
	for _, g := range strings.Split(*groups, ",") {
		want[strings.TrimSpace(g)] = true
	}
	t0 := time.Now()
	for _, g := range captureGroups {
		if !want["all"] && !want[g.name] {
			continue
		}
		curGroup = g.name
		tg := time.Now()
		if p, msg := guard(g.fn); p {
			fmt.Fprintf(os.Stderr, "capture group %s failed: %s\n", g.name, msg)
			return 2
		}
		fmt.Fprintf(os.Stderr, "[capture] %-12s %4d values so far (%.1fs)\n", g.name, len(captures), time.Since(tg).Seconds())
	}
	if len(capErrors) > 0 {
		for _, e := range capErrors {
			fmt.Fprintln(os.Stderr, "capture error:", e)
		}
		return 2
	}
	fmt.Fprintf(os.Stderr, "[capture] %d values of %d types in %.1fs\n", len(captures), len(typesSorted()), time.Since(t0).Seconds())
	if *list {
		for _, t := range typesSorted() {
			n, sz := 0, 0
			for _, c := range captures {
				if c.typ == t {
					n++
					sz = len(c.enc)
				}
			}
			fmt.Printf("%-70s %2d values, %6d bytes\n", t, n, sz)
		}
		return 0
	}
	if *replay != "" {
		return doReplay(*only, *replay)
	}

	w = tr.NewW(*out)
	defer w.Close()
	emit("hdr", map[string]any{"tier": *tier, "seed": seed, "testmode": testing.Testing(), "types": len(typesSorted()), "values": len(captures)})

	if *model != "" {
		if err := replayModel(*model); err != nil {
			fmt.Fprintln(os.Stderr, "model replay:", err)
			return 2
		}
	}
	var shI, shN int
	if _, err := fmt.Sscanf(*shard, "%d/%d", &shI, &shN); err != nil || shN < 1 {
		fmt.Fprintln(os.Stderr, "bad -shard")
		return 2
	}
	if shI == 0 {
		crafted()
	}

	pool := buildPool()
	byType := map[string][]*capture{}
	for _, c := range captures {
		byType[c.typ] = append(byType[c.typ], c)
	}
	for ti, t := range typesSorted() {
		if *only != "" && !strings.Contains(t, *only) {
			continue
		}
		if ti%shN != shI {
			continue
		}
		if time.Since(t0) > time.Duration(*deadline)*time.Second {
			tp = quickTp
		}
		campaign(t, byType[t], tp, pool, uint64(ti))
	}
	fmt.Fprintf(os.Stderr, "[done] %d lines in %.1fs\n", w.N, time.Since(t0).Seconds())
	return 0
}

// campaign logs everything about one type and finishes with its summary line.
func campaign(typ string, cs []*capture, tp tierParams, pool *leafPool, stream uint64) {
	rng := tr.PRand(seed, 1000+stream)
	// distinct encodings first
	sort.SliceStable(cs, func(i, j int) bool { return cs[i].name < cs[j].name })
	// the values that get mutated are the first tp.vals ones: put structurally different encodings first (one per container
	// shape), the richest shape (most arrays with two or more elements: multi-row shares, several levels, ...) at the front,
	// so that a small tier does not spend its values on structurally identical instances
	cs = shapeFirst(cs)
	cnt := map[string]int{}
	pos := map[string]int{} // number of applicable positions over the mutated values
	var nmut int
	exhaustive := tp.perClass == 0
	for vi, c := range cs {
		roundTrip(c)
		if vi >= tp.vals || (vi >= 1 && len(c.enc) > 10000) {
			continue
		}
		nmut++
		for _, s := range sites(c.tree) {
			switch s.n.mt {
			case mtMap:
				pos["conts"]++
				if len(s.n.kids) >= 2 {
					pos["maps"]++
				}
				if mapKind(s.n) == "struct" {
					pos["structs"]++
				}
			case mtArray, mtText:
				pos["conts"]++
			case mtBytes:
				pos["conts"]++
				if !s.isKey {
					pos["bstrs"]++
				}
			case mtTag:
				pos["tags"]++
			}
		}
		seenSite := map[string]bool{}
		counted := map[string]bool{}
		for _, k := range malformedClasses {
			counted[k] = true
		}
		// budgets: every class gets its share of wall time per value; the first sites of every class always run
		started := map[string]time.Time{}
		done := map[string]int{}
		pc := tp.perClass
		if pc == 0 && len(sites(c.tree)) > 600 {
			pc, exhaustive = 40, false // a very large encoding: the classes are sampled
		}
		want := func(cls string) bool {
			t, ok := started[cls]
			if !ok {
				t = time.Now()
				started[cls] = t
			}
			done[cls]++
			b := tp.mutBudget
			if counted[cls] {
				b = tp.malBudget
			}
			if done[cls] > 3 && time.Since(t) > b {
				if counted[cls] {
					exhaustive = false
				}
				return false
			}
			return true
		}
		structural(c, pc, rng, pool, cs, want, func(m mutation) {
			o := c.try(m.data)
			ev := map[string]any{"typ": typ, "name": c.name, "grp": c.group, "cls": m.cls, "var": m.variant, "path": m.path, "kind": m.kind,
				"res": o.res, "valid": o.valid, "regen": o.regen, "same": o.same, "canon": o.canon, "panic": o.panic_, "iface": c.iface}
			// the bytes are logged only for lines that can be reported (replay); accepted valid ones are not
			if o.panic_ || (o.res == "acc" && (o.valid == "f" || !o.regen || counted[m.cls])) {
				ev["hex"] = hexCap(m.data, 6000)
				ev["detail"] = o.detail
			}
			if o.panic_ {
				ev["site"] = siteOf(o.detail)
			}
			emit("mut", ev)
			k := m.cls + "|" + m.path
			if !seenSite[k] {
				seenSite[k] = true
				cnt[m.cls]++
			}
		})
		flips(c, tp, rng)
		truncs(c, tp, rng)
	}
	emit("sum", map[string]any{"typ": typ, "nvals": len(cs), "nmut": nmut, "full": exhaustive,
		"maps": pos["maps"], "structs": pos["structs"], "conts": pos["conts"], "tags": pos["tags"], "bstrs": pos["bstrs"],
		"dupkey": cnt["dupkey"], "unkkey": cnt["unkkey"], "indef": cnt["indef"], "trailing": cnt["trailing"],
		"bignum": cnt["bignum"], "tagdrop": cnt["tagdrop"], "tagswap": cnt["tagswap"]})
}

func roundTrip(c *capture) {
	// honest values: proofs are also verified after the round trip; mutated ones only get the structural predicate
	prfVerifyInValid = true
	defer func() { prfVerifyInValid = false }()
	ev := map[string]any{"typ": c.typ, "name": c.name, "grp": c.group, "len": len(c.enc), "iface": c.iface}
	var e2 []byte
	var err error
	p, msg := guard(func() { e2, err = c.re(c.orig) })
	ev["det"] = !p && err == nil && bytes.Equal(e2, c.enc)
	var x any
	pan := p
	detail := msg
	p, msg = guard(func() { x, err = c.dec(c.enc) })
	pan = pan || p
	detail += msg
	ev["dec"] = !p && err == nil
	ev["reenc"], ev["eq"], ev["valid"] = false, "na", "na"
	if !p && err == nil {
		var e3 []byte
		p, msg = guard(func() { e3, err = c.re(x) })
		pan = pan || p
		detail += msg
		ev["reenc"] = !p && err == nil && bytes.Equal(e3, c.enc)
		// encodings must not depend on map iteration order and the like: decode and re-encode a few more times
		for i := 0; i < 6 && ev["reenc"] == true && len(c.enc) < 20000; i++ {
			guard(func() {
				y, e := c.dec(c.enc)
				if e != nil {
					ev["reenc"] = false
					return
				}
				e4, e := c.re(y)
				if e != nil || !bytes.Equal(e4, c.enc) {
					ev["reenc"] = false
				}
			})
		}
		p, msg = guard(func() { ev["eq"] = c.eq(c.orig, x) })
		pan = pan || p
		detail += msg
		p, msg = guard(func() {
			v, d := c.valid(x)
			ev["valid"] = v
			detail += d
		})
		pan = pan || p
		detail += msg
	} else if err != nil {
		detail += err.Error()
	}
	ev["panic"] = pan
	if detail != "" {
		ev["detail"] = detail
		ev["hex"] = hexCap(c.enc, 6000)
	}
	if pan {
		ev["site"] = siteOf(detail)
	}
	emit("rt", ev)
}

// flips logs, per byte offset, the outcome of the eight single-bit flips.
func flips(c *capture, tp tierParams, rng *rand.Rand) {
	n := len(c.enc)
	var offs []int
	switch {
	case tp.flipBytes == 0 && n <= tp.flipCap:
		for i := 0; i < n; i++ {
			offs = append(offs, i)
		}
	default:
		k := tp.flipBytes
		if k == 0 {
			k = tp.flipCap / 4
		}
		if k > n {
			k = n
		}
		offs = rng.Perm(n)[:k]
		sort.Ints(offs)
	}
	start := time.Now()
	for _, off := range offs {
		if time.Since(start) > tp.budget {
			break
		}
		ev := map[string]any{"typ": c.typ, "name": c.name, "grp": c.group, "off": off, "n": 8}
		rej, acc, bad, pan, inv := 0, 0, 0, 0, 0
		for bit := 0; bit < 8; bit++ {
			b := append([]byte(nil), c.enc...)
			b[off] ^= 1 << bit
			o := c.try(b)
			if o.panic_ {
				pan++
				if _, ok := ev["site"]; !ok {
					ev["site"] = siteOf(o.detail)
					ev["hex"] = hexCap(b, 6000)
					ev["detail"] = o.detail
				}
			}
			if o.res == "rej" {
				rej++
				continue
			}
			acc++
			if o.valid == "f" {
				inv++
			}
			if o.valid == "f" || !o.regen {
				bad++
				if _, ok := ev["hex"]; !ok {
					ev["hex"] = hexCap(b, 6000)
					ev["detail"] = o.detail
					ev["bit"] = bit
				}
			}
		}
		ev["rej"], ev["acc"], ev["bad"], ev["inv"], ev["panics"] = rej, acc, bad, inv, pan
		emit("flip", ev)
	}
}

// truncs logs the outcome of decoding proper prefixes.
func truncs(c *capture, tp tierParams, rng *rand.Rand) {
	n := len(c.enc)
	var lens []int
	if tp.truncAll && n <= tp.flipCap {
		for i := 0; i < n; i++ {
			lens = append(lens, i)
		}
	} else {
		lens = []int{0, n - 1}
		for i := 0; i < 6 && n > 2; i++ {
			lens = append(lens, 1+rng.IntN(n-1))
		}
	}
	rej, acc, bad, pan, inv := 0, 0, 0, 0, 0
	ev := map[string]any{"typ": c.typ, "name": c.name, "grp": c.group}
	start := time.Now()
	cnt := 0
	for _, l := range lens {
		if time.Since(start) > tp.budget {
			break
		}
		cnt++
		o := c.try(c.enc[:l])
		if o.panic_ {
			pan++
			if _, ok := ev["site"]; !ok {
				ev["site"] = siteOf(o.detail)
				ev["hex"] = hexCap(c.enc[:l], 6000)
			}
		}
		if o.res == "rej" {
			rej++
			continue
		}
		acc++
		if _, ok := ev["hex"]; !ok {
			ev["hex"] = hexCap(c.enc[:l], 6000)
		}
		if o.valid == "f" {
			inv++
		}
		if o.valid == "f" || !o.regen {
			bad++
		}
	}
	ev["n"], ev["rej"], ev["acc"], ev["bad"], ev["inv"], ev["panics"] = cnt, rej, acc, bad, inv, pan
	emit("trunc", ev)
}

func doReplay(typ, hx string) int {
	var b []byte
	if _, err := fmt.Sscanf(hx, "%x", &b); err != nil {
		fmt.Fprintln(os.Stderr, "bad hex:", err)
		return 2
	}
	for _, c := range captures {
		if c.typ == typ {
			o := c.try(b)
			fmt.Printf("type=%s res=%s valid=%s regen=%v same=%v panic=%v detail=%s\n", typ, o.res, o.valid, o.regen, o.same, o.panic_, o.detail)
			return 0
		}
	}
	fmt.Fprintln(os.Stderr, "no captured value of type", typ)
	return 2
}

type captureGroup struct {
	name string
	fn   func()
}

var captureGroups []captureGroup

func group(name string, fn func()) { captureGroups = append(captureGroups, captureGroup{name, fn}) }


// shapeFirst reorders captures (stable): first one representative per distinct container shape, richest first, then the rest.
func shapeFirst(cs []*capture) []*capture {
	type info struct {
		sig  string
		rich int
	}
	inf := make([]info, len(cs))
	for i, c := range cs {
		var sb strings.Builder
		rich := 0
		for _, st := range sites(c.tree) {
			switch st.n.mt {
			case mtMap, mtArray:
				fmt.Fprintf(&sb, "%d:%d,", st.n.mt, len(st.n.kids))
				if st.n.mt == mtArray && len(st.n.kids) >= 2 {
					rich++
				}
			case mtTag:
				sb.WriteString("t,")
			}
		}
		inf[i] = info{sb.String(), rich}
	}
	seen := map[string]bool{}
	reps, rest := []int{}, []int{}
	for i := range cs {
		if !seen[inf[i].sig] {
			seen[inf[i].sig] = true
			reps = append(reps, i)
		} else {
			rest = append(rest, i)
		}
	}
	sort.SliceStable(reps, func(a, b int) bool { return inf[reps[a]].rich > inf[reps[b]].rich })
	out := make([]*capture, 0, len(cs))
	for _, i := range append(reps, rest...) {
		out = append(out, cs[i])
	}
	return out
}

package cbor

// Access structures (all five families), MSP, shares, verification vectors, BaseShard and public
// material from the trusted dealer, on k256 and on the toy group (generic code).

import (
	"errors"
	"fmt"
	"maps"
	"slices"
	"strings"

	"github.com/bronlabs/bron-crypto/pkg/base/algebra"
	"github.com/bronlabs/bron-crypto/pkg/base/curves/k256"
	ds "github.com/bronlabs/bron-crypto/pkg/base/datastructures"
	"github.com/bronlabs/bron-crypto/pkg/base/datastructures/hashset"
	"github.com/bronlabs/bron-crypto/pkg/mpc"
	"github.com/bronlabs/bron-crypto/pkg/mpc/dkg/trusteddealer"
	"github.com/bronlabs/bron-crypto/pkg/mpc/sharing"
	"github.com/bronlabs/bron-crypto/pkg/mpc/sharing/accessstructures"
	"github.com/bronlabs/bron-crypto/pkg/mpc/sharing/accessstructures/boolexpr"
	"github.com/bronlabs/bron-crypto/pkg/mpc/sharing/accessstructures/cnf"
	"github.com/bronlabs/bron-crypto/pkg/mpc/sharing/accessstructures/hierarchical"
	"github.com/bronlabs/bron-crypto/pkg/mpc/sharing/accessstructures/threshold"
	"github.com/bronlabs/bron-crypto/pkg/mpc/sharing/accessstructures/unanimity"
	"github.com/bronlabs/bron-crypto/pkg/mpc/sharing/scheme/isn"
	"github.com/bronlabs/bron-crypto/pkg/mpc/sharing/scheme/kw"
	"github.com/bronlabs/bron-crypto/pkg/mpc/sharing/scheme/kw/msp"
	"github.com/bronlabs/bron-crypto/pkg/mpc/sharing/scheme/shamir"
	"github.com/bronlabs/bron-crypto/pkg/mpc/sharing/vss/feldman"
	"github.com/bronlabs/bron-crypto/pkg/mpc/sharing/vss/pedersen"
	pedcom "github.com/bronlabs/bron-crypto/pkg/commitments/pedersencom"

	"verif/harness/toy"
	"verif/harness/tr"
)

func init() {
	group("access", captureAccess)
	group("sharing", func() {
		captureSharing("k256", k256.NewCurve(), k256.NewScalarField())
		toy.Setup(1019)
		captureSharing("toy", toy.NewGroup(), toy.NewScalarField())
		captureISN()
	})
}

func idset(ids ...sharing.ID) ds.Set[sharing.ID] { return hashset.NewComparable(ids...).Freeze() }

func sortedIDs(s ds.Set[sharing.ID]) []sharing.ID {
	l := s.List()
	slices.Sort(l)
	return l
}

// ---- validity predicates: the validating constructor re-run on the accessors of the decoded object ----

func validThreshold(a *threshold.Threshold) error {
	if a == nil {
		return errors.New("nil")
	}
	_, err := threshold.NewThresholdAccessStructure(a.Threshold(), a.Shareholders())
	return err
}

func validUnanimity(a *unanimity.Unanimity) error {
	if a == nil {
		return errors.New("nil")
	}
	_, err := unanimity.NewUnanimityAccessStructure(a.Shareholders())
	return err
}

func validCNF(a *cnf.CNF) error {
	if a == nil {
		return errors.New("nil")
	}
	if a.Shareholders().Contains(0) {
		return errors.New("shareholder 0")
	}
	_, err := cnf.NewCNFAccessStructure(slices.Collect(a.MaximalUnqualifiedSetsIter())...)
	return err
}

func validHier(a *hierarchical.HierarchicalConjunctiveThreshold) error {
	if a == nil {
		return errors.New("nil")
	}
	for _, l := range a.Levels() {
		if l == nil {
			return errors.New("nil level")
		}
		if l.Threshold() <= 0 {
			return errors.New("level threshold <= 0")
		}
		if l.Shareholders().Contains(0) {
			return errors.New("shareholder 0")
		}
	}
	_, err := hierarchical.NewHierarchicalConjunctiveThresholdAccessStructure(a.Levels()...)
	return err
}

// validGate re-builds the gate tree from the re-encoding through the public constructors.
func validGate(a *boolexpr.ThresholdGateAccessStructure) error {
	if a == nil {
		return errors.New("nil")
	}
	b, err := a.MarshalCBOR()
	if err != nil {
		return err
	}
	t, err := parse(b)
	if err != nil {
		return err
	}
	if t.mt == mtTag {
		t = t.kids[0]
	}
	var rootN *node
	for i := 0; i+1 < len(t.kids); i += 2 {
		if keyLabel(t.kids[i]) == "root" {
			rootN = t.kids[i+1]
		}
	}
	if rootN == nil {
		return errors.New("no root")
	}
	var build func(n *node) (*boolexpr.Node, error)
	build = func(n *node) (*boolexpr.Node, error) {
		if n.mt != mtMap {
			return nil, errors.New("node is not a map")
		}
		f := map[string]*node{}
		for i := 0; i+1 < len(n.kids); i += 2 {
			f[keyLabel(n.kids[i])] = n.kids[i+1]
		}
		if ch, ok := f["children"]; ok && len(ch.kids) > 0 {
			var kids []*boolexpr.Node
			for _, c := range ch.kids {
				k, err := build(c)
				if err != nil {
					return nil, err
				}
				kids = append(kids, k)
			}
			th := 0
			if tn, ok := f["threshold"]; ok {
				th = int(tn.arg)
				if tn.mt == mtNint {
					th = -1 - int(tn.arg)
				}
			}
			if th < 1 || th > len(kids) {
				return nil, fmt.Errorf("gate threshold %d out of range 1..%d", th, len(kids))
			}
			return boolexpr.Threshold(th, kids...), nil
		}
		at, ok := f["attr"]
		if !ok || at.arg == 0 {
			return nil, errors.New("attribute 0 / missing")
		}
		return boolexpr.ID(sharing.ID(at.arg)), nil
	}
	root, err := build(rootN)
	if err != nil {
		return err
	}
	b2, err := boolexpr.NewThresholdGateAccessStructure(root)
	if err != nil {
		return err
	}
	if !b2.Shareholders().Equal(a.Shareholders()) {
		return errors.New("shareholder universe differs from the leaves of the tree")
	}
	if a.Shareholders().Contains(0) {
		return errors.New("shareholder 0")
	}
	return nil
}

func validMonotone(a accessstructures.Monotone) error {
	switch x := a.(type) {
	case *threshold.Threshold:
		return validThreshold(x)
	case *unanimity.Unanimity:
		return validUnanimity(x)
	case *cnf.CNF:
		return validCNF(x)
	case *hierarchical.HierarchicalConjunctiveThreshold:
		return validHier(x)
	case *boolexpr.ThresholdGateAccessStructure:
		return validGate(x)
	case nil:
		return errors.New("nil access structure")
	}
	return fmt.Errorf("unexpected concrete type %T", a)
}

func eqMonotone(a, b accessstructures.Monotone) bool {
	if a == nil || b == nil {
		return false
	}
	if fmt.Sprintf("%T", a) != fmt.Sprintf("%T", b) || !a.Shareholders().Equal(b.Shareholders()) {
		return false
	}
	// same qualified sets on every subset of a small universe
	ids := sortedIDs(a.Shareholders())
	if len(ids) > 10 {
		ids = ids[:10]
	}
	for m := 0; m < 1<<len(ids); m++ {
		var sub []sharing.ID
		for i, id := range ids {
			if m>>i&1 == 1 {
				sub = append(sub, id)
			}
		}
		if a.IsQualified(sub...) != b.IsQualified(sub...) {
			return false
		}
	}
	return true
}

type namedAS struct {
	name string
	as   accessstructures.Monotone
}

func accessStructures() []namedAS {
	return []namedAS{
		{"thr2of3", must(threshold.NewThresholdAccessStructure(2, idset(1, 2, 3)))},
		{"thr3of5", must(threshold.NewThresholdAccessStructure(3, idset(10, 20, 30, 40, 300)))},
		{"una3", must(unanimity.NewUnanimityAccessStructure(idset(1, 2, 3)))},
		{"cnf", must(cnf.NewCNFAccessStructure(idset(1, 2), idset(3)))},
		{"hier", must(hierarchical.NewHierarchicalConjunctiveThresholdAccessStructure(hierarchical.WithLevel(1, 1, 2), hierarchical.WithLevel(2, 3, 4)))},
		{"gate", must(boolexpr.NewThresholdGateAccessStructure(boolexpr.Or(boolexpr.And(boolexpr.ID(1), boolexpr.ID(2)), boolexpr.Threshold(2, boolexpr.ID(2), boolexpr.ID(3), boolexpr.ID(4)))))},
	}
}

func captureAccess() {
	for _, na := range accessStructures() {
		switch x := na.as.(type) {
		case *threshold.Threshold:
			add("threshold.Threshold", na.name, x, func(a, b *threshold.Threshold) bool { return a.Equal(b) }, validThreshold)
		case *unanimity.Unanimity:
			add("unanimity.Unanimity", na.name, x, func(a, b *unanimity.Unanimity) bool { return a.Equal(b) }, validUnanimity)
		case *cnf.CNF:
			add("cnf.CNF", na.name, x, func(a, b *cnf.CNF) bool { return eqMonotone(a, b) }, validCNF)
		case *hierarchical.HierarchicalConjunctiveThreshold:
			add("hierarchical.HierarchicalConjunctiveThreshold", na.name, x, func(a, b *hierarchical.HierarchicalConjunctiveThreshold) bool { return eqMonotone(a, b) }, validHier)
			for i, l := range x.Levels() {
				add("hierarchical.ThresholdLevel", fmt.Sprintf("%s-l%d", na.name, i), l, func(a, b *hierarchical.ThresholdLevel) bool {
					return a.Threshold() == b.Threshold() && a.Shareholders().Equal(b.Shareholders())
				}, func(l *hierarchical.ThresholdLevel) error {
					if l.Threshold() <= 0 || l.Shareholders().Contains(0) || l.Shareholders().Size() == 0 {
						return errors.New("invalid level")
					}
					return nil
				})
			}
		case *boolexpr.ThresholdGateAccessStructure:
			add("boolexpr.ThresholdGateAccessStructure", na.name, x, func(a, b *boolexpr.ThresholdGateAccessStructure) bool { return eqMonotone(a, b) }, validGate)
		}
		// the same value through the interface type: the registered tag selects the concrete type
		kind := strings.TrimPrefix(strings.Split(fmt.Sprintf("%T", na.as), ".")[0], "*")
		c := add[accessstructures.Monotone]("accessstructures.Monotone("+kind+")", "iface-"+na.name, na.as, eqMonotone, validMonotone)
		c.iface = true
	}
}

// ---- sharing over a generic prime group ----

func validKWShare[S algebra.PrimeFieldElement[S]](s *kw.Share[S]) error {
	if s == nil {
		return errors.New("nil")
	}
	_, err := kw.NewShare(s.ID(), s.Value()...)
	return err
}

func validMSP[S algebra.PrimeFieldElement[S]](m *msp.MSP[S]) error {
	if m == nil || m.Matrix() == nil {
		return errors.New("nil")
	}
	r, c := m.Matrix().Dimensions()
	if r <= 0 || c <= 0 {
		return errors.New("empty matrix")
	}
	n := 0
	for i := 0; i < r; i++ {
		for j := 0; j < c; j++ {
			if _, err := m.Matrix().Get(i, j); err != nil {
				return fmt.Errorf("matrix dimensions inconsistent with data: %w", err)
			}
			n++
		}
	}
	_, err := msp.NewMSP(m.Matrix(), maps.Collect(m.RowsToHolders().Iter()))
	return err
}

func validBasePM[E algebra.PrimeGroupElement[E, S], S algebra.PrimeFieldElement[S]](p *mpc.BasePublicMaterial[E, S]) error {
	if p == nil {
		return errors.New("nil")
	}
	if err := validMSP(p.MSP()); err != nil {
		return err
	}
	_, err := mpc.NewBasePublicMaterial(p.MSP(), p.VerificationVector())
	return err
}

func validBaseShard[E algebra.PrimeGroupElement[E, S], S algebra.PrimeFieldElement[S]](s *mpc.BaseShard[E, S]) error {
	if s == nil {
		return errors.New("nil")
	}
	if err := validMSP(s.MSP()); err != nil {
		return err
	}
	if err := validKWShare(s.Share()); err != nil {
		return err
	}
	// private share matches the public data
	_, err := mpc.NewBaseShard(s.Share(), s.VerificationVector(), s.MSP())
	return err
}

func validVV[E algebra.PrimeGroupElement[E, S], S algebra.PrimeFieldElement[S]](v *feldman.VerificationVector[E, S]) error {
	if v == nil {
		return errors.New("nil")
	}
	_, err := feldman.NewVerificationVector(v.Value(), nil)
	if err != nil {
		return err
	}
	r, c := v.Value().Dimensions()
	for i := 0; i < r; i++ {
		for j := 0; j < c; j++ {
			if _, err := v.Value().Get(i, j); err != nil {
				return fmt.Errorf("dimensions inconsistent with data: %w", err)
			}
		}
	}
	return nil
}

func captureSharing[E algebra.PrimeGroupElement[E, S], S algebra.PrimeFieldElement[S]](g string, grp algebra.PrimeGroup[E, S], field algebra.PrimeField[S]) {
	T := func(s string) string { return s + "[" + g + "]" }
	prng := tr.Rng(seed, 11)
	for _, na := range accessStructures() {
		if g == "toy" && na.name != "thr2of3" && na.name != "cnf" {
			continue
		}
		// KW / MSP
		ks, err := kw.NewScheme(field, na.as)
		if err != nil {
			continue // e.g. hierarchical constraints on a small field
		}
		add(T("msp.MSP"), na.name, ks.MSP(), func(a, b *msp.MSP[S]) bool { return a.Equal(b) }, validMSP[S])
		kout, _ := must2(ks.DealRandom(prng))
		for _, id := range sortedIDs(na.as.Shareholders()) {
			sh, _ := kout.Shares().Get(id)
			add(T("kw.Share"), fmt.Sprintf("%s-p%d", na.name, id), sh, func(a, b *kw.Share[S]) bool { return a.Equal(b) }, validKWShare[S])
		}
		// Feldman
		fs := must(feldman.NewScheme(grp, na.as))
		fout, _ := must2(fs.DealRandom(prng))
		add(T("feldman.VerificationVector"), na.name, fout.VerificationMaterial(), func(a, b *feldman.VerificationVector[E, S]) bool { return a.Equal(b) }, validVV[E, S])
		df := must(feldman.NewLiftedDealerFunc(fout.VerificationMaterial(), fs.MSP()))
		for _, id := range sortedIDs(na.as.Shareholders()) {
			ls := must(df.ShareOf(id))
			add(T("feldman.LiftedShare"), fmt.Sprintf("%s-p%d", na.name, id), ls, func(a, b *feldman.LiftedShare[E, S]) bool { return a.Equal(b) },
				func(x *feldman.LiftedShare[E, S]) error {
					if x == nil {
						return errors.New("nil")
					}
					_, err := feldman.NewLiftedShare(x.ID(), x.Value()...)
					return err
				})
		}
		// Pedersen VSS
		key := must(pedcom.NewCommitmentKeyUnchecked(grp.Generator(), must(grp.Hash([]byte("verif-h")))))
		ps := must(pedersen.NewScheme(key, na.as))
		pout, _ := must2(ps.DealRandom(prng))
		add(T("pedersen.VerificationVector"), na.name, pout.VerificationMaterial(), func(a, b *pedersen.VerificationVector[E, S]) bool { return a.Equal(b) }, nil)
		for _, id := range sortedIDs(na.as.Shareholders()) {
			sh, _ := pout.Shares().Get(id)
			add(T("pedersen.Share"), fmt.Sprintf("%s-p%d", na.name, id), sh, func(a, b *pedersen.Share[S]) bool { return a.Equal(b) },
				func(x *pedersen.Share[S]) error {
					if x == nil {
						return errors.New("nil")
					}
					if x.ID() == 0 {
						return errors.New("id 0")
					}
					return nil
				})
		}
		// trusted dealer: shards and public material
		shards := must(trusteddealer.Deal(grp, na.as, prng))
		for _, id := range sortedIDs(na.as.Shareholders()) {
			sd, _ := shards.Get(id)
			add(T("mpc.BaseShard"), fmt.Sprintf("%s-p%d", na.name, id), sd, func(a, b *mpc.BaseShard[E, S]) bool { return a.Equal(b) }, validBaseShard[E, S])
			if id == sortedIDs(na.as.Shareholders())[0] {
				pm := must(mpc.NewBasePublicMaterial(sd.MSP(), sd.VerificationVector()))
				add(T("mpc.BasePublicMaterial"), na.name, pm, func(a, b *mpc.BasePublicMaterial[E, S]) bool { return a.Equal(b) }, validBasePM[E, S])
			}
		}
	}
	// Shamir
	thr := must(threshold.NewThresholdAccessStructure(2, idset(1, 2, 3)))
	ss := must(shamir.NewScheme(field, thr))
	sout, _ := must2(ss.DealRandom(prng))
	for _, id := range sortedIDs(thr.Shareholders()) {
		sh, _ := sout.Shares().Get(id)
		add(T("shamir.Share"), fmt.Sprintf("p%d", id), sh, func(a, b *shamir.Share[S]) bool { return a.Equal(b) },
			func(x *shamir.Share[S]) error {
				if x == nil {
					return errors.New("nil")
				}
				_, err := shamir.NewShare(x.ID(), x.Value(), nil)
				return err
			})
	}
}

// ISN (CNF) shares over the k256 scalar field as an additive group (map keyed by a bit set: uint64 keys on the wire).
func captureISN() {
	prng := tr.Rng(seed, 12)
	ac := must(cnf.NewCNFAccessStructure(idset(1, 2), idset(3)))
	sc := must(isn.NewFiniteScheme[*k256.Scalar](k256.NewScalarField(), ac))
	out, _ := must2(sc.DealRandom(prng))
	for _, id := range sortedIDs(ac.Shareholders()) {
		sh, _ := out.Shares().Get(id)
		add("isn.Share[k256]", fmt.Sprintf("p%d", id), sh, func(a, b *isn.Share[*k256.Scalar]) bool { return a.Equal(b) },
			func(x *isn.Share[*k256.Scalar]) error {
				if x == nil || x.Value() == nil {
					return errors.New("nil")
				}
				_, err := isn.NewShare(x.ID(), maps.Collect(x.Value().Iter()))
				return err
			})
	}
}

func must2[A, B any](a A, b B, err error) (A, B) {
	if err != nil {
		panic(fmt.Sprintf("capture: %v", err))
	}
	return a, b
}

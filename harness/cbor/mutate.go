package cbor

// Structure mutations of captured encodings. Every mutation is described by (class, variant, path);
// the result of decoding the mutated bytes with the real decoder is logged, nothing is judged.

import (
	"fmt"
	"math/rand/v2"
	"strings"
)

// Classes whose result must be a rejection (decided by CborTrace, listed here only for sampling priority).
var malformedClasses = []string{"dupkey", "unkkey", "indef", "trailing", "bignum", "tagdrop", "tagswap"}

const unknownTag = 59999 // not registered anywhere in /repo (internal/tags are < 10000 or so; checked at start-up)

type mutation struct {
	cls, variant, path, kind string
	data                     []byte
}

func null() *node { return &node{mt: mtSimp, arg: 22, ai: 22} }

func textNode(s string) *node { return &node{mt: mtText, payload: []byte(s)} }

func flipCase(s string) string {
	if s == "" {
		return "X"
	}
	r := []byte(s)
	if r[0] >= 'a' && r[0] <= 'z' {
		r[0] -= 32
	} else if r[0] >= 'A' && r[0] <= 'Z' {
		r[0] += 32
	} else {
		return s + "X"
	}
	return string(r)
}

// leafPool holds leaves of other captured values for field swaps, keyed by kind and size class.
type leafPool struct {
	byKey map[string][]*node
}

func poolKey(n *node) string {
	switch n.mt {
	case mtBytes:
		return fmt.Sprintf("b%d", len(n.payload))
	case mtUint:
		return "u"
	case mtText:
		return "t"
	}
	return ""
}

func buildPool() *leafPool {
	p := &leafPool{byKey: map[string][]*node{}}
	seen := map[string]bool{}
	for _, c := range captures {
		if c.tree == nil {
			continue
		}
		for _, s := range sites(c.tree) {
			if s.isKey {
				continue
			}
			k := poolKey(s.n)
			if k == "" || (s.n.mt == mtText) {
				continue
			}
			id := k + ":" + string(s.n.bytes())
			if seen[id] || len(p.byKey[k]) >= 64 {
				continue
			}
			seen[id] = true
			p.byKey[k] = append(p.byKey[k], s.n)
		}
	}
	return p
}

// structural yields the mutations of one captured value. perClass bounds the number of sites used
// per class (0 = all). rng selects sites when bounded.
// Mutations are streamed to sink; want(cls) is asked before a mutated encoding is built (budgets).
func structural(c *capture, perClass int, rng *rand.Rand, pool *leafPool, others []*capture, want func(cls string) bool, sink func(m mutation)) {
	root := c.tree
	ss := sites(root)
	pick := func(idxs []int) []int {
		if perClass <= 0 || len(idxs) <= perClass {
			return idxs
		}
		// always keep the first and the last site, sample the rest
		keep := []int{idxs[0], idxs[len(idxs)-1]}
		rest := append([]int(nil), idxs[1:len(idxs)-1]...)
		rng.Shuffle(len(rest), func(i, j int) { rest[i], rest[j] = rest[j], rest[i] })
		for len(keep) < perClass && len(rest) > 0 {
			keep = append(keep, rest[0])
			rest = rest[1:]
		}
		return keep
	}
	sel := func(pred func(s site) bool) []int {
		var idxs []int
		for i, s := range ss {
			if pred(s) {
				idxs = append(idxs, i)
			}
		}
		return pick(idxs)
	}
	emit := func(cls, variant string, ord int, f func(s site, root *node) *node) {
		if !want(cls) {
			return
		}
		sink(mutation{cls: cls, variant: variant, path: ss[ord].path, kind: kindOf(ss[ord].n), data: mutateAt(root, ord, f)})
	}

	// ---- malformed containers ----
	for _, i := range sel(func(s site) bool { return s.n.mt == mtMap && len(s.n.kids) >= 2 }) {
		emit("dupkey", "first", i, func(s site, r *node) *node {
			k := append([]*node{s.n.kids[0].clone(), s.n.kids[1].clone()}, s.n.kids...)
			s.n.kids = k
			return r
		})
		emit("dupkey", "last", i, func(s site, r *node) *node {
			n := len(s.n.kids)
			s.n.kids = append(s.n.kids, s.n.kids[n-2].clone(), s.n.kids[n-1].clone())
			return r
		})
		if len(s2kids(ss[i])) >= 4 {
			emit("dupkey", "othervalue", i, func(s site, r *node) *node {
				// the first key again at the end, bound to the value of the last pair
				n := len(s.n.kids)
				s.n.kids = append(s.n.kids, s.n.kids[0].clone(), s.n.kids[n-1].clone())
				return r
			})
		}
	}
	for _, i := range sel(func(s site) bool { return s.n.mt == mtMap && mapKind(s.n) == "struct" }) {
		emit("unkkey", "fresh", i, func(s site, r *node) *node {
			s.n.kids = append(s.n.kids, textNode("zzUnknownField"), &node{mt: mtUint, arg: 0})
			sortMapCanonical(s.n)
			return r
		})
		emit("unkkey", "case", i, func(s site, r *node) *node {
			// a case variant of an existing field name is an unknown field under case-sensitive matching
			nk := textNode(flipCase(string(s.n.kids[0].payload)))
			s.n.kids = append(s.n.kids, nk, s.n.kids[1].clone())
			sortMapCanonical(s.n)
			return r
		})
	}
	for _, i := range sel(func(s site) bool {
		return s.n.mt == mtMap || s.n.mt == mtArray || s.n.mt == mtBytes || s.n.mt == mtText
	}) {
		emit("indef", "", i, func(s site, r *node) *node {
			if s.n.mt == mtBytes || s.n.mt == mtText {
				chunk := &node{mt: s.n.mt, payload: s.n.payload}
				nn := &node{mt: s.n.mt, indef: true, kids: []*node{chunk}}
				return replace(s, r, nn)
			}
			s.n.indef = true
			return r
		})
	}
	for _, t := range []struct {
		v string
		b []byte
	}{{"zero", []byte{0}}, {"null", []byte{0xf6}}, {"break", []byte{0xff}}, {"self", c.enc}, {"emptymap", []byte{0xa0}}} {
		if want("trailing") {
			sink(mutation{cls: "trailing", variant: t.v, path: "", kind: kindOf(root), data: append(append([]byte(nil), c.enc...), t.b...)})
		}
	}
	for _, i := range sel(func(s site) bool { return s.n.mt == mtBytes && !s.isKey }) {
		emit("bignum", "tag2", i, func(s site, r *node) *node {
			return replace(s, r, &node{mt: mtTag, arg: 2, kids: []*node{s.n}})
		})
		emit("bignum", "tag3", i, func(s site, r *node) *node {
			return replace(s, r, &node{mt: mtTag, arg: 3, kids: []*node{s.n}})
		})
	}
	for _, i := range sel(func(s site) bool { return s.n.mt == mtTag }) {
		emit("tagdrop", "", i, func(s site, r *node) *node { return replace(s, r, s.n.kids[0]) })
		emit("tagswap", "", i, func(s site, r *node) *node { s.n.arg = unknownTag; return r })
	}

	// ---- structure-preserving changes of content: accepted or rejected, never invalid ----
	for _, i := range sel(func(s site) bool { return s.n.mt == mtMap && len(s.n.kids) >= 2 }) {
		np := len(ss[i].n.kids) / 2
		for p := 0; p < np; p++ {
			p := p
			emit("delkey", keyLabel(ss[i].n.kids[2*p]), i, func(s site, r *node) *node {
				s.n.kids = append(append([]*node(nil), s.n.kids[:2*p]...), s.n.kids[2*p+2:]...)
				return r
			})
		}
	}
	for _, i := range sel(func(s site) bool { return s.n.mt == mtMap && mapKind(s.n) == "assoc" }) {
		emit("assockey", "fresh", i, func(s site, r *node) *node {
			var mx uint64
			for j := 0; j < len(s.n.kids); j += 2 {
				if s.n.kids[j].mt == mtUint && s.n.kids[j].arg > mx {
					mx = s.n.kids[j].arg
				}
			}
			s.n.kids = append(s.n.kids, &node{mt: mtUint, arg: mx + 1}, s.n.kids[1].clone())
			sortMapCanonical(s.n)
			return r
		})
		emit("assockey", "zero", i, func(s site, r *node) *node {
			s.n.kids = append(s.n.kids, &node{mt: mtUint, arg: 0}, s.n.kids[1].clone())
			sortMapCanonical(s.n)
			return r
		})
	}
	// arrays are few and each carries its own length rule (share components, matrix rows, levels): up to 16 of them all run
	arrIdx := []int{}
	for i, s := range ss {
		if s.n.mt == mtArray {
			arrIdx = append(arrIdx, i)
		}
	}
	if len(arrIdx) > 16 {
		arrIdx = pick(arrIdx)
	}
	for _, i := range arrIdx {
		emit("arr", "empty", i, func(s site, r *node) *node { s.n.kids = nil; return r })
		if len(ss[i].n.kids) > 0 {
			emit("arr", "droplast", i, func(s site, r *node) *node { s.n.kids = s.n.kids[:len(s.n.kids)-1]; return r })
			emit("arr", "duplast", i, func(s site, r *node) *node {
				s.n.kids = append(s.n.kids, s.n.kids[len(s.n.kids)-1].clone())
				return r
			})
			emit("arr", "reverse", i, func(s site, r *node) *node {
				for a, b := 0, len(s.n.kids)-1; a < b; a, b = a+1, b-1 {
					s.n.kids[a], s.n.kids[b] = s.n.kids[b], s.n.kids[a]
				}
				return r
			})
		}
	}
	for _, i := range sel(func(s site) bool { return !s.isKey && s.parent != nil }) {
		emit("null", "", i, func(s site, r *node) *node { return replace(s, r, null()) })
	}
	for _, i := range sel(func(s site) bool { return !s.isKey }) {
		emit("tagwrap", "", i, func(s site, r *node) *node {
			return replace(s, r, &node{mt: mtTag, arg: unknownTag, kids: []*node{s.n}})
		})
	}
	for _, i := range sel(func(s site) bool { return !s.isKey }) {
		emit("retype", "", i, func(s site, r *node) *node {
			var nn *node
			switch s.n.mt {
			case mtUint, mtNint:
				nn = &node{mt: mtBytes, payload: []byte{byte(s.n.arg)}}
			case mtBytes, mtText:
				nn = &node{mt: mtUint, arg: uint64(len(s.n.payload))}
			case mtMap:
				nn = &node{mt: mtArray}
			case mtArray:
				nn = &node{mt: mtMap}
			default:
				nn = &node{mt: mtUint, arg: 1}
			}
			return replace(s, r, nn)
		})
	}
	for _, i := range sel(func(s site) bool { return (s.n.mt == mtUint || s.n.mt == mtNint) && !s.isKey }) {
		for _, v := range []struct {
			name string
			n    *node
		}{
			{"0", &node{mt: mtUint, arg: 0}},
			{"1", &node{mt: mtUint, arg: 1}},
			{"+1", &node{mt: mtUint, arg: ss[i].n.arg + 1}},
			{"2^16", &node{mt: mtUint, arg: 1 << 16}},
			{"2^31", &node{mt: mtUint, arg: 1 << 31}},
			{"2^63", &node{mt: mtUint, arg: 1 << 63}},
			{"max", &node{mt: mtUint, arg: ^uint64(0)}},
			{"-1", &node{mt: mtNint, arg: 0}},
			{"min", &node{mt: mtNint, arg: ^uint64(0)}},
		} {
			v := v
			emit("uint", v.name, i, func(s site, r *node) *node { return replace(s, r, v.n) })
		}
	}
	for _, i := range sel(func(s site) bool { return (s.n.mt == mtUint || s.n.mt == mtNint) && s.isKey }) {
		for _, v := range []uint64{0, ss[i].n.arg + 1, ^uint64(0)} {
			v := v
			emit("keyval", fmt.Sprint(v), i, func(s site, r *node) *node {
				s.parent.kids[s.idx] = &node{mt: mtUint, arg: v}
				sortMapCanonical(s.parent)
				return r
			})
		}
	}
	for _, i := range sel(func(s site) bool { return s.n.mt == mtBytes && !s.isKey }) {
		pl := ss[i].n.payload
		alts := []struct {
			name string
			p    []byte
		}{
			{"empty", nil},
			{"zeros", make([]byte, len(pl))},
			{"ones", bytesOf(0xff, len(pl))},
			{"append0", append(append([]byte(nil), pl...), 0)},
		}
		if len(pl) > 0 {
			alts = append(alts, struct {
				name string
				p    []byte
			}{"droplast", pl[:len(pl)-1]}, struct {
				name string
				p    []byte
			}{"dropfirst", pl[1:]}, struct {
				name string
				p    []byte
			}{"prepend0", append([]byte{0}, pl...)})
		}
		for _, a := range alts {
			a := a
			emit("bytes", a.name, i, func(s site, r *node) *node {
				return replace(s, r, &node{mt: mtBytes, payload: a.p})
			})
		}
		if strings.HasPrefix(ss[i].path, "") && len(pl) > 1 && pl[0] >= 0x80 && pl[0] <= 0xbf {
			// a byte string that itself holds CBOR (nested encoding): trailing byte inside it
			emit("bytes", "innertrailing", i, func(s site, r *node) *node {
				return replace(s, r, &node{mt: mtBytes, payload: append(append([]byte(nil), pl...), 0xf6)})
			})
		}
	}
	// field swap: a leaf of the same kind and size taken from another captured value
	for _, i := range sel(func(s site) bool { return !s.isKey && poolKey(s.n) != "" && s.n.mt != mtText }) {
		cands := pool.byKey[poolKey(ss[i].n)]
		self := string(ss[i].n.bytes())
		n := 0
		start := 0
		if len(cands) > 0 {
			start = rng.IntN(len(cands))
		}
		for j := 0; j < len(cands) && n < 3; j++ {
			cand := cands[(start+j)%len(cands)]
			if string(cand.bytes()) == self {
				continue
			}
			n++
			emit("swap", fmt.Sprintf("pool%d", n), i, func(s site, r *node) *node { return replace(s, r, cand.clone()) })
		}
	}
	// field swap: the subtree at the same path of another value of the same type
	for oi, o := range others {
		if o == c || o.tree == nil || oi > 2 {
			continue
		}
		byPath := map[string]*node{}
		for _, s := range sites(o.tree) {
			if !s.isKey {
				byPath[s.path] = s.n
			}
		}
		for _, i := range sel(func(s site) bool {
			if s.isKey || s.parent == nil {
				return false
			}
			on, ok := byPath[s.path]
			return ok && string(on.bytes()) != string(s.n.bytes())
		}) {
			on := byPath[ss[i].path]
			emit("swap", "peer:"+o.name, i, func(s site, r *node) *node { return replace(s, r, on.clone()) })
		}
	}
}

func s2kids(s site) []*node { return s.n.kids }

func bytesOf(b byte, n int) []byte {
	o := make([]byte, n)
	for i := range o {
		o[i] = b
	}
	return o
}

package cbor

// Constructor-rule violations for keys, signatures and Paillier material (see craft.go).

import (
	"strings"

	"github.com/bronlabs/bron-crypto/pkg/base/nt/znstar"

	"verif/harness/tr"
)

func init() { craftFns = append(craftFns, craftKeys) }

func craftKeys() {
	zero32 := bytesN(make([]byte, 32))
	// ECDSA: r, s in [1, n-1]; public key not the identity
	E := "ecdsa.Signature[k256]"
	if c := capOf(E, ""); c != nil {
		craft(E, c.name, "none", nil)
		craft(E, c.name, "r = 0", craftSet("/r/fieldBytes", zero32))
		craft(E, c.name, "s = 0", craftSet("/s/fieldBytes", zero32))
	}
	EP := "ecdsa.PublicKey[k256]"
	if c := capOf(EP, ""); c != nil {
		craft(EP, c.name, "none", nil)
		craft(EP, c.name, "identity point", craftSet("/publicKey/compressedBytes", bytesN(make([]byte, 33))))
		craft(EP, c.name, "not a curve point", craftSet("/publicKey/compressedBytes", hexN(k256NoPoint)))
	}
	SP := "schnorrlike.PublicKey[k256]"
	if c := capOf(SP, ""); c != nil {
		craft(SP, c.name, "none", nil)
		craft(SP, c.name, "identity point", craftSet("/publicKey/compressedBytes", bytesN(make([]byte, 33))))
	}
	SS := "schnorrlike.Signature[k256]"
	if c := capOf(SS, ""); c != nil {
		craft(SS, c.name, "none", nil)
		craft(SS, c.name, "s = 0", craftSet("/s/fieldBytes", zero32))
	}
	// BLS: public keys and signatures are non-identity points of the prime-order subgroups
	for _, v := range []string{"short", "long"} {
		// compressed identity of G1 (48 bytes) / G2 (96 bytes): c0 followed by zeros
		idG1 := "c0" + strings.Repeat("00", 47)
		idG2 := "c0" + strings.Repeat("00", 95)
		pkID, sigID := idG1, idG2
		if v == "long" {
			pkID, sigID = idG2, idG1
		}
		BP := "bls.PublicKey[" + v + "]"
		if c := capOf(BP, ""); c != nil {
			craft(BP, c.name, "none", nil)
			craft(BP, c.name, "identity point", craftSet("/V/compressedBytes", hexN(pkID)))
		}
		BS := "bls.Signature[" + v + "]"
		if c := capOf(BS, ""); c != nil {
			craft(BS, c.name, "none", nil)
			craft(BS, c.name, "identity point", craftSet("/v/compressedBytes", hexN(sigID)))
		}
	}
	PC := "pedersencom.CommitmentKey[k256]"
	if c := capOf(PC, ""); c != nil {
		craft(PC, c.name, "none", nil)
		craft(PC, c.name, "g = h", func(root *node) (*node, error) {
			s, _ := siteAt(root, "/g/compressedBytes")
			return craftSet("/h/compressedBytes", s.n)(root)
		})
		craft(PC, c.name, "h identity", craftSet("/h/compressedBytes", bytesN(make([]byte, 33))))
	}
	// Paillier: modulus floor (this is a plain binary: testing.Testing() is false, the floor is active)
	if c := capOf("paillier.PublicKey", ""); c != nil {
		small := must(znstar.SamplePaillierGroup(1024, tr.Rng(seed, 71)))
		sk, err := parse(must(small.MarshalCBOR()))
		must0(err)
		pk, err := parse(must(small.ForgetOrder().MarshalCBOR()))
		must0(err)
		craft("paillier.PublicKey", c.name, "none", nil)
		craft("paillier.PublicKey", c.name, "modulus below the floor (1024 bits)", craftSet("/group", pk))
		mid := must(znstar.SamplePaillierGroup(2048, tr.Rng(seed, 72)))
		pk2, err := parse(must(mid.ForgetOrder().MarshalCBOR()))
		must0(err)
		craft("paillier.PublicKey", c.name, "modulus below the floor (2048 bits)", craftSet("/group", pk2))
		if s := capOf("paillier.SecretKey", ""); s != nil {
			craft("paillier.SecretKey", s.name, "none", nil)
			craft("paillier.SecretKey", s.name, "modulus below the floor (1024 bits)", craftSet("/group", sk))
			craft("paillier.SecretKey", s.name, "p = q", func(root *node) (*node, error) {
				q, _ := siteAt(root, "/group/#5014/q/natPlus/natBytes")
				return craftSet("/group/#5014/p/natPlus/natBytes", q.n)(root)
			})
			craft("paillier.SecretKey", s.name, "p composite", func(root *node) (*node, error) {
				p, _ := siteAt(root, "/group/#5014/p/natPlus/natBytes")
				b := append([]byte(nil), p.n.payload...)
				b[len(b)-1] ^= 4
				return craftSet("/group/#5014/p/natPlus/natBytes", bytesN(b))(root)
			})
		}
		if ct := capOf("paillier.Ciphertext", ""); ct != nil {
			craft("paillier.Ciphertext", ct.name, "none", nil)
			craft("paillier.Ciphertext", ct.name, "ciphertext 0 (not a unit)", craftSet("/c/#5017/v/value/natBytes", bytesN([]byte{0})))
			craft("paillier.Ciphertext", ct.name, "n^2 inconsistent with n", func(root *node) (*node, error) {
				s, _ := siteAt(root, "/c/#5017/n/natPlus/natBytes")
				b := append([]byte(nil), s.n.payload...)
				b[len(b)-1] ^= 2
				return craftSet("/c/#5017/n/natPlus/natBytes", bytesN(b))(root)
			})
		}
	}
}

package cbor

// Curve points / scalars / base field elements of every curve, num / numct / modular / znstar values,
// matrices and polynomials.

import (
	"errors"
	"fmt"
	"io"

	"github.com/bronlabs/bron-crypto/pkg/base/ct"
	"github.com/bronlabs/bron-crypto/pkg/base/curves/curve25519"
	"github.com/bronlabs/bron-crypto/pkg/base/curves/edwards25519"
	"github.com/bronlabs/bron-crypto/pkg/base/curves/k256"
	"github.com/bronlabs/bron-crypto/pkg/base/curves/p256"
	"github.com/bronlabs/bron-crypto/pkg/base/curves/pairable/bls12381"
	"github.com/bronlabs/bron-crypto/pkg/base/curves/pasta"
	"github.com/bronlabs/bron-crypto/pkg/base/mat"
	"github.com/bronlabs/bron-crypto/pkg/base/nt/modular"
	"github.com/bronlabs/bron-crypto/pkg/base/nt/num"
	"github.com/bronlabs/bron-crypto/pkg/base/nt/numct"
	"github.com/bronlabs/bron-crypto/pkg/base/nt/znstar"
	"github.com/bronlabs/bron-crypto/pkg/base/polynomials"

	"verif/harness/tr"
)

func init() {
	group("curves", captureCurves)
	group("num", captureNum)
	group("znstar", captureZnstar)
	group("mat", captureMat)
}

// ---- curves ----

type ecurve[P any, F any] interface {
	Random(io.Reader) (P, error)
	OpIdentity() P
	FromAffine(x, y F) (P, error)
}

type epoint[P any, F any] interface {
	AffineX() (F, error)
	AffineY() (F, error)
	IsTorsionFree() bool
	IsOpIdentity() bool
	Equal(P) bool
	Op(P) P
}

type efield[F any] interface {
	Random(io.Reader) (F, error)
	Zero() F
	One() F
	FromBytes([]byte) (F, error)
}

type eelem[F any] interface {
	Equal(F) bool
	Bytes() []byte
}

func capPoints[P epoint[P, F], F any](typ string, c ecurve[P, F], g P, primeOrder bool, stream uint64, extra ...func(P) error) {
	prng := tr.Rng(seed, stream)
	r := must(c.Random(prng))
	pts := []struct {
		n string
		p P
	}{{"g", g}, {"2g", g.Op(g)}, {"rnd", r}, {"id", c.OpIdentity()}}
	for _, x := range pts {
		add(typ, x.n, x.p, func(a, b P) bool { return a.Equal(b) }, func(p P) error {
			if any(p) == nil {
				return errors.New("nil")
			}
			if p.IsOpIdentity() {
				return nil
			}
			if primeOrder && !p.IsTorsionFree() {
				return errors.New("point outside the prime-order subgroup")
			}
			for _, f := range extra {
				if err := f(p); err != nil {
					return err
				}
			}
			ax, err := p.AffineX()
			if err != nil {
				return err
			}
			ay, err := p.AffineY()
			if err != nil {
				return err
			}
			// on-curve through the affine constructor (a code path different from decompression)
			q, err := c.FromAffine(ax, ay)
			if err != nil {
				return fmt.Errorf("not on the curve: %w", err)
			}
			if !q.Equal(p) {
				return errors.New("affine round trip differs")
			}
			return nil
		})
	}
}

func capField[F eelem[F]](typ string, f efield[F], stream uint64) {
	prng := tr.Rng(seed, stream)
	vals := []struct {
		n string
		v F
	}{{"zero", f.Zero()}, {"one", f.One()}, {"rnd", must(f.Random(prng))}, {"rnd2", must(f.Random(prng))}}
	for _, x := range vals {
		add(typ, x.n, x.v, func(a, b F) bool { return a.Equal(b) }, func(v F) error {
			// canonical: the byte form is accepted by the field constructor and gives the same element
			w, err := f.FromBytes(v.Bytes())
			if err != nil {
				return err
			}
			if !w.Equal(v) {
				return errors.New("Bytes/FromBytes round trip differs")
			}
			return nil
		})
	}
}

func captureCurves() {
	capPoints[*k256.Point, *k256.BaseFieldElement]("k256.Point", k256.NewCurve(), k256.NewCurve().Generator(), true, 21)
	capField[*k256.Scalar]("k256.Scalar", k256.NewScalarField(), 22)
	capField[*k256.BaseFieldElement]("k256.BaseFieldElement", k256.NewBaseField(), 23)

	capPoints[*p256.Point, *p256.BaseFieldElement]("p256.Point", p256.NewCurve(), p256.NewCurve().Generator(), true, 24)
	capField[*p256.Scalar]("p256.Scalar", p256.NewScalarField(), 25)
	capField[*p256.BaseFieldElement]("p256.BaseFieldElement", p256.NewBaseField(), 26)

	capPoints[*edwards25519.Point, *edwards25519.BaseFieldElement]("edwards25519.Point", edwards25519.NewCurve(), edwards25519.NewCurve().PrimeSubGroupGenerator(), false, 27)
	capPoints[*edwards25519.PrimeSubGroupPoint, *edwards25519.BaseFieldElement]("edwards25519.PrimeSubGroupPoint", edwards25519.NewPrimeSubGroup(), edwards25519.NewPrimeSubGroup().Generator(), true, 28,
		func(p *edwards25519.PrimeSubGroupPoint) error { // IsTorsionFree of the subgroup type is constant true: ask the full-curve point
			if !p.AsPoint().IsTorsionFree() {
				return errors.New("point outside the prime-order subgroup")
			}
			return nil
		})
	capField[*edwards25519.Scalar]("edwards25519.Scalar", edwards25519.NewScalarField(), 29)
	capField[*edwards25519.BaseFieldElement]("edwards25519.BaseFieldElement", edwards25519.NewBaseField(), 30)

	capPoints[*curve25519.Point, *curve25519.BaseFieldElement]("curve25519.Point", curve25519.NewCurve(), curve25519.NewCurve().PrimeSubGroupGenerator(), false, 31)
	capPoints[*curve25519.PrimeSubGroupPoint, *curve25519.BaseFieldElement]("curve25519.PrimeSubGroupPoint", curve25519.NewPrimeSubGroup(), curve25519.NewPrimeSubGroup().Generator(), true, 32,
		func(p *curve25519.PrimeSubGroupPoint) error {
			if !p.AsPoint().IsTorsionFree() {
				return errors.New("point outside the prime-order subgroup")
			}
			return nil
		})

	capPoints[*pasta.PallasPoint, *pasta.FpFieldElement]("pasta.PallasPoint", pasta.NewPallasCurve(), pasta.NewPallasCurve().Generator(), true, 33)
	capPoints[*pasta.VestaPoint, *pasta.FqFieldElement]("pasta.VestaPoint", pasta.NewVestaCurve(), pasta.NewVestaCurve().Generator(), true, 34)
	capField[*pasta.FpFieldElement]("pasta.FpFieldElement", pasta.NewPallasBaseField(), 35)
	capField[*pasta.FqFieldElement]("pasta.FqFieldElement", pasta.NewVestaBaseField(), 36)

	capPoints[*bls12381.PointG1, *bls12381.BaseFieldElementG1]("bls12381.PointG1", bls12381.NewG1(), bls12381.NewG1().Generator(), true, 37)
	capPoints[*bls12381.PointG2, *bls12381.BaseFieldElementG2]("bls12381.PointG2", bls12381.NewG2(), bls12381.NewG2().Generator(), true, 38)
	capField[*bls12381.Scalar]("bls12381.Scalar", bls12381.NewScalarField(), 39)
	capField[*bls12381.BaseFieldElementG1]("bls12381.BaseFieldElementG1", bls12381.NewG1BaseField(), 40)
	capField[*bls12381.BaseFieldElementG2]("bls12381.BaseFieldElementG2", bls12381.NewG2BaseField(), 41)
}

// ---- num / numct / modular ----

func natOf(s string) *numct.Nat {
	var n numct.Nat
	b := []byte(nil)
	if _, err := fmt.Sscanf(s, "%x", &b); err != nil {
		panic(err)
	}
	if n.SetBytes(b) == ct.False {
		panic("natOf")
	}
	return &n
}

func captureNum() {
	big := "f123456789abcdef0123456789abcdef0123456789abcdef0123456789abcdef01"
	for _, x := range []struct {
		n string
		v *numct.Nat
	}{{"zero", numct.NewNat(0)}, {"small", numct.NewNat(42)}, {"big", natOf(big)}} {
		add("numct.Nat", x.n, x.v, func(a, b *numct.Nat) bool { return a.Equal(b) == ct.True }, nil)
	}
	for _, x := range []struct {
		n string
		v int64
	}{{"zero", 0}, {"pos", 42}, {"neg", -42}, {"min", -2147483648}} {
		add("numct.Int", x.n, numct.NewInt(x.v), func(a, b *numct.Int) bool { return a.Equal(b) == ct.True }, nil)
	}
	for _, v := range []uint64{3, 100, 65537} {
		m, ok := numct.NewModulus(numct.NewNat(v))
		if ok != ct.True {
			panic("modulus")
		}
		add("numct.Modulus", fmt.Sprint(v), m, func(a, b *numct.Modulus) bool { return a.Nat().Equal(b.Nat()) == ct.True },
			func(m *numct.Modulus) error {
				if m == nil || m.Nat() == nil || m.Nat().IsZero() == ct.True {
					return errors.New("zero / nil modulus")
				}
				return nil
			})
	}
	mb, _ := numct.NewModulus(natOf(big))
	add("numct.Modulus", "big", mb, func(a, b *numct.Modulus) bool { return a.Nat().Equal(b.Nat()) == ct.True }, nil)

	for _, v := range []uint64{1, 42, ^uint64(0)} {
		add("num.NatPlus", fmt.Sprint(v), must(num.NPlus().FromUint64(v)), func(a, b *num.NatPlus) bool { return a.Equal(b) },
			func(n *num.NatPlus) error {
				if n == nil || n.Value() == nil || n.Value().IsZero() == ct.True {
					return errors.New("NatPlus must be > 0")
				}
				return nil
			})
	}
	for _, v := range []uint64{0, 42, ^uint64(0)} {
		add("num.Nat", fmt.Sprint(v), num.N().FromUint64(v), func(a, b *num.Nat) bool { return a.Equal(b) }, func(n *num.Nat) error {
			if n == nil || n.Value() == nil {
				return errors.New("nil")
			}
			return nil
		})
	}
	for _, v := range []int64{0, 42, -42} {
		add("num.Int", fmt.Sprint(v), num.Z().FromInt64(v), func(a, b *num.Int) bool { return a.Equal(b) }, func(n *num.Int) error {
			if n == nil || n.Value() == nil {
				return errors.New("nil")
			}
			return nil
		})
	}
	zm := must(num.NewZMod(must(num.NPlus().FromUint64(100))))
	add("num.ZMod", "100", zm, func(a, b *num.ZMod) bool { return a.Modulus().Equal(b.Modulus()) }, func(z *num.ZMod) error {
		if z == nil || z.Modulus() == nil || z.Modulus().Value().IsZero() == ct.True {
			return errors.New("invalid modulus")
		}
		return nil
	})
	for _, v := range []uint64{0, 42, 99} {
		u := zm.FromUint64(v)
		add("num.Uint", fmt.Sprint(v), u, func(a, b *num.Uint) bool { return a.Equal(b) }, func(u *num.Uint) error {
			if u == nil || u.Value() == nil || u.Modulus() == nil {
				return errors.New("nil component")
			}
			if lt, _, _ := u.Value().Compare(u.Modulus().Value()); lt == ct.False {
				return errors.New("value not below the modulus")
			}
			return nil
		})
	}
	add("num.Rat", "-3/4", must(num.Q().New(num.Z().FromInt64(-3), must(num.NPlus().FromUint64(4)))), func(a, b *num.Rat) bool { return a.Equal(b) }, func(r *num.Rat) error {
		if r == nil || r.Numerator() == nil || r.Denominator() == nil || r.Denominator().Value().IsZero() == ct.True {
			return errors.New("invalid rational")
		}
		return nil
	})

	// modular arithmetic objects, concrete and through the interface
	m143, _ := numct.NewModulus(numct.NewNat(143))
	sm, ok := modular.NewSimple(m143)
	if ok != ct.True {
		panic("simple")
	}
	opf, ok := modular.NewOddPrimeFactors(numct.NewNat(11), numct.NewNat(13))
	if ok != ct.True {
		panic("opf")
	}
	ops, ok := modular.NewOddPrimeSquareFactors(numct.NewNat(11), numct.NewNat(13))
	if ok != ct.True {
		panic("ops")
	}
	validArith := func(a modular.Arithmetic) error {
		if a == nil {
			return errors.New("nil")
		}
		switch x := a.(type) {
		case *modular.SimpleModulus:
			if x == nil || x.Modulus() == nil {
				return errors.New("nil modulus")
			}
		case *modular.OddPrimeFactors:
			if x == nil || x.Modulus() == nil {
				return errors.New("nil modulus")
			}
		case *modular.OddPrimeSquareFactors:
			if x == nil || x.Modulus() == nil {
				return errors.New("nil modulus")
			}
		}
		// usable: one multiplication must not fail
		var out numct.Nat
		a.ModMul(&out, numct.NewNat(5), numct.NewNat(7))
		return nil
	}
	eqArith := func(a, b modular.Arithmetic) bool {
		return fmt.Sprintf("%T", a) == fmt.Sprintf("%T", b) && a.Modulus().Nat().Equal(b.Modulus().Nat()) == ct.True
	}
	add("modular.SimpleModulus", "143", sm, func(a, b *modular.SimpleModulus) bool { return eqArith(a, b) }, func(a *modular.SimpleModulus) error { return validArith(a) })
	add("modular.OddPrimeFactors", "11x13", opf, func(a, b *modular.OddPrimeFactors) bool { return eqArith(a, b) }, func(a *modular.OddPrimeFactors) error { return validArith(a) })
	add("modular.OddPrimeSquareFactors", "11x13", ops, func(a, b *modular.OddPrimeSquareFactors) bool { return eqArith(a, b) }, func(a *modular.OddPrimeSquareFactors) error { return validArith(a) })
	for _, x := range []struct {
		n string
		a modular.Arithmetic
	}{{"simple", sm}, {"opf", opf}, {"ops", ops}} {
		c := add[modular.Arithmetic]("modular.Arithmetic("+x.n+")", x.n, x.a, eqArith, validArith)
		c.iface = true
	}
}

// ---- znstar ----

var (
	// 128-bit primes (generated once with crypto/rand, fixed here so that runs are reproducible)
	primeP = "e5d4b1a1f5d2f7c3a9b1c0d3e6f70913"
	primeQ = "d1c3b5a79786756453423120fedcba8b"
)

func captureZnstar() {
	prng := tr.Rng(seed, 51)
	rsa := must(znstar.SampleRSAGroup(256, prng))
	add("znstar.RSAGroupKnownOrder", "256", rsa, func(a, b *znstar.RSAGroupKnownOrder) bool { return a.Equal(b) }, func(g *znstar.RSAGroupKnownOrder) error {
		if g == nil || g.Modulus() == nil {
			return errors.New("nil")
		}
		return nil
	})
	ru := rsa.ForgetOrder()
	add("znstar.RSAGroupUnknownOrder", "256", ru, func(a, b *znstar.RSAGroupUnknownOrder) bool { return a.Equal(b) }, func(g *znstar.RSAGroupUnknownOrder) error {
		if g == nil || g.Modulus() == nil {
			return errors.New("nil")
		}
		_, err := znstar.NewRSAGroupOfUnknownOrder(g.Modulus())
		return err
	})
	for i := 0; i < 2; i++ {
		e := must(rsa.Random(prng))
		add("znstar.RSAGroupElementKnownOrder", fmt.Sprint(i), e, func(a, b *znstar.RSAGroupElementKnownOrder) bool { return a.Equal(b) }, func(x *znstar.RSAGroupElementKnownOrder) error {
			if x == nil || x.Value() == nil {
				return errors.New("nil")
			}
			if !x.Value().IsUnit() {
				return errors.New("not a unit")
			}
			return nil
		})
		eu := e.ForgetOrder()
		add("znstar.RSAGroupElementUnknownOrder", fmt.Sprint(i), eu, func(a, b *znstar.RSAGroupElementUnknownOrder) bool { return a.Equal(b) }, func(x *znstar.RSAGroupElementUnknownOrder) error {
			if x == nil || x.Value() == nil {
				return errors.New("nil")
			}
			if !x.Value().IsUnit() {
				return errors.New("not a unit")
			}
			return nil
		})
	}
	pg := must(znstar.SamplePaillierGroup(256, prng))
	add("znstar.PaillierGroupKnownOrder", "256", pg, func(a, b *znstar.PaillierGroupKnownOrder) bool { return a.Equal(b) }, func(g *znstar.PaillierGroupKnownOrder) error {
		if g == nil || g.N() == nil {
			return errors.New("nil")
		}
		return nil
	})
	pu := pg.ForgetOrder()
	add("znstar.PaillierGroupUnknownOrder", "256", pu, func(a, b *znstar.PaillierGroupUnknownOrder) bool { return a.Equal(b) }, func(g *znstar.PaillierGroupUnknownOrder) error {
		if g == nil || g.N() == nil {
			return errors.New("nil")
		}
		_, err := znstar.NewPaillierGroupOfUnknownOrder(g.N().Square(), g.N())
		return err
	})
	for i := 0; i < 2; i++ {
		e := must(pg.Random(prng))
		add("znstar.PaillierGroupElementKnownOrder", fmt.Sprint(i), e, func(a, b *znstar.PaillierGroupElementKnownOrder) bool { return a.Equal(b) }, func(x *znstar.PaillierGroupElementKnownOrder) error {
			if x == nil || x.Value() == nil || !x.Value().IsUnit() {
				return errors.New("nil / not a unit")
			}
			return nil
		})
		eu := e.ForgetOrder()
		add("znstar.PaillierGroupElementUnknownOrder", fmt.Sprint(i), eu, func(a, b *znstar.PaillierGroupElementUnknownOrder) bool { return a.Equal(b) }, func(x *znstar.PaillierGroupElementUnknownOrder) error {
			if x == nil || x.Value() == nil || !x.Value().IsUnit() {
				return errors.New("nil / not a unit")
			}
			return nil
		})
	}
}

// ---- matrices and polynomials over k256 ----

func validMatrix[S any](m interface {
	Dimensions() (int, int)
	Get(i, j int) (S, error)
}) error {
	r, c := m.Dimensions()
	if r <= 0 || c <= 0 {
		return errors.New("non-positive dimensions")
	}
	for i := 0; i < r; i++ {
		for j := 0; j < c; j++ {
			if _, err := m.Get(i, j); err != nil {
				return fmt.Errorf("rows*cols does not match the data: %w", err)
			}
		}
	}
	return nil
}

func captureMat() {
	prng := tr.Rng(seed, 61)
	f := k256.NewScalarField()
	c := k256.NewCurve()
	rs := func(n int) []*k256.Scalar {
		out := make([]*k256.Scalar, n)
		for i := range out {
			out[i] = must(f.Random(prng))
		}
		return out
	}
	for _, d := range [][2]uint{{2, 3}, {1, 1}, {3, 1}} {
		mod := must(mat.NewMatrixModule(d[0], d[1], f))
		m := must(mod.NewRowMajor(rs(int(d[0] * d[1]))...))
		add("mat.Matrix[k256]", fmt.Sprintf("%dx%d", d[0], d[1]), m, func(a, b *mat.Matrix[*k256.Scalar]) bool { return a.Equal(b) },
			func(m *mat.Matrix[*k256.Scalar]) error {
				if m == nil {
					return errors.New("nil")
				}
				return validMatrix[*k256.Scalar](m)
			})
		mm := must(mat.NewModuleValuedMatrixModule(d[0], d[1], c))
		var pts []*k256.Point
		for _, s := range rs(int(d[0] * d[1])) {
			pts = append(pts, c.ScalarBaseMul(s))
		}
		pm := must(mm.NewRowMajor(pts...))
		add("mat.ModuleValuedMatrix[k256]", fmt.Sprintf("%dx%d", d[0], d[1]), pm, func(a, b *mat.ModuleValuedMatrix[*k256.Point, *k256.Scalar]) bool { return a.Equal(b) },
			func(m *mat.ModuleValuedMatrix[*k256.Point, *k256.Scalar]) error {
				if m == nil {
					return errors.New("nil")
				}
				return validMatrix[*k256.Point](m)
			})
	}
	for _, n := range []uint{1, 2} {
		alg := must(mat.NewMatrixAlgebra(n, f))
		m := must(alg.NewRowMajor(rs(int(n * n))...))
		add("mat.SquareMatrix[k256]", fmt.Sprintf("%dx%d", n, n), m, func(a, b *mat.SquareMatrix[*k256.Scalar]) bool { return a.Equal(b) },
			func(m *mat.SquareMatrix[*k256.Scalar]) error {
				if m == nil {
					return errors.New("nil")
				}
				return validMatrix[*k256.Scalar](m)
			})
	}
	ring := must(polynomials.NewPolynomialRing(f))
	for _, deg := range []int{0, 2} {
		p := must(ring.RandomPolynomial(deg, prng))
		add("polynomials.Polynomial[k256]", fmt.Sprintf("deg%d", deg), p, func(a, b *polynomials.Polynomial[*k256.Scalar]) bool { return a.Equal(b) },
			func(p *polynomials.Polynomial[*k256.Scalar]) error {
				if p == nil || len(p.Coefficients()) == 0 {
					return errors.New("empty")
				}
				_, err := ring.New(p.Coefficients()...)
				return err
			})
	}
	pmod := must(polynomials.NewPolynomialModule(c))
	for _, deg := range []int{0, 2} {
		p := must(pmod.RandomModuleValuedPolynomial(deg, prng))
		add("polynomials.ModuleValuedPolynomial[k256]", fmt.Sprintf("deg%d", deg), p, func(a, b *polynomials.ModuleValuedPolynomial[*k256.Point, *k256.Scalar]) bool { return a.Equal(b) },
			func(p *polynomials.ModuleValuedPolynomial[*k256.Point, *k256.Scalar]) error {
				if p == nil || len(p.Coefficients()) == 0 {
					return errors.New("empty")
				}
				_, err := pmod.New(p.Coefficients()...)
				return err
			})
	}
}

package cbor

// Registry of captured values and the generic per-value operations (encode, decode, Equal,
// validity predicate). Nothing is judged here: results are logged as booleans / enums and the
// TLA+ trace specification CborTrace decides.

import (
	"bytes"
	"encoding/hex"
	"fmt"
	"regexp"
	"runtime/debug"
	"sort"
	"strings"

	"github.com/bronlabs/bron-crypto/pkg/base/serde"
)

// capture is one real value of a serialisable type together with type-erased operations.
type capture struct {
	typ   string // logical type name (one per Go type / instantiation)
	name  string // instance label
	enc   []byte // canonical encoding (first MarshalCBOR)
	tree  *node
	orig  any
	dec   func(b []byte) (any, error)
	re    func(v any) ([]byte, error)
	eq    func(a, b any) string       // "t" | "f" | "na"
	valid func(v any) (string, string) // "t" | "f" | "na", detail
	iface bool                         // decoded through an interface type (tag required)
	group string                       // family (for selection flags)
}

var (
	captures  []*capture
	capErrors []string
	curGroup  string
)

// guard runs f and converts a panic into (true, message). The message starts with "site=<function> | " where
// <function> is the innermost library frame that is a decoding entry point (UnmarshalCBOR / Validate) or, when the
// panic happened later (Equal / accessor / MarshalCBOR of an accepted object), the innermost library frame.
func guard(f func()) (panicked bool, msg string) {
	defer func() {
		if r := recover(); r != nil {
			panicked = true
			st := string(debug.Stack())
			site := panicSite(st)
			if len(st) > 1500 {
				st = st[:1500]
			}
			msg = fmt.Sprintf("site=%s | %v | %s", site, r, strings.ReplaceAll(st, "\n", " ; "))
		}
	}()
	f()
	return false, ""
}

var (
	reGeneric = regexp.MustCompile(`\[[^\[\]]*\]`)
	reArgs    = regexp.MustCompile(`\(0x[^)]*\)$|\(\.\.\.\)$|\(\{.*\)$|\(\)$`)
)

func shortFunc(fn string) string {
	fn = strings.TrimSpace(fn)
	fn = reArgs.ReplaceAllString(fn, "")
	for reGeneric.MatchString(fn) {
		fn = reGeneric.ReplaceAllString(fn, "")
	}
	fn = strings.TrimPrefix(fn, "github.com/bronlabs/bron-crypto/")
	return fn
}

func panicSite(stack string) string {
	lines := strings.Split(stack, "\n")
	first := ""
	for i := 0; i+1 < len(lines); i++ {
		fn := lines[i]
		if !strings.Contains(fn, "github.com/bronlabs/bron-crypto/") || strings.HasPrefix(fn, "\t") {
			continue
		}
		sf := shortFunc(fn)
		if first == "" {
			first = sf
		}
		if strings.HasSuffix(sf, ".UnmarshalCBOR") || strings.HasSuffix(sf, ".Validate") {
			return sf
		}
	}
	if first == "" {
		return "?"
	}
	return "after-accept:" + first
}

func siteOf(detail string) string {
	i := strings.Index(detail, "site=")
	if i < 0 {
		return ""
	}
	rest := detail[i+5:]
	if j := strings.Index(rest, " | "); j >= 0 {
		return rest[:j]
	}
	return rest
}

// opt configures add.
type opt[T any] struct {
	eq    func(a, b T) bool
	valid func(v T) error
}

// add captures v. eq / valid may be nil ("na").
func add[T any](typ, name string, v T, eq func(a, b T) bool, valid func(v T) error) *capture {
	c := &capture{typ: typ, name: name, orig: v, group: curGroup}
	c.dec = func(b []byte) (any, error) {
		x, err := serde.UnmarshalCBOR[T](b)
		if err != nil {
			return nil, err
		}
		return x, nil
	}
	c.re = func(x any) ([]byte, error) { return serde.MarshalCBOR(x.(T)) }
	if eq != nil {
		c.eq = func(a, b any) string {
			if eq(a.(T), b.(T)) {
				return "t"
			}
			return "f"
		}
	} else {
		c.eq = func(a, b any) string { return "na" }
	}
	if valid != nil {
		c.valid = func(x any) (string, string) {
			if err := valid(x.(T)); err != nil {
				return "f", err.Error()
			}
			return "t", ""
		}
	} else {
		c.valid = func(x any) (string, string) { return "na", "" }
	}
	var err error
	if p, msg := guard(func() { c.enc, err = serde.MarshalCBOR(v) }); p {
		capErrors = append(capErrors, fmt.Sprintf("%s/%s: encode panicked: %s", typ, name, msg))
		c.enc = nil
	} else if err != nil {
		capErrors = append(capErrors, fmt.Sprintf("%s/%s: encode failed: %v", typ, name, err))
		c.enc = nil
	}
	if c.enc != nil {
		t, perr := parse(c.enc)
		if perr != nil {
			capErrors = append(capErrors, fmt.Sprintf("%s/%s: walker cannot parse the honest encoding: %v", typ, name, perr))
		}
		c.tree = t
	}
	captures = append(captures, c)
	return c
}

// addMsg captures a round message. The library accepts an incoming message in two steps, serde.UnmarshalCBOR[T]
// and T.Validate(receiver, sender) (network.ValidateIncomingMessages, called by every round): both together are
// "decoding" here, so a message that unmarshals but fails Validate counts as rejected, and a panic of Validate is a
// panic of the decoder.
func addMsg[T any](typ, name string, v T, eq func(a, b T) bool, validate func(T) error) *capture {
	c := add(typ, name, v, eq, nil)
	inner := c.dec
	c.dec = func(b []byte) (any, error) {
		x, err := inner(b)
		if err != nil {
			return nil, err
		}
		if err := validate(x.(T)); err != nil {
			return nil, err
		}
		return x, nil
	}
	return c
}

// must is used while producing values by running real code: a failure there is a machinery problem.
func must[T any](v T, err error) T {
	if err != nil {
		panic(fmt.Sprintf("capture: %v", err))
	}
	return v
}

func must0(err error) {
	if err != nil {
		panic(fmt.Sprintf("capture: %v", err))
	}
}

// outcome of decoding a (possibly mutated) encoding of c.
type outcome struct {
	res    string // "rej" | "acc"
	valid  string // "t" | "f" | "na"
	regen  bool   // accepted: re-encoding works, decodes again and re-encodes to the same bytes (normal form)
	same   bool   // accepted: re-encoding equals the honest encoding (the change was semantically void)
	canon  bool   // accepted: re-encoding equals the mutated bytes
	panic_ bool
	detail string
}

func (c *capture) try(b []byte) outcome {
	var o outcome
	var x any
	var err error
	if p, msg := guard(func() { x, err = c.dec(b) }); p {
		o.panic_, o.detail, o.res = true, "decode: "+msg, "rej"
		return o
	}
	if err != nil {
		o.res = "rej"
		return o
	}
	o.res = "acc"
	if p, msg := guard(func() { o.valid, o.detail = c.valid(x) }); p {
		o.panic_, o.detail = true, "valid: "+msg
		o.valid = "f"
		return o
	}
	var b2 []byte
	if p, msg := guard(func() { b2, err = c.re(x) }); p {
		o.panic_, o.detail = true, "re-encode: "+msg
		return o
	}
	if err != nil {
		o.detail = "re-encode failed: " + err.Error()
		return o
	}
	o.same = bytes.Equal(b2, c.enc)
	o.canon = bytes.Equal(b2, b)
	var y any
	if p, msg := guard(func() { y, err = c.dec(b2) }); p {
		o.panic_, o.detail = true, "decode of re-encoding: "+msg
		return o
	}
	if err != nil {
		o.detail = "re-encoding does not decode: " + err.Error()
		return o
	}
	var b3 []byte
	if p, msg := guard(func() { b3, err = c.re(y) }); p {
		o.panic_, o.detail = true, "second re-encode: "+msg
		return o
	}
	if err != nil || !bytes.Equal(b2, b3) {
		o.detail = "re-encoding is not a fixed point"
		return o
	}
	var e string
	if p, msg := guard(func() { e = c.eq(x, y) }); p {
		o.panic_, o.detail = true, "Equal on the decoded object: "+msg
		return o
	}
	if e == "f" {
		o.detail = "decode(encode(x)) not Equal to x"
		return o
	}
	o.regen = true
	return o
}

func hexCap(b []byte, max int) string {
	if len(b) > max {
		return hex.EncodeToString(b[:max]) + "..."
	}
	return hex.EncodeToString(b)
}

func typesSorted() []string {
	m := map[string]bool{}
	for _, c := range captures {
		m[c.typ] = true
	}
	var out []string
	for t := range m {
		out = append(out, t)
	}
	sort.Strings(out)
	return out
}

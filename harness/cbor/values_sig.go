package cbor

// Signatures (ECDSA, Schnorr-like: BIP-340 / vanilla / Mina, BLS), encryption (Paillier, ElGamal),
// commitments (Pedersen, ring-Pedersen over Z, IND-CPA, hash) and key agreement values.
// Every value is produced by the library's own key generation / signing / encryption / committing code.

import (
	"crypto"
	"crypto/sha256"
	"errors"
	"fmt"

	"github.com/bronlabs/bron-crypto/pkg/base"
	"github.com/bronlabs/bron-crypto/pkg/base/algebra"
	"github.com/bronlabs/bron-crypto/pkg/base/ct"
	"github.com/bronlabs/bron-crypto/pkg/base/curves"
	"github.com/bronlabs/bron-crypto/pkg/base/curves/curve25519"
	"github.com/bronlabs/bron-crypto/pkg/base/curves/edwards25519"
	"github.com/bronlabs/bron-crypto/pkg/base/curves/k256"
	"github.com/bronlabs/bron-crypto/pkg/base/curves/p256"
	"github.com/bronlabs/bron-crypto/pkg/base/curves/pairable"
	"github.com/bronlabs/bron-crypto/pkg/base/curves/pairable/bls12381"
	"github.com/bronlabs/bron-crypto/pkg/base/curves/pasta"
	"github.com/bronlabs/bron-crypto/pkg/base/nt/num"
	"github.com/bronlabs/bron-crypto/pkg/base/nt/znstar"
	"github.com/bronlabs/bron-crypto/pkg/base/utils"
	"github.com/bronlabs/bron-crypto/pkg/commitments/hashcom"
	"github.com/bronlabs/bron-crypto/pkg/commitments/indcpacom"
	"github.com/bronlabs/bron-crypto/pkg/commitments/intcom"
	"github.com/bronlabs/bron-crypto/pkg/commitments/pedersencom"
	"github.com/bronlabs/bron-crypto/pkg/encryption/elgamal"
	"github.com/bronlabs/bron-crypto/pkg/encryption/paillier"
	ka "github.com/bronlabs/bron-crypto/pkg/key_agreement"
	"github.com/bronlabs/bron-crypto/pkg/key_agreement/dh/dhc"
	"github.com/bronlabs/bron-crypto/pkg/signatures/bls"
	"github.com/bronlabs/bron-crypto/pkg/signatures/ecdsa"
	"github.com/bronlabs/bron-crypto/pkg/signatures/schnorrlike"
	"github.com/bronlabs/bron-crypto/pkg/signatures/schnorrlike/bip340"
	"github.com/bronlabs/bron-crypto/pkg/signatures/schnorrlike/mina"
	vanilla "github.com/bronlabs/bron-crypto/pkg/signatures/schnorrlike/schnorr"

	"verif/harness/tr"
)

func init() {
	group("sig", captureSig)
	group("enc", captureEnc)
	group("commit", captureCommit)
}

var sgErrNil = errors.New("nil object / nil component")

// =====================================================================================================
// group "sig"
// =====================================================================================================

func captureSig() {
	sgECDSA("k256", k256.NewCurve(), false, 100)
	sgECDSA("p256", p256.NewCurve(), true, 101)
	sgSchnorr()
	sgBLS("short", func(a bls.RogueKeyPreventionAlgorithm) (*bls.Scheme[*bls12381.PointG1, *bls12381.BaseFieldElementG1, *bls12381.PointG2, *bls12381.BaseFieldElementG2, *bls12381.GtElement, *bls12381.Scalar], error) {
		return bls.NewShortKeyScheme(pairable.NewBLS12381(), a)
	}, 110)
	sgBLS("long", func(a bls.RogueKeyPreventionAlgorithm) (*bls.Scheme[*bls12381.PointG2, *bls12381.BaseFieldElementG2, *bls12381.PointG1, *bls12381.BaseFieldElementG1, *bls12381.GtElement, *bls12381.Scalar], error) {
		return bls.NewLongKeyScheme(pairable.NewBLS12381(), a)
	}, 111)
}

// ---- ECDSA ----

func sgECDSA[P curves.Point[P, B, S], B algebra.PrimeFieldElement[B], S algebra.PrimeFieldElement[S]](tag string, curve ecdsa.Curve[P, B, S], deterministic bool, stream uint64) {
	prng := tr.Rng(seed, stream)
	var suite *ecdsa.Suite[P, B, S]
	if deterministic {
		suite = must(ecdsa.NewDeterministicSuite(curve, crypto.SHA256))
	} else {
		suite = must(ecdsa.NewSuite(curve, sha256.New))
	}
	scheme := must(ecdsa.NewScheme(suite, prng))
	kg := must(scheme.Keygen())
	verifier := must(scheme.Verifier())

	validPK := func(x *ecdsa.PublicKey[P, B, S]) error {
		if x == nil || utils.IsNil(x.Value()) {
			return sgErrNil
		}
		_, err := ecdsa.NewPublicKey(x.Value())
		return err
	}
	validSig := func(x *ecdsa.Signature[S]) error {
		if x == nil || utils.IsNil(x.R()) || utils.IsNil(x.S()) {
			return sgErrNil
		}
		_, err := ecdsa.NewSignature(x.R(), x.S(), x.V())
		return err
	}
	for i := 0; i < 2; i++ {
		sk, pk, err := kg.Generate(prng)
		must0(err)
		add("ecdsa.PublicKey["+tag+"]", fmt.Sprintf("pk%d", i), pk, func(a, b *ecdsa.PublicKey[P, B, S]) bool { return a.Equal(b) }, validPK)
		signer := must(scheme.Signer(sk))
		msg := []byte(fmt.Sprintf("verif ecdsa message %d", i))
		sig := must(signer.Sign(msg)) // carries the recovery id
		must0(verifier.Verify(sig, pk, msg))
		if sig.V() == nil {
			panic("capture: ECDSA signer returned no recovery id")
		}
		add("ecdsa.Signature["+tag+"]", fmt.Sprintf("v%d", i), sig, func(a, b *ecdsa.Signature[S]) bool { return a.Equal(b) }, validSig)
		// the same signature without the recovery id
		plain := must(ecdsa.NewSignature(sig.R(), sig.S(), nil))
		must0(verifier.Verify(plain, pk, msg))
		add("ecdsa.Signature["+tag+"]", fmt.Sprintf("nov%d", i), plain, func(a, b *ecdsa.Signature[S]) bool { return a.Equal(b) }, validSig)
	}
}

// ---- Schnorr-like ----

func sgValidSchnorrPK[GE schnorrlike.GroupElement[GE, S], S schnorrlike.Scalar[S]](x *schnorrlike.PublicKey[GE, S]) error {
	if x == nil {
		return sgErrNil
	}
	_, err := schnorrlike.NewPublicKey(x.Value())
	return err
}

func sgValidSchnorrSig[GE schnorrlike.GroupElement[GE, S], S schnorrlike.Scalar[S]](x *schnorrlike.Signature[GE, S]) error {
	if x == nil {
		return sgErrNil
	}
	_, err := schnorrlike.NewSignature(x.E, x.R, x.S)
	return err
}

func sgAddSchnorr[GE schnorrlike.GroupElement[GE, S], S schnorrlike.Scalar[S]](tag, name string, pk *schnorrlike.PublicKey[GE, S], sig *schnorrlike.Signature[GE, S]) {
	add("schnorrlike.PublicKey["+tag+"]", name, pk, func(a, b *schnorrlike.PublicKey[GE, S]) bool { return a.Equal(b) }, sgValidSchnorrPK[GE, S])
	add("schnorrlike.Signature["+tag+"]", name, sig, func(a, b *schnorrlike.Signature[GE, S]) bool { return a.Equal(b) }, sgValidSchnorrSig[GE, S])
}

func sgVanilla[GE algebra.PrimeGroupElement[GE, S], S algebra.PrimeFieldElement[S]](tag, name string, grp algebra.PrimeGroup[GE, S], negResponse, littleEndian bool, stream uint64) {
	prng := tr.Rng(seed, stream)
	scheme := must(vanilla.NewScheme(grp, sha256.New, negResponse, littleEndian, nil, prng))
	kg := must(scheme.Keygen())
	sk, pk, err := kg.Generate(prng)
	must0(err)
	signer := must(scheme.Signer(sk))
	msg := []byte("verif vanilla schnorr " + tag + name)
	sig := must(signer.Sign(msg))
	must0(must(scheme.Verifier()).Verify(sig, pk, msg))
	sgAddSchnorr(tag, name, pk, sig)
}

func sgSchnorr() {
	// BIP-340 (k256)
	prng := tr.Rng(seed, 102)
	for i := 0; i < 2; i++ {
		scheme := must(bip340.NewScheme(prng))
		kg := must(scheme.Keygen())
		sk, pk, err := kg.Generate(prng)
		must0(err)
		signer := must(scheme.Signer(sk))
		msg := []byte(fmt.Sprintf("verif bip340 message %d", i))
		sig := must(signer.Sign(msg))
		must0(must(scheme.Verifier()).Verify(sig, pk, msg))
		sgAddSchnorr[*k256.Point, *k256.Scalar]("k256", fmt.Sprintf("bip340-%d", i), pk, sig)
	}
	// vanilla Schnorr, several groups / parameterisations
	sgVanilla[*k256.Point, *k256.Scalar]("k256", "vanilla", k256.NewCurve(), false, true, 103)
	sgVanilla[*p256.Point, *p256.Scalar]("p256", "vanilla-a", p256.NewCurve(), false, true, 104)
	sgVanilla[*p256.Point, *p256.Scalar]("p256", "vanilla-b", p256.NewCurve(), true, false, 105)
	sgVanilla[*edwards25519.PrimeSubGroupPoint, *edwards25519.Scalar]("edwards25519", "vanilla-a", edwards25519.NewPrimeSubGroup(), false, true, 106)
	sgVanilla[*edwards25519.PrimeSubGroupPoint, *edwards25519.Scalar]("edwards25519", "vanilla-b", edwards25519.NewPrimeSubGroup(), false, false, 107)

	// Mina (pallas): randomised and deterministic nonce
	prng = tr.Rng(seed, 108)
	{
		scheme := must(mina.NewRandomisedScheme(mina.TestNet, prng))
		kg := must(scheme.Keygen())
		sk, pk, err := kg.Generate(prng)
		must0(err)
		signer := must(scheme.Signer(sk))
		msg := new(mina.ROInput).Init()
		msg.AddString("verif mina randomised")
		sig := must(signer.Sign(msg))
		must0(must(scheme.Verifier()).Verify(sig, pk, msg))
		sgAddSchnorr[*pasta.PallasPoint, *pasta.PallasScalar]("pallas", "mina-rnd", pk, sig)

		sk2, pk2, err := kg.Generate(prng)
		must0(err)
		scheme2 := must(mina.NewScheme(mina.MainNet, sk2))
		signer2 := must(scheme2.Signer(sk2))
		msg2 := new(mina.ROInput).Init()
		msg2.AddString("verif mina deterministic")
		sig2 := must(signer2.Sign(msg2))
		must0(must(scheme2.Verifier()).Verify(sig2, pk2, msg2))
		sgAddSchnorr[*pasta.PallasPoint, *pasta.PallasScalar]("pallas", "mina-det", pk2, sig2)
	}
}

// ---- BLS ----

func sgBLS[
	PK curves.PairingFriendlyPoint[PK, PKFE, SG, SGFE, E, S], PKFE algebra.FieldElement[PKFE],
	SG curves.PairingFriendlyPoint[SG, SGFE, PK, PKFE, E, S], SGFE algebra.FieldElement[SGFE],
	E algebra.MultiplicativeGroupElement[E], S algebra.PrimeFieldElement[S],
](tag string, mk func(bls.RogueKeyPreventionAlgorithm) (*bls.Scheme[PK, PKFE, SG, SGFE, E, S], error), stream uint64) {
	prng := tr.Rng(seed, stream)
	validPK := func(x *bls.PublicKey[PK, PKFE, SG, SGFE, E, S]) error {
		if x == nil || utils.IsNil(x.Value()) {
			return sgErrNil
		}
		_, err := bls.NewPublicKey[PK, PKFE, SG, SGFE, E, S](x.Value())
		return err
	}
	validPop := func(x *bls.ProofOfPossession[SG, SGFE, PK, PKFE, E, S]) error {
		if x == nil || utils.IsNil(x.Value()) {
			return sgErrNil
		}
		_, err := bls.NewProofOfPossession[SG, SGFE, PK, PKFE, E, S](x.Value())
		return err
	}
	validSig := func(x *bls.Signature[SG, SGFE, PK, PKFE, E, S]) error {
		if x == nil || utils.IsNil(x.Value()) {
			return sgErrNil
		}
		if x.Pop() != nil {
			if err := validPop(x.Pop()); err != nil {
				return fmt.Errorf("attached proof of possession: %w", err)
			}
		}
		_, err := bls.NewSignature(x.Value(), x.Pop())
		return err
	}
	eqPK := func(a, b *bls.PublicKey[PK, PKFE, SG, SGFE, E, S]) bool { return a.Equal(b) }
	eqSig := func(a, b *bls.Signature[SG, SGFE, PK, PKFE, E, S]) bool { return a.Equal(b) }
	eqPop := func(a, b *bls.ProofOfPossession[SG, SGFE, PK, PKFE, E, S]) bool { return a.Equal(b) }

	for _, alg := range []struct {
		n string
		a bls.RogueKeyPreventionAlgorithm
	}{{"basic", bls.Basic}, {"aug", bls.MessageAugmentation}, {"pop", bls.POP}} {
		scheme := must(mk(alg.a))
		kg := must(scheme.Keygen())
		sk, pk, err := kg.Generate(prng)
		must0(err)
		signer := must(scheme.Signer(sk))
		msg := []byte("verif bls " + tag + " " + alg.n)
		sig := must(signer.Sign(msg))
		must0(must(scheme.Verifier()).Verify(sig, pk, msg))
		add("bls.PublicKey["+tag+"]", alg.n, pk, eqPK, validPK)
		add("bls.Signature["+tag+"]", alg.n, sig, eqSig, validSig)
		if alg.a == bls.POP {
			if sig.Pop() == nil {
				panic("capture: POP signature without proof of possession")
			}
			add("bls.ProofOfPossession["+tag+"]", alg.n, sig.Pop(), eqPop, validPop)
			// a second proof of possession (another key)
			sk2, _, err := kg.Generate(prng)
			must0(err)
			sig2 := must(must(scheme.Signer(sk2)).Sign(msg))
			add("bls.ProofOfPossession["+tag+"]", alg.n+"2", sig2.Pop(), eqPop, validPop)
		}
	}
}

// =====================================================================================================
// group "enc"
// =====================================================================================================

// Paillier keys of the admissible size (the plain binary has the 3072-bit floor active); cached because
// group "commit" re-uses them.
var sgPaillierKeys []*paillier.SecretKey

func sgPaillier() []*paillier.SecretKey {
	if sgPaillierKeys == nil {
		for i := uint64(0); i < 2; i++ {
			g := must(znstar.SamplePaillierGroup(base.IFCKeyLength, tr.Rng(seed, 120+i)))
			sgPaillierKeys = append(sgPaillierKeys, must(paillier.NewSecretKey(g)))
		}
	}
	return sgPaillierKeys
}

func sgValidPaillierPK(x *paillier.PublicKey) error {
	if x == nil || x.Group() == nil || x.Group().N() == nil || x.Group().Modulus() == nil {
		return sgErrNil
	}
	if x.Group().N().TrueLen() < base.IFCKeyLength {
		return fmt.Errorf("Paillier N has %d bits, floor is %d", x.Group().N().TrueLen(), base.IFCKeyLength)
	}
	g, err := znstar.NewPaillierGroupOfUnknownOrder(x.Group().Modulus(), x.Group().N())
	if err != nil {
		return err
	}
	_, err = paillier.NewPublicKey(g)
	return err
}

func sgValidPaillierSK(x *paillier.SecretKey) error {
	if x == nil || x.Group() == nil || x.Group().N() == nil {
		return sgErrNil
	}
	if x.Group().N().TrueLen() < base.IFCKeyLength {
		return fmt.Errorf("Paillier N has %d bits, floor is %d", x.Group().N().TrueLen(), base.IFCKeyLength)
	}
	y, err := paillier.NewSecretKey(x.Group())
	if err != nil {
		return err
	}
	if err := sgValidPaillierPK(x.Public()); err != nil {
		return fmt.Errorf("public part: %w", err)
	}
	if !y.Public().Equal(&x.PublicKey) {
		return errors.New("embedded public key differs from the one derived from the factorisation")
	}
	return nil
}

func sgValidPaillierPlaintext(x *paillier.Plaintext) error {
	if x == nil || x.Value() == nil {
		return sgErrNil
	}
	if x.Value().Value() == nil || x.Value().Modulus() == nil {
		return sgErrNil
	}
	// NewPlaintextFromNat enforces the range [0, N)
	if _, err := paillier.NewPlaintextFromNat(x.Value().Nat(), x.Value().Modulus()); err != nil {
		return err
	}
	_, err := paillier.NewPlaintext(x.Value())
	return err
}

func sgValidPaillierNonce(x *paillier.Nonce) error {
	if x == nil || x.Value() == nil || x.Value().Value() == nil {
		return sgErrNil
	}
	// membership in Z*_N through the group constructor
	e, err := x.Group().FromUint(x.Value().Value())
	if err != nil {
		return err
	}
	_, err = paillier.NewNonceFromGroupElement(e)
	return err
}

func sgValidPaillierCiphertext(x *paillier.Ciphertext) error {
	if x == nil || x.Value() == nil || x.Value().Value() == nil {
		return sgErrNil
	}
	e, err := x.Group().FromUint(x.Value().Value())
	if err != nil {
		return err
	}
	_, err = paillier.NewCiphertextFromGroupElement(e)
	return err
}

func sgValidElgamalPK(x *elgamal.PublicKey[*k256.Point, *k256.Scalar]) error {
	if x == nil || x.Value() == nil {
		return sgErrNil
	}
	_, err := elgamal.NewPublicKey[*k256.Point, *k256.Scalar](x.Value())
	return err
}

func sgValidElgamalCiphertext(x *elgamal.Ciphertext[*k256.Point, *k256.Scalar]) error {
	if x == nil || x.Value() == nil {
		return sgErrNil
	}
	_, err := elgamal.NewCiphertextFromGroupElement(x.Value())
	return err
}

func captureEnc() {
	// ---- Paillier ----
	prng := tr.Rng(seed, 130)
	for i, sk := range sgPaillier() {
		pk := sk.Public()
		add("paillier.SecretKey", fmt.Sprintf("sk%d", i), sk, func(a, b *paillier.SecretKey) bool { return a.Equal(b) }, sgValidPaillierSK)
		add("paillier.PublicKey", fmt.Sprintf("pk%d", i), pk, func(a, b *paillier.PublicKey) bool { return a.Equal(b) }, sgValidPaillierPK)
		n := pk.Group().N()
		var pts []*paillier.Plaintext
		pts = append(pts, must(paillier.NewPlaintext(must(pk.PlaintextGroup().Random(prng)))))
		pts = append(pts, must(paillier.NewPlaintextSymmetric(num.Z().FromInt64(-42), n)))
		if i == 0 {
			pts = append(pts, must(paillier.NewPlaintextFromNat(num.N().FromUint64(0), n)))
		}
		for j, pt := range pts {
			add("paillier.Plaintext", fmt.Sprintf("k%d-%d", i, j), pt, func(a, b *paillier.Plaintext) bool { return a.Equal(b) }, sgValidPaillierPlaintext)
			if j > 1 {
				continue
			}
			nonce := must(pk.SampleNonce(prng))
			c := must(pk.EncryptWithNonce(pt, nonce))
			// the secret-key path must give the same ciphertext and decrypt to the plaintext
			if c2 := must(sk.EncryptWithNonce(pt, nonce)); !c2.Equal(c) {
				panic("capture: Paillier public / secret encryption differ")
			}
			if !must(sk.Decrypt(c)).Equal(pt) {
				panic("capture: Paillier decryption differs")
			}
			add("paillier.Nonce", fmt.Sprintf("k%d-%d", i, j), nonce, func(a, b *paillier.Nonce) bool { return a.Equal(b) }, sgValidPaillierNonce)
			add("paillier.Ciphertext", fmt.Sprintf("k%d-%d", i, j), c, func(a, b *paillier.Ciphertext) bool { return a.Equal(b) }, sgValidPaillierCiphertext)
		}
	}

	// ---- ElGamal on k256 ----
	prng = tr.Rng(seed, 131)
	curve := k256.NewCurve()
	for i := 0; i < 2; i++ {
		sk := must(elgamal.SampleSecretKey(curve, prng))
		pk := sk.Public()
		add("elgamal.SecretKey[k256]", fmt.Sprintf("sk%d", i), sk, func(a, b *elgamal.SecretKey[*k256.Point, *k256.Scalar]) bool { return a.Equal(b) },
			func(x *elgamal.SecretKey[*k256.Point, *k256.Scalar]) error {
				if x == nil || x.H() == nil || x.Value() == nil {
					return sgErrNil
				}
				y, err := elgamal.NewSecretKey(x.Generator(), x.Value())
				if err != nil {
					return err
				}
				if !y.H().Equal(x.H()) {
					return errors.New("public part h is not generator^a")
				}
				return sgValidElgamalPK(&x.PublicKey)
			})
		add("elgamal.PublicKey[k256]", fmt.Sprintf("pk%d", i), pk, func(a, b *elgamal.PublicKey[*k256.Point, *k256.Scalar]) bool { return a.Equal(b) }, sgValidElgamalPK)
		pt := must(elgamal.NewPlaintext[*k256.Point, *k256.Scalar](must(curve.Random(prng))))
		nonce := must(pk.SampleNonce(prng))
		c := must(pk.EncryptWithNonce(pt, nonce))
		if !must(sk.Decrypt(c)).Equal(pt) {
			panic("capture: ElGamal decryption differs")
		}
		add("elgamal.Plaintext[k256]", fmt.Sprint(i), pt, func(a, b *elgamal.Plaintext[*k256.Point, *k256.Scalar]) bool { return a.Equal(b) },
			func(x *elgamal.Plaintext[*k256.Point, *k256.Scalar]) error {
				if x == nil {
					return sgErrNil
				}
				_, err := elgamal.NewPlaintext[*k256.Point, *k256.Scalar](x.Value())
				return err
			})
		add("elgamal.Nonce[k256]", fmt.Sprint(i), nonce, func(a, b *elgamal.Nonce[*k256.Scalar]) bool { return a.Equal(b) },
			func(x *elgamal.Nonce[*k256.Scalar]) error {
				if x == nil {
					return sgErrNil
				}
				_, err := elgamal.NewNonce(x.Value())
				return err
			})
		add("elgamal.Ciphertext[k256]", fmt.Sprint(i), c, func(a, b *elgamal.Ciphertext[*k256.Point, *k256.Scalar]) bool { return a.Equal(b) }, sgValidElgamalCiphertext)
		if i == 0 {
			// the plaintext-free ciphertexts of the homomorphic interface
			rep := must(pk.Representative(pt))
			add("elgamal.Ciphertext[k256]", "representative", rep, func(a, b *elgamal.Ciphertext[*k256.Point, *k256.Scalar]) bool { return a.Equal(b) }, sgValidElgamalCiphertext)
		}
	}
}

// =====================================================================================================
// group "commit"
// =====================================================================================================

func captureCommit() {
	cmPedersen()
	cmIntcom()
	cmIndCPA()
	cmHashcom()
	cmDH("k256", k256.NewCurve(), 150)
	cmDH("p256", p256.NewCurve(), 151)
	cmDH("edwards25519", edwards25519.NewPrimeSubGroup(), 152)
	cmDH("curve25519", curve25519.NewPrimeSubGroup(), 153)
}

// ---- Pedersen over k256 ----

func cmPedersen() {
	type (
		P = *k256.Point
		S = *k256.Scalar
	)
	prng := tr.Rng(seed, 140)
	curve := k256.NewCurve()
	sf := k256.NewScalarField()
	validKey := func(x *pedersencom.CommitmentKey[P, S]) error {
		if x == nil {
			return sgErrNil
		}
		_, err := pedersencom.NewCommitmentKeyUnchecked[P, S](x.G(), x.H())
		return err
	}
	for i := 0; i < 2; i++ {
		key := must(pedersencom.SampleCommitmentKey(curve, prng))
		add("pedersencom.CommitmentKey[k256]", fmt.Sprintf("sampled%d", i), key, func(a, b *pedersencom.CommitmentKey[P, S]) bool { return a.Equal(b) }, validKey)
		td := must(pedersencom.SampleTrapdoorKey(curve, prng))
		add("pedersencom.TrapdoorKey[k256]", fmt.Sprint(i), td, func(a, b *pedersencom.TrapdoorKey[P, S]) bool { return a.Equal(b) },
			func(x *pedersencom.TrapdoorKey[P, S]) error {
				if x == nil || x.G() == nil || x.H() == nil || x.Lambda() == nil {
					return sgErrNil
				}
				y, err := pedersencom.NewTrapdoorKey[P, S](x.G(), x.Lambda())
				if err != nil {
					return err
				}
				if !y.H().Equal(x.H()) {
					return errors.New("h is not g^lambda")
				}
				return validKey(&x.CommitmentKey)
			})
		add("pedersencom.CommitmentKey[k256]", fmt.Sprintf("exported%d", i), td.Export(), func(a, b *pedersencom.CommitmentKey[P, S]) bool { return a.Equal(b) }, validKey)

		msg := must(pedersencom.NewMessage(must(sf.Random(prng))))
		w := must(key.SampleWitness(prng))
		c := must(key.CommitWithWitness(msg, w))
		must0(key.Open(c, msg, w))
		add("pedersencom.Message[k256]", fmt.Sprint(i), msg, func(a, b *pedersencom.Message[S]) bool { return a.Equal(b) }, func(x *pedersencom.Message[S]) error {
			if x == nil {
				return sgErrNil
			}
			_, err := pedersencom.NewMessage(x.Value())
			return err
		})
		add("pedersencom.Witness[k256]", fmt.Sprint(i), w, func(a, b *pedersencom.Witness[S]) bool { return a.Equal(b) }, func(x *pedersencom.Witness[S]) error {
			if x == nil {
				return sgErrNil
			}
			_, err := pedersencom.NewWitness(x.Value())
			return err
		})
		validC := func(x *pedersencom.Commitment[P, S]) error {
			if x == nil {
				return sgErrNil
			}
			_, err := pedersencom.NewCommitment[P, S](x.Value())
			return err
		}
		add("pedersencom.Commitment[k256]", fmt.Sprint(i), c, func(a, b *pedersencom.Commitment[P, S]) bool { return a.Equal(b) }, validC)
		// commitment through the trapdoor path
		c2 := must(td.CommitWithWitness(msg, w))
		must0(td.Export().Open(c2, msg, w))
		add("pedersencom.Commitment[k256]", fmt.Sprintf("td%d", i), c2, func(a, b *pedersencom.Commitment[P, S]) bool { return a.Equal(b) }, validC)
	}
}

// ---- ring-Pedersen over the integers (no size floor in the package: 512-bit safe-prime modulus) ----

const cmIntcomBits = 512

// cmValidIntcomKey re-states the checks of the unexported newCommitmentKey on the accessors.
func cmValidIntcomKey(x *intcom.CommitmentKey) error {
	if x == nil || x.S() == nil || x.T() == nil || x.S().Value() == nil || x.T().Value() == nil {
		return sgErrNil
	}
	s, t := x.S(), x.T()
	if !s.Modulus().Equal(t.Modulus()) {
		return errors.New("s and t in different groups")
	}
	// membership in Z*_N through the group constructor
	if _, err := s.Group().FromUint(s.Value()); err != nil {
		return fmt.Errorf("s: %w", err)
	}
	if _, err := t.Group().FromUint(t.Value()); err != nil {
		return fmt.Errorf("t: %w", err)
	}
	if s.Equal(t) {
		return errors.New("s equals t")
	}
	if s.IsOne() || t.IsOne() {
		return errors.New("s or t is the identity")
	}
	if !s.IsTorsionFree() || !t.IsTorsionFree() {
		return errors.New("s or t not torsion free (Jacobi symbol)")
	}
	if !s.Value().Decrement().Nat().Coprime(s.Modulus().Nat()) {
		return errors.New("gcd(s-1, N) != 1")
	}
	if !t.Value().Decrement().Nat().Coprime(t.Modulus().Nat()) {
		return errors.New("gcd(t-1, N) != 1")
	}
	return nil
}

func cmIntcom() {
	prng := tr.Rng(seed, 141)
	eqKey := func(a, b *intcom.CommitmentKey) bool { return a.Equal(b) }
	for i := 0; i < 2; i++ {
		td := must(intcom.SampleTrapdoorKey(cmIntcomBits, prng))
		add("intcom.TrapdoorKey", fmt.Sprint(i), td, func(a, b *intcom.TrapdoorKey) bool { return a.Equal(b) }, func(x *intcom.TrapdoorKey) error {
			if x == nil || x.Group() == nil || x.Lambda() == nil || x.T() == nil || x.S() == nil {
				return sgErrNil
			}
			tk, err := x.T().LearnOrder(x.Group())
			if err != nil {
				return err
			}
			y, err := intcom.NewTrapdoorKey(tk, x.Lambda())
			if err != nil {
				return err
			}
			if !y.S().Equal(x.S()) {
				return errors.New("s is not t^lambda")
			}
			return cmValidIntcomKey(&x.CommitmentKey)
		})
		key := td.Export()
		add("intcom.CommitmentKey", fmt.Sprintf("exported%d", i), key, eqKey, cmValidIntcomKey)
		if i == 0 {
			add("intcom.CommitmentKey", "sampled", must(intcom.SampleCommitmentKey(cmIntcomBits, prng)), eqKey, cmValidIntcomKey)
		}
		for j, mv := range []int64{12345, -7} {
			msg := must(intcom.NewMessage(num.Z().FromInt64(mv)))
			w := must(key.SampleWitness(prng))
			c := must(key.CommitWithWitness(msg, w))
			must0(key.Open(c, msg, w))
			if !must(td.CommitWithWitness(msg, w)).Equal(c) {
				panic("capture: intcom trapdoor / public commitment differ")
			}
			n := fmt.Sprintf("k%d-%d", i, j)
			add("intcom.Message", n, msg, func(a, b *intcom.Message) bool { return a.Equal(b) }, func(x *intcom.Message) error {
				if x == nil {
					return sgErrNil
				}
				_, err := intcom.NewMessage(x.Value())
				return err
			})
			add("intcom.Witness", n, w, func(a, b *intcom.Witness) bool { return a.Equal(b) }, func(x *intcom.Witness) error {
				if x == nil {
					return sgErrNil
				}
				_, err := intcom.NewWitness(x.Value())
				return err
			})
			add("intcom.Commitment", n, c, func(a, b *intcom.Commitment) bool { return a.Equal(b) }, func(x *intcom.Commitment) error {
				if x == nil || x.Value() == nil || x.Value().Value() == nil {
					return sgErrNil
				}
				e, err := x.Value().Group().FromUint(x.Value().Value())
				if err != nil {
					return err
				}
				_, err = intcom.NewCommitment(e)
				return err
			})
		}
	}
}

// ---- IND-CPA commitments from ElGamal (k256) and Paillier ----

func cmIndCPA() {
	// ElGamal
	type (
		EK = *elgamal.PublicKey[*k256.Point, *k256.Scalar]
		EP = *elgamal.Plaintext[*k256.Point, *k256.Scalar]
		EN = *elgamal.Nonce[*k256.Scalar]
		EC = *elgamal.Ciphertext[*k256.Point, *k256.Scalar]
	)
	prng := tr.Rng(seed, 142)
	curve := k256.NewCurve()
	for i := 0; i < 2; i++ {
		esk := must(elgamal.SampleSecretKey(curve, prng))
		hk := must(indcpacom.NewHomomorphicCommitmentKey[EK, EP, EN, EC, *k256.Scalar](esk.Public()))
		key := must(indcpacom.NewCommitmentKey[EK, EP, EN, EC](esk.Public()))
		validKey := func(x *indcpacom.CommitmentKey[EK, EP, EN, EC]) error {
			if x == nil {
				return sgErrNil
			}
			if _, err := indcpacom.NewCommitmentKey[EK, EP, EN, EC](x.EncryptionKey()); err != nil {
				return err
			}
			return sgValidElgamalPK(x.EncryptionKey())
		}
		add("indcpacom.CommitmentKey[elgamal-k256]", fmt.Sprint(i), key, func(a, b *indcpacom.CommitmentKey[EK, EP, EN, EC]) bool { return a.Equal(b) }, validKey)
		add("indcpacom.HomomorphicCommitmentKey[elgamal-k256]", fmt.Sprint(i), hk, func(a, b *indcpacom.HomomorphicCommitmentKey[EK, EP, EN, EC, *k256.Scalar]) bool {
			return a.Equal(b)
		}, func(x *indcpacom.HomomorphicCommitmentKey[EK, EP, EN, EC, *k256.Scalar]) error {
			if x == nil {
				return sgErrNil
			}
			if _, err := indcpacom.NewHomomorphicCommitmentKey[EK, EP, EN, EC, *k256.Scalar](x.EncryptionKey()); err != nil {
				return err
			}
			return validKey(&x.CommitmentKey)
		})
		msg := must(indcpacom.NewMessage(must(elgamal.NewPlaintext[*k256.Point, *k256.Scalar](must(curve.Random(prng))))))
		w := must(key.SampleWitness(prng))
		c := must(key.CommitWithWitness(msg, w))
		must0(key.Open(c, msg, w))
		add("indcpacom.Message[elgamal-k256]", fmt.Sprint(i), msg, nil, func(x *indcpacom.Message[EP]) error {
			if x == nil {
				return sgErrNil
			}
			if _, err := indcpacom.NewMessage(x.Value()); err != nil {
				return err
			}
			_, err := elgamal.NewPlaintext[*k256.Point, *k256.Scalar](x.Value().Value())
			return err
		})
		add("indcpacom.Witness[elgamal-k256]", fmt.Sprint(i), w, nil, func(x *indcpacom.Witness[EN]) error {
			if x == nil {
				return sgErrNil
			}
			if _, err := indcpacom.NewWitness(x.Value()); err != nil {
				return err
			}
			_, err := elgamal.NewNonce(x.Value().Value())
			return err
		})
		add("indcpacom.Commitment[elgamal-k256]", fmt.Sprint(i), c, func(a, b *indcpacom.Commitment[EC]) bool { return a.Equal(b) }, func(x *indcpacom.Commitment[EC]) error {
			if x == nil {
				return sgErrNil
			}
			if _, err := indcpacom.NewCommitment(x.Value()); err != nil {
				return err
			}
			return sgValidElgamalCiphertext(x.Value())
		})
	}

	// Paillier (re-uses the keys of group "enc")
	type (
		PK = *paillier.PublicKey
		PP = *paillier.Plaintext
		PN = *paillier.Nonce
		PC = *paillier.Ciphertext
	)
	prng = tr.Rng(seed, 143)
	for i, sk := range sgPaillier() {
		pk := sk.Public()
		key := must(indcpacom.NewCommitmentKey[PK, PP, PN, PC](pk))
		hk := must(indcpacom.NewHomomorphicCommitmentKey[PK, PP, PN, PC, *num.Int](pk))
		validKey := func(x *indcpacom.CommitmentKey[PK, PP, PN, PC]) error {
			if x == nil {
				return sgErrNil
			}
			if _, err := indcpacom.NewCommitmentKey[PK, PP, PN, PC](x.EncryptionKey()); err != nil {
				return err
			}
			return sgValidPaillierPK(x.EncryptionKey())
		}
		add("indcpacom.CommitmentKey[paillier]", fmt.Sprint(i), key, func(a, b *indcpacom.CommitmentKey[PK, PP, PN, PC]) bool { return a.Equal(b) }, validKey)
		if i == 0 {
			add("indcpacom.HomomorphicCommitmentKey[paillier]", fmt.Sprint(i), hk, func(a, b *indcpacom.HomomorphicCommitmentKey[PK, PP, PN, PC, *num.Int]) bool {
				return a.Equal(b)
			}, func(x *indcpacom.HomomorphicCommitmentKey[PK, PP, PN, PC, *num.Int]) error {
				if x == nil {
					return sgErrNil
				}
				return validKey(&x.CommitmentKey)
			})
		}
		msg := must(indcpacom.NewMessage(must(paillier.NewPlaintext(must(pk.PlaintextGroup().Random(prng))))))
		w := must(key.SampleWitness(prng))
		c := must(key.CommitWithWitness(msg, w))
		must0(key.Open(c, msg, w))
		add("indcpacom.Message[paillier]", fmt.Sprint(i), msg, nil, func(x *indcpacom.Message[PP]) error {
			if x == nil {
				return sgErrNil
			}
			if _, err := indcpacom.NewMessage(x.Value()); err != nil {
				return err
			}
			return sgValidPaillierPlaintext(x.Value())
		})
		add("indcpacom.Witness[paillier]", fmt.Sprint(i), w, nil, func(x *indcpacom.Witness[PN]) error {
			if x == nil {
				return sgErrNil
			}
			if _, err := indcpacom.NewWitness(x.Value()); err != nil {
				return err
			}
			return sgValidPaillierNonce(x.Value())
		})
		add("indcpacom.Commitment[paillier]", fmt.Sprint(i), c, func(a, b *indcpacom.Commitment[PC]) bool { return a.Equal(b) }, func(x *indcpacom.Commitment[PC]) error {
			if x == nil {
				return sgErrNil
			}
			if _, err := indcpacom.NewCommitment(x.Value()); err != nil {
				return err
			}
			return sgValidPaillierCiphertext(x.Value())
		})
	}
}

// ---- hash commitments (fixed-size byte arrays) ----

func cmHashcom() {
	prng := tr.Rng(seed, 144)
	for i := 0; i < 2; i++ {
		key := must(hashcom.SampleCommitmentKey(prng))
		w := must(key.SampleWitness(prng))
		msg := []byte(fmt.Sprintf("verif hashcom %d", i))
		c := must(key.CommitWithWitness(msg, w))
		must0(key.Open(c, msg, w))
		add("hashcom.CommitmentKey", fmt.Sprint(i), key, func(a, b *hashcom.CommitmentKey) bool { return a.Equal(b) }, func(x *hashcom.CommitmentKey) error {
			if x == nil {
				return sgErrNil
			}
			return nil
		})
		add("hashcom.Witness", fmt.Sprint(i), w, func(a, b hashcom.Witness) bool { return a.Equal(b) }, nil)
		add("hashcom.Commitment", fmt.Sprint(i), c, func(a, b hashcom.Commitment) bool { return a.Equal(b) }, nil)
	}
}

// ---- key agreement ----

func cmDH[P curves.Point[P, B, S], B algebra.FiniteFieldElement[B], S algebra.PrimeFieldElement[S]](tag string, c curves.Curve[P, B, S], stream uint64) {
	prng := tr.Rng(seed, stream)
	sf := c.ScalarField()
	var esks []*dhc.ExtendedPrivateKey[S]
	var pks []*dhc.PublicKey[P, B, S]
	for i := 0; i < 2; i++ {
		esk := must(dhc.SampleExtendedPrivateKey(sf, prng))
		pk := must(dhc.PublicKeyOf(c, esk))
		esks, pks = append(esks, esk), append(pks, pk)
		add("dhc.ExtendedPrivateKey["+tag+"]", fmt.Sprint(i), esk, func(a, b *dhc.ExtendedPrivateKey[S]) bool { return a.Equal(b) }, func(x *dhc.ExtendedPrivateKey[S]) error {
			if x == nil || utils.IsNil(x.Value()) {
				return sgErrNil
			}
			seedKey, err := dhc.NewPrivateKey(x.Bytes())
			if err != nil {
				return err
			}
			y, err := dhc.ExtendPrivateKey(seedKey, algebra.StructureMustBeAs[algebra.PrimeField[S]](x.Value().Structure()))
			if err != nil {
				return err
			}
			if !y.Value().Equal(x.Value()) {
				return errors.New("scalar is not derived from the seed")
			}
			return nil
		})
		seedKey := must(dhc.NewPrivateKey(esk.Bytes()))
		add("dhc.PrivateKey", tag+fmt.Sprint(i), seedKey, func(a, b *dhc.PrivateKey) bool { return a.Equal(b) }, func(x *dhc.PrivateKey) error {
			if x == nil {
				return sgErrNil
			}
			_, err := dhc.NewPrivateKey(x.Value())
			return err
		})
		add("key_agreement.PublicKey["+tag+"]", fmt.Sprint(i), pk, func(a, b *ka.PublicKey[P, S]) bool { return a.Equal(b) }, func(x *ka.PublicKey[P, S]) error {
			if x == nil || utils.IsNil(x.Value()) {
				return sgErrNil
			}
			_, err := ka.NewPublicKey(x.Value(), x.Type())
			return err
		})
		kask := must(ka.NewPrivateKey(esk.Value(), dhc.Type))
		add("key_agreement.PrivateKey["+tag+"]", fmt.Sprint(i), kask, func(a, b *ka.PrivateKey[S]) bool { return a.Equal(b) }, func(x *ka.PrivateKey[S]) error {
			if x == nil || utils.IsNil(x.Value()) {
				return sgErrNil
			}
			_, err := ka.NewPrivateKey(x.Value(), x.Type())
			return err
		})
	}
	s01 := must(dhc.DeriveSharedSecret(esks[0], pks[1]))
	s10 := must(dhc.DeriveSharedSecret(esks[1], pks[0]))
	if !s01.Equal(s10) {
		panic("capture: DH shared secrets differ")
	}
	add("key_agreement.SharedKey", tag, s01, func(a, b *ka.SharedKey) bool { return a.Equal(b) }, func(x *ka.SharedKey) error {
		if x == nil {
			return sgErrNil
		}
		if ct.SliceIsZero(x.Bytes()) == ct.True {
			return errors.New("shared key is zero")
		}
		_, err := ka.NewSharedKey(x.Bytes(), x.Type())
		return err
	})
}

package cbor

import (
	"os"
	"testing"
)

// TestMain turns the `go test -c` binary into the driver with testing.Testing() == true
// (library size floors off): <binary> -test.timeout 0 -- <driver args>.
func TestMain(m *testing.M) {
	args := os.Args[1:]
	for i, a := range args {
		if a == "--" {
			os.Exit(Main(args[i+1:]))
		}
	}
	os.Exit(Main(nil))
}

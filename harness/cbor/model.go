package cbor

// Replay of the TLC-generated behaviours of specs/Cbor (CborMC) through the real pkg/base/serde on
// Go types that realise the model schemas T1..T6. Logged: accept / reject, the decoded value as an
// abstract tree, and the item sequence of its re-encoding. CborTrace re-decides with Dec / Enc.

import (
	"bufio"
	"encoding/json"
	"fmt"
	"os"
	"sort"

	"github.com/bronlabs/bron-crypto/pkg/base/serde"
)

const (
	modelTagReg    = 6001
	modelTagCustom = 6002
)

type mIface interface{ isModel() }

type mT1 struct {
	A uint64 `cbor:"a"`
	B []byte `cbor:"b"`
}

type mT2 struct {
	A []uint64          `cbor:"a"`
	B map[uint64]uint64 `cbor:"b"`
}

// mReg: a registered plain struct (the decoder itself enforces the tag).
type mReg struct {
	A uint64 `cbor:"a"`
}

func (*mReg) isModel() {}

// mCustom: registered, tag written by MarshalCBORTagged, decoded through a DTO (the library's pattern).
type mCustom struct{ a uint64 }

type mCustomDTO struct {
	A uint64 `cbor:"a"`
}

func (*mCustom) isModel() {}
func (c *mCustom) MarshalCBOR() ([]byte, error) {
	return serde.MarshalCBORTagged(&mCustomDTO{A: c.a}, modelTagCustom)
}
func (c *mCustom) UnmarshalCBOR(data []byte) error {
	dto, err := serde.UnmarshalCBOR[*mCustomDTO](data)
	if err != nil {
		return err
	}
	if dto == nil {
		return fmt.Errorf("nil dto")
	}
	c.a = dto.A
	return nil
}

type mT3 struct {
	A mIface `cbor:"a"`
	B *mT1   `cbor:"b"`
}

func init() {
	serde.Register[*mReg](modelTagReg)
	serde.Register[*mCustom](modelTagCustom)
}

type jitem struct {
	Mt  int    `json:"mt"`
	Arg uint64 `json:"arg"`
	Ind bool   `json:"ind"`
	S   string `json:"s"`
	P   []int  `json:"p"`
}

type behaviour struct {
	Sch   string  `json:"sch"`
	Cls   string  `json:"cls"`
	Pos   int     `json:"pos"`
	Var   string  `json:"var"`
	Items []jitem `json:"items"`
}

func itemsToBytes(items []jitem) []byte {
	var out []byte
	for _, it := range items {
		switch it.Mt {
		case 0:
			out = append(out, head(0, it.Arg)...)
		case 2:
			if it.Ind {
				out = append(out, 0x5f)
				continue
			}
			out = append(out, head(2, uint64(len(it.P)))...)
			for _, b := range it.P {
				out = append(out, byte(b))
			}
		case 3:
			if it.Ind {
				out = append(out, 0x7f)
				continue
			}
			out = append(out, head(3, uint64(len(it.S)))...)
			out = append(out, it.S...)
		case 4, 5:
			if it.Ind {
				out = append(out, byte(it.Mt<<5)|31)
				continue
			}
			out = append(out, head(it.Mt, it.Arg)...)
		case 6:
			out = append(out, head(6, it.Arg)...)
		case 7:
			out = append(out, 0xe0|byte(it.Arg))
		}
	}
	return out
}

func treeToItems(n *node, out []map[string]any) []map[string]any {
	it := func(mt int, arg uint64, s string, p []int) map[string]any {
		if p == nil {
			p = []int{}
		}
		return map[string]any{"mt": mt, "arg": arg, "ind": false, "s": s, "p": p}
	}
	switch n.mt {
	case mtUint:
		return append(out, it(0, n.arg, "", nil))
	case mtBytes:
		p := make([]int, len(n.payload))
		for i, b := range n.payload {
			p[i] = int(b)
		}
		return append(out, it(2, uint64(len(p)), "", p))
	case mtText:
		return append(out, it(3, uint64(len(n.payload)), string(n.payload), nil))
	case mtArray:
		out = append(out, it(4, uint64(len(n.kids)), "", nil))
	case mtMap:
		out = append(out, it(5, uint64(len(n.kids)/2), "", nil))
	case mtTag:
		out = append(out, it(6, n.arg, "", nil))
	default:
		return append(out, it(7, n.arg, "", nil))
	}
	for _, k := range n.kids {
		out = treeToItems(k, out)
	}
	return out
}

var vNil = map[string]any{"t": "nil"}

func vU(n uint64) map[string]any { return map[string]any{"t": "u", "n": n} }
func vB(b []byte) map[string]any {
	if b == nil {
		return vNil
	}
	p := make([]int, len(b))
	for i, x := range b {
		p[i] = int(x)
	}
	return map[string]any{"t": "b", "p": p}
}
func vS(f map[string]any) map[string]any { return map[string]any{"t": "s", "f": f} }
func vT1(x *mT1) map[string]any {
	if x == nil {
		return vNil
	}
	return vS(map[string]any{"a": vU(x.A), "b": vB(x.B)})
}
func vIface(x mIface) map[string]any {
	switch y := x.(type) {
	case *mReg:
		if y == nil {
			return map[string]any{"t": "typed-nil"}
		}
		return map[string]any{"t": "g", "tag": modelTagReg, "v": vS(map[string]any{"a": vU(y.A)})}
	case *mCustom:
		if y == nil {
			return map[string]any{"t": "typed-nil"}
		}
		return map[string]any{"t": "g", "tag": modelTagCustom, "v": vS(map[string]any{"a": vU(y.a)})}
	}
	return vNil
}

// decodeModel decodes b as schema sch; returns the abstract value and the re-encoding.
func decodeModel(sch string, b []byte) (val map[string]any, re []byte, err error) {
	switch sch {
	case "T1":
		x, e := serde.UnmarshalCBOR[*mT1](b)
		if e != nil {
			return nil, nil, e
		}
		re, err = serde.MarshalCBOR(x)
		return vT1(x), re, err
	case "T2":
		x, e := serde.UnmarshalCBOR[*mT2](b)
		if e != nil {
			return nil, nil, e
		}
		re, err = serde.MarshalCBOR(x)
		if x == nil {
			return vNil, re, err
		}
		var a, m map[string]any = vNil, vNil
		if x.A != nil {
			xs := []any{}
			for _, u := range x.A {
				xs = append(xs, vU(u))
			}
			a = map[string]any{"t": "a", "xs": xs}
		}
		if x.B != nil {
			var ks []uint64
			for k := range x.B {
				ks = append(ks, k)
			}
			sort.Slice(ks, func(i, j int) bool { return ks[i] < ks[j] })
			ps := []any{}
			for _, k := range ks {
				ps = append(ps, map[string]any{"k": k, "v": vU(x.B[k])})
			}
			m = map[string]any{"t": "m", "ps": ps}
		}
		return vS(map[string]any{"a": a, "b": m}), re, err
	case "T3":
		x, e := serde.UnmarshalCBOR[*mT3](b)
		if e != nil {
			return nil, nil, e
		}
		re, err = serde.MarshalCBOR(x)
		if x == nil {
			return vNil, re, err
		}
		return vS(map[string]any{"a": vIface(x.A), "b": vT1(x.B)}), re, err
	case "T4":
		x, e := serde.UnmarshalCBOR[*mReg](b)
		if e != nil {
			return nil, nil, e
		}
		re, err = serde.MarshalCBOR(x)
		if x == nil {
			return vNil, re, err
		}
		return vS(map[string]any{"a": vU(x.A)}), re, err
	case "T5":
		x, e := serde.UnmarshalCBOR[*mCustom](b)
		if e != nil {
			return nil, nil, e
		}
		re, err = serde.MarshalCBOR(x)
		if x == nil {
			return vNil, re, err
		}
		return vS(map[string]any{"a": vU(x.a)}), re, err
	case "T6":
		x, e := serde.UnmarshalCBOR[mIface](b)
		if e != nil {
			return nil, nil, e
		}
		re, err = serde.MarshalCBOR(x)
		return vIface(x), re, err
	}
	return nil, nil, fmt.Errorf("unknown schema %s", sch)
}

func replayModel(path string) error {
	f, err := os.Open(path)
	if err != nil {
		return err
	}
	defer f.Close()
	sc := bufio.NewScanner(f)
	sc.Buffer(make([]byte, 1<<20), 1<<26)
	n := 0
	for sc.Scan() {
		if len(sc.Bytes()) == 0 {
			continue
		}
		var bh behaviour
		if err := json.Unmarshal(sc.Bytes(), &bh); err != nil {
			return err
		}
		n++
		b := itemsToBytes(bh.Items)
		ev := map[string]any{"sch": bh.Sch, "cls": bh.Cls, "pos": bh.Pos, "var": bh.Var, "hex": hexCap(b, 400)}
		var raw any
		_ = json.Unmarshal(sc.Bytes(), &raw)
		ev["items"] = raw.(map[string]any)["items"]
		var val map[string]any
		var re []byte
		var derr error
		p, msg := guard(func() { val, re, derr = decodeModel(bh.Sch, b) })
		ev["panic"] = p
		ev["res"], ev["val"], ev["re"], ev["det"] = "rej", vNil, []any{}, true
		if p {
			ev["detail"] = msg
		} else if derr == nil {
			ev["res"], ev["val"] = "acc", val
			t, perr := parse(re)
			if perr != nil {
				return fmt.Errorf("model: cannot parse re-encoding: %w", perr)
			}
			ev["re"] = treeToItems(t, []map[string]any{})
			// determinism of the real encoder: Go map iteration order is random, the bytes must not be
			for i := 0; i < 8; i++ {
				_, re2, _ := decodeModel(bh.Sch, b)
				if string(re2) != string(re) {
					ev["det"] = false
				}
			}
		}
		emit("model", ev)
	}
	if n == 0 {
		return fmt.Errorf("no behaviours in %s", path)
	}
	return sc.Err()
}

package cbor

// Round messages of REAL protocol executions (group "proto") and key shards / public material of the
// threshold signing schemes (group "shards").
//
// Every protocol is driven round by round with three parties (ids 1,2,3; threshold 2-of-3) on k256.
// The outputs of a round are routed to the receivers through serde (marshal + unmarshal), exactly as
// pkg/network/exchange.go does, so the protocols consume decoded messages; a run that does not
// terminate successfully is a failure of this file (must()).
//
// Validity predicate of a round message: its own Validate(receiver, sender) method, evaluated with a
// real receiving participant of the run (all Validate methods of the captured protocols only read the
// static configuration of the participant: quorum, access structure, suite parameters).
//
// Not captured:
//   - cggmp21 shards: keygen/trusteddealer.Deal at the 3072-bit floor of a plain binary (Blum Paillier key +
//     ring-Pedersen safe primes per party) took 64.5 s for 3 parties (> 60 s budget).
//   - przs: non-interactive, no messages; its output additive.Share has no CBOR form (unexported fields).
//   - lindell17 / dkls23 / cggmp21 signing and DKG round messages: not part of this file.
// Random streams used: 300-393.

import (
	"crypto/sha256"
	"errors"
	"fmt"
	"io"
	"os"
	"slices"
	"time"

	"github.com/bronlabs/bron-crypto/pkg/base/curves/k256"
	"github.com/bronlabs/bron-crypto/pkg/base/curves/pairable/bls12381"
	"github.com/bronlabs/bron-crypto/pkg/base/datastructures/hashmap"
	"github.com/bronlabs/bron-crypto/pkg/base/serde"
	"github.com/bronlabs/bron-crypto/pkg/base/utils"
	"github.com/bronlabs/bron-crypto/pkg/mpc"
	"github.com/bronlabs/bron-crypto/pkg/mpc/aor"
	"github.com/bronlabs/bron-crypto/pkg/mpc/dkg/canetti"
	"github.com/bronlabs/bron-crypto/pkg/mpc/dkg/gennaro"
	"github.com/bronlabs/bron-crypto/pkg/mpc/dkg/trusteddealer"
	"github.com/bronlabs/bron-crypto/pkg/mpc/redistribute"
	rvole_bbot "github.com/bronlabs/bron-crypto/pkg/mpc/rvole/bbot"
	rvole_softspoken "github.com/bronlabs/bron-crypto/pkg/mpc/rvole/softspoken"
	"github.com/bronlabs/bron-crypto/pkg/mpc/session"
	"github.com/bronlabs/bron-crypto/pkg/mpc/sharing"
	"github.com/bronlabs/bron-crypto/pkg/mpc/sharing/accessstructures/threshold"
	mpcbls "github.com/bronlabs/bron-crypto/pkg/mpc/signatures/bls"
	blskeygen "github.com/bronlabs/bron-crypto/pkg/mpc/signatures/bls/boldyreva02/keygen"
	"github.com/bronlabs/bron-crypto/pkg/mpc/signatures/ecdsa/dkls23"
	"github.com/bronlabs/bron-crypto/pkg/mpc/signatures/ecdsa/lindell17"
	l17dealer "github.com/bronlabs/bron-crypto/pkg/mpc/signatures/ecdsa/lindell17/keygen/trusted_dealer"
	mpcschnorr "github.com/bronlabs/bron-crypto/pkg/mpc/signatures/schnorr"
	"github.com/bronlabs/bron-crypto/pkg/mpc/signatures/schnorr/lindell22"
	l22keygen "github.com/bronlabs/bron-crypto/pkg/mpc/signatures/schnorr/lindell22/keygen"
	l22signing "github.com/bronlabs/bron-crypto/pkg/mpc/signatures/schnorr/lindell22/signing"
	"github.com/bronlabs/bron-crypto/pkg/mpc/zero/hjky"
	"github.com/bronlabs/bron-crypto/pkg/mpc/zero/przs"
	"github.com/bronlabs/bron-crypto/pkg/network"
	"github.com/bronlabs/bron-crypto/pkg/network/echo"
	"github.com/bronlabs/bron-crypto/pkg/ot/base/ecbbot"
	"github.com/bronlabs/bron-crypto/pkg/ot/base/vsot"
	"github.com/bronlabs/bron-crypto/pkg/ot/extension/softspoken"
	"github.com/bronlabs/bron-crypto/pkg/proofs/sigma/compiler/fiatshamir"
	"github.com/bronlabs/bron-crypto/pkg/signatures/schnorrlike"
	"github.com/bronlabs/bron-crypto/pkg/signatures/schnorrlike/bip340"

	"verif/harness/tr"
)

func init() {
	group("proto", captureProto)
	group("shards", captureShards)
}

type (
	c12cID  = sharing.ID
	c12cK   = *k256.Point
	c12cS   = *k256.Scalar
	c12cB   = *k256.BaseFieldElement
	c12cCtx = map[c12cID]*session.Context
)

var c12cIDs = []c12cID{1, 2, 3}

// ---- plumbing (re-implementation of ntu.MapO2I without testing.TB) ----

type c12cParty interface{ SharingID() sharing.ID }

func c12cRT[T any](v T) T {
	return must(serde.UnmarshalCBOR[T](must(serde.MarshalCBOR(v))))
}

func c12cKeys[V any](m map[c12cID]V) []c12cID {
	var out []c12cID
	for k := range m {
		out = append(out, k)
	}
	slices.Sort(out)
	return out
}

func c12cRng(base uint64, id c12cID) io.Reader { return tr.Rng(seed, base+uint64(id)) }

// c12cTimed runs f and reports the wall time of one protocol on stderr.
func c12cTimed(name string, f func()) {
	t0 := time.Now()
	n0 := len(captures)
	f()
	fmt.Fprintf(os.Stderr, "[proto-timing] %-28s %3d values %7.3fs\n", name, len(captures)-n0, time.Since(t0).Seconds())
}

// c12cBcast captures every broadcast of a round (validity: Validate with a receiver different from
// the sender) and returns the decoded inputs of every receiver.
//
// snapshot: capture a decoded copy instead of the object returned by RoundN. Needed where the returned
// message shares memory with the participant's state that the NEXT round overwrites in place
// (aor.Round2Broadcast.Message = p.state.r, pkg/mpc/aor/rounds.go:62 and :83;
// canetti.Round2Broadcast.Message.Rho = p.state.rho, pkg/mpc/dkg/canetti/rounds.go:51,63 and :141):
// the live object would no longer encode to the bytes that were sent.
func c12cBcast[P c12cParty, B network.Message[P]](typ string, parts map[c12cID]P, out map[c12cID]B, snapshot ...bool) map[c12cID]network.RoundMessages[B, P] {
	ids := c12cKeys(parts)
	for _, s := range c12cKeys(out) {
		m := out[s]
		if utils.IsNil(m) {
			continue
		}
		if len(snapshot) > 0 && snapshot[0] {
			m = c12cRT(m)
		}
		var rcv P
		for _, r := range ids {
			if r != s {
				rcv = parts[r]
				break
			}
		}
		addMsg(typ, fmt.Sprintf("p%d", s), m, nil, func(x B) error { return x.Validate(rcv, s) })
	}
	in := map[c12cID]network.RoundMessages[B, P]{}
	for _, r := range ids {
		hm := hashmap.NewComparable[sharing.ID, B]()
		for _, s := range c12cKeys(out) {
			if s == r || utils.IsNil(out[s]) {
				continue
			}
			hm.Put(s, c12cRT(out[s]))
		}
		in[r] = hm.Freeze()
	}
	return in
}

// c12cUcast captures every unicast of a round (validity: Validate with the addressee) and returns the
// decoded inputs of every receiver.
func c12cUcast[P c12cParty, U network.Message[P]](typ string, parts map[c12cID]P, out map[c12cID]network.OutgoingUnicasts[U, P]) map[c12cID]network.RoundMessages[U, P] {
	ids := c12cKeys(parts)
	in := map[c12cID]network.RoundMessages[U, P]{}
	for _, r := range ids {
		hm := hashmap.NewComparable[sharing.ID, U]()
		for _, s := range c12cKeys(out) {
			if s == r || utils.IsNil(out[s]) {
				continue
			}
			m, ok := out[s].Get(r)
			if !ok || utils.IsNil(m) {
				continue
			}
			rcv := parts[r]
			addMsg(typ, fmt.Sprintf("p%d-to-p%d", s, r), m, nil, func(x U) error { return x.Validate(rcv, s) })
			hm.Put(s, c12cRT(m))
		}
		in[r] = hm.Freeze()
	}
	return in
}

// c12cP2P captures one message of a two-party protocol and returns its decoded form.
func c12cP2P[P any, M network.Message[P]](typ, name string, m M, rcv P, sender c12cID) M {
	addMsg(typ, name, m, nil, func(x M) error { return x.Validate(rcv, sender) })
	return c12cRT(m)
}

func c12cClone(ctxs c12cCtx) c12cCtx {
	out := c12cCtx{}
	for id, c := range ctxs {
		out[id] = c.Clone()
	}
	return out
}

func c12cSub(ctxs c12cCtx, ids ...c12cID) c12cCtx {
	out := c12cCtx{}
	for _, id := range ids {
		out[id] = must(ctxs[id].SubContext(idset(ids...)))
	}
	return out
}

// ---- session setup (pkg/mpc/session: 4 rounds, 3 message types + 1 broadcast) ----

func c12cSession(ids []c12cID, stream uint64) c12cCtx {
	ps := map[c12cID]*session.Participant{}
	for _, id := range ids {
		ps[id] = must(session.NewParticipant(id, idset(ids...), c12cRng(stream, id)))
	}
	r1 := map[c12cID]*session.Round1Broadcast{}
	for _, id := range ids {
		r1[id] = must(ps[id].Round1())
	}
	r1in := c12cBcast("session.Round1Broadcast", ps, r1)
	r2b := map[c12cID]*session.Round2Broadcast{}
	r2u := map[c12cID]network.OutgoingUnicasts[*session.Round2P2P, *session.Participant]{}
	for _, id := range ids {
		r2b[id], r2u[id] = must2(ps[id].Round2(r1in[id]))
	}
	r2bin := c12cBcast("session.Round2Broadcast", ps, r2b)
	r2uin := c12cUcast("session.Round2P2P", ps, r2u)
	r3u := map[c12cID]network.OutgoingUnicasts[*session.Round3P2P, *session.Participant]{}
	for _, id := range ids {
		r3u[id] = must(ps[id].Round3(r2bin[id], r2uin[id]))
	}
	r3uin := c12cUcast("session.Round3P2P", ps, r3u)
	ctxs := c12cCtx{}
	for _, id := range ids {
		ctxs[id] = must(ps[id].Round4(r3uin[id]))
	}
	sid := ctxs[ids[0]].SessionID()
	for _, id := range ids {
		if ctxs[id].SessionID() != sid {
			panic("session: parties disagree on the session id")
		}
	}
	return ctxs
}

// ---- Gennaro DKG ----

func c12cGennaro(ctxs c12cCtx, stream uint64) map[c12cID]*mpc.BaseShard[c12cK, c12cS] {
	type P = *gennaro.Participant[c12cK, c12cS]
	ac := must(threshold.NewThresholdAccessStructure(2, idset(c12cIDs...)))
	ps := map[c12cID]P{}
	for _, id := range c12cIDs {
		ps[id] = must(gennaro.NewParticipant(ctxs[id], k256.NewCurve(), ac, fiatshamir.Name, c12cRng(stream, id)))
	}
	r1b := map[c12cID]*gennaro.Round1Broadcast[c12cK, c12cS]{}
	r1u := map[c12cID]network.OutgoingUnicasts[*gennaro.Round1Unicast[c12cK, c12cS], P]{}
	for _, id := range c12cIDs {
		var err error
		r1b[id], r1u[id], err = ps[id].Round1()
		must0(err)
	}
	r1bin := c12cBcast("gennaro.Round1Broadcast[k256]", ps, r1b)
	r1uin := c12cUcast("gennaro.Round1Unicast[k256]", ps, r1u)
	r2b := map[c12cID]*gennaro.Round2Broadcast[c12cK, c12cS]{}
	for _, id := range c12cIDs {
		r2b[id] = must(ps[id].Round2(r1bin[id], r1uin[id]))
	}
	r2bin := c12cBcast("gennaro.Round2Broadcast[k256]", ps, r2b)
	out := map[c12cID]*mpc.BaseShard[c12cK, c12cS]{}
	for _, id := range c12cIDs {
		out[id] = must(ps[id].Round3(r2bin[id]))
	}
	pk := out[1].PublicKeyValue()
	for _, id := range c12cIDs {
		if !out[id].PublicKeyValue().Equal(pk) {
			panic("gennaro: parties disagree on the public key")
		}
	}
	return out
}

// ---- Canetti DKG ----

func c12cCanetti(ctxs c12cCtx, stream uint64) {
	type P = *canetti.Participant[c12cK, c12cS]
	ac := must(threshold.NewThresholdAccessStructure(2, idset(c12cIDs...)))
	ps := map[c12cID]P{}
	for _, id := range c12cIDs {
		ps[id] = must(canetti.NewParticipant(ctxs[id], ac, k256.NewCurve(), c12cRng(stream, id)))
	}
	r1b := map[c12cID]*canetti.Round1Broadcast[c12cK, c12cS]{}
	for _, id := range c12cIDs {
		r1b[id] = must(ps[id].Round1())
	}
	r1in := c12cBcast("canetti.Round1Broadcast[k256]", ps, r1b)
	r2b := map[c12cID]*canetti.Round2Broadcast[c12cK, c12cS]{}
	r2u := map[c12cID]network.OutgoingUnicasts[*canetti.Round2P2P[c12cK, c12cS], P]{}
	for _, id := range c12cIDs {
		var err error
		r2b[id], r2u[id], err = ps[id].Round2(r1in[id])
		must0(err)
	}
	r2bin := c12cBcast("canetti.Round2Broadcast[k256]", ps, r2b, true)
	r2uin := c12cUcast("canetti.Round2P2P[k256]", ps, r2u)
	r3b := map[c12cID]*canetti.Round3Broadcast[c12cK, c12cS]{}
	for _, id := range c12cIDs {
		r3b[id] = must(ps[id].Round3(r2bin[id], r2uin[id]))
	}
	r3in := c12cBcast("canetti.Round3Broadcast[k256]", ps, r3b)
	var pk c12cK
	for _, id := range c12cIDs {
		sh := must(ps[id].Round4(r3in[id]))
		if pk == nil {
			pk = sh.PublicKeyValue()
		} else if !pk.Equal(sh.PublicKeyValue()) {
			panic("canetti: parties disagree on the public key")
		}
	}
}

// ---- HJKY zero sharing ----

func c12cHJKY(ctxs c12cCtx, stream uint64) {
	type P = *hjky.Participant[c12cK, c12cS]
	ac := must(threshold.NewThresholdAccessStructure(2, idset(c12cIDs...)))
	ps := map[c12cID]P{}
	for _, id := range c12cIDs {
		ps[id] = must(hjky.NewParticipant(ctxs[id], ac, k256.NewCurve(), c12cRng(stream, id)))
	}
	r1b := map[c12cID]*hjky.Round1Broadcast[c12cK, c12cS]{}
	r1u := map[c12cID]network.OutgoingUnicasts[*hjky.Round1P2P[c12cK, c12cS], P]{}
	for _, id := range c12cIDs {
		var err error
		r1b[id], r1u[id], err = ps[id].Round1()
		must0(err)
	}
	r1bin := c12cBcast("hjky.Round1Broadcast[k256]", ps, r1b)
	r1uin := c12cUcast("hjky.Round1P2P[k256]", ps, r1u)
	for _, id := range c12cIDs {
		_, _, err := ps[id].Round2(r1bin[id], r1uin[id])
		must0(err)
	}
}

// ---- Lindell22 threshold Schnorr (BIP340 variant) ----

func c12cValidL22PSig(x *lindell22.PartialSignature[c12cK, c12cS]) error {
	if x == nil {
		return errors.New("nil")
	}
	_, err := schnorrlike.NewSignature(x.Sig.E, x.Sig.R, x.Sig.S)
	return err
}

// c12cEqL22PSig: PartialSignature has no Equal; its only field has one (which dereferences all three
// components, so absent components are compared here).
func c12cEqL22PSig(a, b *lindell22.PartialSignature[c12cK, c12cS]) bool {
	if a == nil || b == nil {
		return a == b
	}
	eqS := func(x, y c12cS) bool {
		if x == nil || y == nil {
			return x == y
		}
		return x.Equal(y)
	}
	eqP := func(x, y c12cK) bool {
		if x == nil || y == nil {
			return x == y
		}
		return x.Equal(y)
	}
	return eqS(a.Sig.E, b.Sig.E) && eqP(a.Sig.R, b.Sig.R) && eqS(a.Sig.S, b.Sig.S)
}

func c12cLindell22(ctxs c12cCtx, shards map[c12cID]*lindell22.Shard[c12cK, c12cS], stream uint64) {
	type P = *l22signing.Cosigner[c12cK, c12cS, []byte]
	scheme := must(bip340.NewScheme(tr.Rng(seed, stream)))
	msg := []byte("verif c12 lindell22")
	ps := map[c12cID]P{}
	for _, id := range c12cIDs {
		ps[id] = must(l22signing.NewCosigner(ctxs[id], shards[id], fiatshamir.Name, scheme.Variant(), c12cRng(stream, id)))
	}
	r1b := map[c12cID]*l22signing.Round1Broadcast[c12cK, c12cS, []byte]{}
	r1u := map[c12cID]network.OutgoingUnicasts[*l22signing.Round1P2P[c12cK, c12cS, []byte], P]{}
	for _, id := range c12cIDs {
		var err error
		r1b[id], r1u[id], err = ps[id].Round1()
		must0(err)
	}
	r1bin := c12cBcast("lindell22.signing.Round1Broadcast[k256]", ps, r1b)
	r1uin := c12cUcast("lindell22.signing.Round1P2P[k256]", ps, r1u)
	r2b := map[c12cID]*l22signing.Round2Broadcast[c12cK, c12cS, []byte]{}
	for _, id := range c12cIDs {
		r2b[id] = must(ps[id].Round2(r1bin[id], r1uin[id]))
	}
	r2bin := c12cBcast("lindell22.signing.Round2Broadcast[k256]", ps, r2b)
	psigs := hashmap.NewComparable[sharing.ID, *lindell22.PartialSignature[c12cK, c12cS]]()
	for _, id := range c12cIDs {
		ps3 := must(ps[id].Round3(r2bin[id], msg))
		add("lindell22.PartialSignature[k256]", fmt.Sprintf("p%d", id), ps3,
			c12cEqL22PSig, c12cValidL22PSig)
		psigs.Put(id, c12cRT(ps3))
	}
	// the aggregator consumes the decoded partial signatures; the result must verify
	agg := must(l22signing.NewCosigningAggregator(ps[1], shards[1].PublicKeyMaterial(), scheme))
	sig := must(agg.Aggregate(psigs.Freeze(), msg))
	vf := must(scheme.Verifier())
	must0(vf.Verify(sig, shards[1].PublicKey(), msg))
}

// ---- agree on random ----

func c12cAOR(ctxs c12cCtx, stream uint64) {
	ps := map[c12cID]*aor.Participant{}
	for _, id := range c12cIDs {
		ps[id] = must(aor.NewParticipant(id, idset(c12cIDs...), 32, ctxs[id].Transcript(), c12cRng(stream, id)))
	}
	r1 := map[c12cID]*aor.Round1Broadcast{}
	for _, id := range c12cIDs {
		r1[id] = must(ps[id].Round1())
	}
	r1in := c12cBcast("aor.Round1Broadcast", ps, r1)
	r2 := map[c12cID]*aor.Round2Broadcast{}
	for _, id := range c12cIDs {
		r2[id] = must(ps[id].Round2(r1in[id]))
	}
	r2in := c12cBcast("aor.Round2Broadcast", ps, r2, true)
	var first []byte
	for _, id := range c12cIDs {
		out := must(ps[id].Round3(r2in[id]))
		if first == nil {
			first = out
		} else if string(first) != string(out) {
			panic("aor: parties disagree")
		}
	}
}

// ---- echo broadcast of an AOR round-1 message ----

func c12cEcho(stream uint64) {
	type B = *aor.Round1Broadcast
	type BP = *aor.Participant
	type P = *echo.Participant[B, BP]
	ps := map[c12cID]P{}
	for _, id := range c12cIDs {
		ps[id] = must(echo.NewParticipant[B, BP](id, idset(c12cIDs...)))
	}
	prng := tr.Rng(seed, stream)
	r1 := map[c12cID]network.OutgoingUnicasts[*echo.Round1P2P[B, BP], P]{}
	for _, id := range c12cIDs {
		var payload aor.Round1Broadcast
		must(io.ReadFull(prng, payload.Commitment[:]))
		r1[id] = must(ps[id].Round1(&payload))
	}
	r1in := c12cUcast("echo.Round1P2P[aor.Round1Broadcast]", ps, r1)
	r2 := map[c12cID]network.OutgoingUnicasts[*echo.Round2P2P[B, BP], P]{}
	for _, id := range c12cIDs {
		r2[id] = must(ps[id].Round2(r1in[id]))
	}
	r2in := c12cUcast("echo.Round2P2P[aor.Round1Broadcast]", ps, r2)
	for _, id := range c12cIDs {
		out := must(ps[id].Round3(r2in[id]))
		if out.Size() != len(c12cIDs)-1 {
			panic("echo: wrong number of delivered messages")
		}
	}
}

// ---- redistribute: previous shareholders {1,2} of a 2-of-3 sharing to a fresh 2-of-3 sharing on {1,2,3} ----

func c12cRedistribute(ctxs c12cCtx, prev map[c12cID]*mpc.BaseShard[c12cK, c12cS], stream uint64) {
	type P = *redistribute.Participant[c12cK, c12cS]
	next := must(threshold.NewThresholdAccessStructure(2, idset(c12cIDs...)))
	prevHolders := idset(1, 2)
	ps := map[c12cID]P{}
	for _, id := range c12cIDs {
		var sh *mpc.BaseShard[c12cK, c12cS]
		if prevHolders.Contains(id) {
			sh = prev[id]
		}
		ps[id] = must(redistribute.NewParticipant(ctxs[id], prevHolders, sh, next, c12cRng(stream, id), redistribute.WithTrustedAnchorID(1)))
	}
	r1b := map[c12cID]*redistribute.Round1Broadcast[c12cK, c12cS]{}
	r1u := map[c12cID]network.OutgoingUnicasts[*redistribute.Round1P2P[c12cK, c12cS], P]{}
	for _, id := range c12cIDs {
		var err error
		r1b[id], r1u[id], err = ps[id].Round1()
		must0(err)
	}
	r1bin := c12cBcast("redistribute.Round1Broadcast[k256]", ps, r1b)
	r1uin := c12cUcast("redistribute.Round1P2P[k256]", ps, r1u)
	r2b := map[c12cID]*redistribute.Round2Broadcast[c12cK, c12cS]{}
	r2u := map[c12cID]network.OutgoingUnicasts[*redistribute.Round2P2P[c12cK, c12cS], P]{}
	for _, id := range c12cIDs {
		var err error
		r2b[id], r2u[id], err = ps[id].Round2(r1bin[id], r1uin[id])
		must0(err)
	}
	r2bin := c12cBcast("redistribute.Round2Broadcast[k256]", ps, r2b)
	r2uin := c12cUcast("redistribute.Round2P2P[k256]", ps, r2u)
	for _, id := range c12cIDs {
		sh := must(ps[id].Round3(r2bin[id], r2uin[id]))
		if sh == nil || !sh.PublicKeyValue().Equal(prev[1].PublicKeyValue()) {
			panic("redistribute: public key changed")
		}
	}
}

// ---- PRZS (non-interactive, no messages; additive.Share has no CBOR form): only run as a sanity check of the contexts ----

func c12cPRZS(ctxs c12cCtx) {
	sum := k256.NewScalarField().Zero()
	for _, id := range c12cIDs {
		sh := must(przs.SampleZeroShare(ctxs[id], k256.NewScalarField()))
		sum = sum.Add(sh.Value())
	}
	if !sum.IsZero() {
		panic("przs: shares do not sum to zero")
	}
}

// ---- two-party protocols between 1 (sender / alice) and 2 (receiver / bob): VSOT, ECBBOT, SoftSpoken, RVOLE ----

func c12cVSOT(ctxs c12cCtx, xi int, stream uint64, capture bool) (*vsot.SenderOutput, *vsot.ReceiverOutput) {
	suite := must(vsot.NewSuite(xi, 1, k256.NewCurve(), sha256.New))
	snd := must(vsot.NewSender(ctxs[1], suite, c12cRng(stream, 1)))
	rcv := must(vsot.NewReceiver(ctxs[2], suite, c12cRng(stream, 2)))
	choices := make([]byte, xi/8)
	must(io.ReadFull(tr.Rng(seed, stream), choices))
	r1 := must(snd.Round1())
	r2, rOut := must2(rcv.Round2(c12cP2P("vsot.Round1P2P[k256]", "s-to-r", r1, rcv, 1), choices))
	r3, sOut := must2(snd.Round3(c12cP2P("vsot.Round2P2P[k256]", "r-to-s", r2, snd, 2)))
	r4 := must(rcv.Round4(c12cP2P("vsot.Round3P2P[k256]", "s-to-r", r3, rcv, 1)))
	r5 := must(snd.Round5(c12cP2P("vsot.Round4P2P[k256]", "r-to-s", r4, snd, 2)))
	must0(rcv.Round6(c12cP2P("vsot.Round5P2P[k256]", "s-to-r", r5, rcv, 1)))
	_ = capture
	return sOut, rOut
}

func c12cECBBOT(ctxs c12cCtx, stream uint64) {
	const xi = 16
	suite := must(ecbbot.NewSuite(xi, 2, k256.NewCurve()))
	snd := must(ecbbot.NewSender(ctxs[1], suite, c12cRng(stream, 1)))
	rcv := must(ecbbot.NewReceiver(ctxs[2], suite, c12cRng(stream, 2)))
	choices := make([]byte, xi/8)
	must(io.ReadFull(tr.Rng(seed, stream), choices))
	r1 := must(snd.Round1())
	r2, _ := must2(rcv.Round2(c12cP2P("ecbbot.Round1P2P[k256]", "s-to-r", r1, rcv, 1), choices))
	must(snd.Round3(c12cP2P("ecbbot.Round2P2P[k256]", "r-to-s", r2, snd, 2)))
}

func c12cRVOLEbbot(ctxs c12cCtx, stream uint64) {
	suite := must(rvole_bbot.NewSuite(1, k256.NewCurve()))
	alice := must(rvole_bbot.NewAlice(ctxs[1], suite, c12cRng(stream, 1)))
	bob := must(rvole_bbot.NewBob(ctxs[2], suite, c12cRng(stream, 2)))
	prng := tr.Rng(seed, stream)
	a := []c12cS{must(k256.NewScalarField().Random(prng))}
	r1 := must(alice.Round1())
	r2, b := must2(bob.Round2(c12cP2P("rvole_bbot.Round1P2P[k256]", "a-to-b", r1, bob, 1)))
	r3, c := must2(alice.Round3(c12cP2P("rvole_bbot.Round2P2P[k256]", "b-to-a", r2, alice, 2), a))
	d := must(bob.Round4(c12cP2P("rvole_bbot.Round3P2P[k256]", "a-to-b", r3, bob, 1)))
	for i := range a {
		if !a[i].Mul(b).Equal(c[i].Add(d[i])) {
			panic("rvole_bbot: a*b != c+d")
		}
	}
}

func c12cSoftspoken(ctxs c12cCtx, seedsS *vsot.SenderOutput, seedsR *vsot.ReceiverOutput, stream uint64) {
	// OT extension: the base-OT receiver becomes the extension sender
	const xi, l = 128, 1
	suite := must(softspoken.NewSuite(xi, l, sha256.New))
	snd := must(softspoken.NewSender(ctxs[2], seedsR, suite, c12cRng(stream, 2)))
	rcv := must(softspoken.NewReceiver(ctxs[1], seedsS, suite, c12cRng(stream, 1)))
	x := make([]byte, xi/8)
	must(io.ReadFull(tr.Rng(seed, stream), x))
	r1, _ := must2(rcv.Round1(x))
	must(snd.Round2(c12cP2P("softspoken.Round1P2P", "r-to-s", r1, snd, 1)))
}

func c12cRVOLEsoftspoken(ctxs c12cCtx, seedsS *vsot.SenderOutput, seedsR *vsot.ReceiverOutput, stream uint64) {
	suite := must(rvole_softspoken.NewSuite(2, k256.NewCurve(), sha256.New))
	alice := must(rvole_softspoken.NewAlice(ctxs[2], suite, seedsR, c12cRng(stream, 2)))
	bob := must(rvole_softspoken.NewBob(ctxs[1], suite, seedsS, c12cRng(stream, 1)))
	prng := tr.Rng(seed, stream)
	a := []c12cS{must(k256.NewScalarField().Random(prng)), must(k256.NewScalarField().Random(prng))}
	r1, b := must2(bob.Round1())
	r2, c := must2(alice.Round2(c12cP2P("rvole_softspoken.Round1P2P[k256]", "b-to-a", r1, alice, 1), a))
	d := must(bob.Round3(c12cP2P("rvole_softspoken.Round2P2P[k256]", "a-to-b", r2, bob, 2)))
	for i := range a {
		if !a[i].Mul(b).Equal(c[i].Add(d[i])) {
			panic("rvole_softspoken: a*b != c+d")
		}
	}
}

// ---- group "proto" ----

var c12cDKGShards map[c12cID]*mpc.BaseShard[c12cK, c12cS]

func captureProto() {
	var ctxs c12cCtx
	c12cTimed("session", func() { ctxs = c12cSession(c12cIDs, 300) })
	c12cTimed("gennaro", func() { c12cDKGShards = c12cGennaro(c12cClone(ctxs), 310) })
	c12cTimed("hjky", func() { c12cHJKY(c12cClone(ctxs), 320) })
	c12cTimed("lindell22.signing", func() {
		sh := map[c12cID]*lindell22.Shard[c12cK, c12cS]{}
		for id, b := range c12cDKGShards {
			sh[id] = must(l22keygen.NewShard(b))
		}
		c12cLindell22(c12cClone(ctxs), sh, 330)
	})
	c12cTimed("canetti", func() { c12cCanetti(c12cClone(ctxs), 340) })
	c12cTimed("aor", func() { c12cAOR(c12cClone(ctxs), 345) })
	c12cTimed("echo", func() { c12cEcho(350) })
	c12cTimed("redistribute", func() { c12cRedistribute(c12cClone(ctxs), c12cDKGShards, 355) })
	c12cTimed("przs", func() { c12cPRZS(c12cClone(ctxs)) })
	two := c12cSub(ctxs, 1, 2)
	var sOut *vsot.SenderOutput
	var rOut *vsot.ReceiverOutput
	c12cTimed("vsot", func() { sOut, rOut = c12cVSOT(c12cClone(two), 128, 360, true) })
	c12cTimed("ecbbot", func() { c12cECBBOT(c12cClone(two), 365) })
	c12cTimed("softspoken", func() { c12cSoftspoken(c12cClone(two), sOut, rOut, 370) })
	c12cTimed("rvole_bbot", func() { c12cRVOLEbbot(c12cClone(two), 375) })
	c12cTimed("rvole_softspoken", func() { c12cRVOLEsoftspoken(c12cClone(two), sOut, rOut, 380) })
}

// ---- group "shards" ----

func c12cValidSchnorrShard(x *mpcschnorr.Shard[c12cK, c12cS]) error {
	if x == nil {
		return errors.New("nil")
	}
	_, err := mpcschnorr.NewShard(x.Share(), x.VerificationVector(), x.MSP())
	return err
}

func c12cValidDkls23Shard(x *dkls23.Shard[c12cK, c12cB, c12cS]) error {
	if x == nil {
		return errors.New("nil")
	}
	bs, err := mpc.NewBaseShard(x.Share(), x.VerificationVector(), x.MSP())
	if err != nil {
		return err
	}
	_, err = dkls23.NewShard[c12cK, c12cB, c12cS](bs)
	return err
}

func captureShards() {
	ac := must(threshold.NewThresholdAccessStructure(2, idset(c12cIDs...)))
	c12cTimed("shards.schnorr+dkls23", func() {
		base := must(trusteddealer.Deal(k256.NewCurve(), ac, tr.Rng(seed, 390)))
		for _, id := range c12cIDs {
			b, _ := base.Get(id)
			name := fmt.Sprintf("p%d", id)
			ss := must(l22keygen.NewShard(b))
			add("schnorr.Shard[k256]", name, ss,
				func(a, b *mpcschnorr.Shard[c12cK, c12cS]) bool { return a.Equal(b) },
				c12cValidSchnorrShard)
			if id == 1 {
				add("schnorr.PublicMaterial[k256]", name, ss.PublicKeyMaterial(),
					func(a, b *mpcschnorr.PublicMaterial[c12cK, c12cS]) bool {
						return a.BasePublicMaterial.Equal(&b.BasePublicMaterial)
					},
					func(x *mpcschnorr.PublicMaterial[c12cK, c12cS]) error {
						if x == nil {
							return errors.New("nil")
						}
						_, err := mpc.NewBasePublicMaterial(x.MSP(), x.VerificationVector())
						return err
					})
			}
			ds := must(dkls23.NewShard[c12cK, c12cB, c12cS](b))
			add("dkls23.Shard[k256]", name, ds,
				func(a, b *dkls23.Shard[c12cK, c12cB, c12cS]) bool { return a.Equal(b) },
				c12cValidDkls23Shard)
		}
	})
	if c12cDKGShards != nil { // one more instance: output of the real Gennaro DKG run of group "proto"
		ss := must(l22keygen.NewShard(c12cDKGShards[1]))
		add("schnorr.Shard[k256]", "gennaro-p1", ss, func(a, b *mpcschnorr.Shard[c12cK, c12cS]) bool { return a.Equal(b) }, c12cValidSchnorrShard)
		dk := must(dkls23.NewShard[c12cK, c12cB, c12cS](c12cDKGShards[2]))
		add("dkls23.Shard[k256]", "gennaro-p2", dk, func(a, b *dkls23.Shard[c12cK, c12cB, c12cS]) bool { return a.Equal(b) }, c12cValidDkls23Shard)
	}
	c12cTimed("shards.lindell17(3072)", func() {
		// plain binary: the dealer enforces keyLen >= base.IFCKeyLength (3072); ordinary (not safe) primes
		shards, _ := must2(l17dealer.DealRandom(k256.NewCurve(), ac, 3072, tr.Rng(seed, 393)))
		for _, id := range c12cIDs {
			sh, _ := shards.Get(id)
			name := fmt.Sprintf("p%d", id)
			add("lindell17.Shard[k256]", name, sh,
				func(a, b *lindell17.Shard[c12cK, c12cB, c12cS]) bool { return a.Equal(b) },
				func(x *lindell17.Shard[c12cK, c12cB, c12cS]) error {
					if x == nil {
						return errors.New("nil")
					}
					bs, err := mpc.NewBaseShard(x.Share(), x.VerificationVector(), x.MSP())
					if err != nil {
						return err
					}
					aux, err := lindell17.NewAuxiliaryInfo(x.PaillierSecretKey(), x.PaillierPublicKeys(), x.EncryptedShares())
					if err != nil {
						return err
					}
					_, err = lindell17.NewShard[c12cK, c12cB, c12cS](bs, aux)
					return err
				})
			add("lindell17.AuxiliaryInfo", name, &sh.AuxiliaryInfo,
				func(a, b *lindell17.AuxiliaryInfo) bool { return a.Equal(b) },
				func(x *lindell17.AuxiliaryInfo) error {
					if x == nil {
						return errors.New("nil")
					}
					_, err := lindell17.NewAuxiliaryInfo(x.PaillierSecretKey(), x.PaillierPublicKeys(), x.EncryptedShares())
					return err
				})
		}
	})
	c12cTimed("shards.boldyreva02", func() {
		type shortShard = mpcbls.Shard[*bls12381.PointG1, *bls12381.BaseFieldElementG1, *bls12381.PointG2, *bls12381.BaseFieldElementG2, *bls12381.GtElement, *bls12381.Scalar]
		type longShard = mpcbls.Shard[*bls12381.PointG2, *bls12381.BaseFieldElementG2, *bls12381.PointG1, *bls12381.BaseFieldElementG1, *bls12381.GtElement, *bls12381.Scalar]
		type longPM = mpcbls.PublicMaterial[*bls12381.PointG2, *bls12381.BaseFieldElementG2, *bls12381.PointG1, *bls12381.BaseFieldElementG1, *bls12381.GtElement, *bls12381.Scalar]
		type shortPM = mpcbls.PublicMaterial[*bls12381.PointG1, *bls12381.BaseFieldElementG1, *bls12381.PointG2, *bls12381.BaseFieldElementG2, *bls12381.GtElement, *bls12381.Scalar]
		b1 := must(trusteddealer.Deal(bls12381.NewG1(), ac, tr.Rng(seed, 391)))
		b2 := must(trusteddealer.Deal(bls12381.NewG2(), ac, tr.Rng(seed, 392)))
		for _, id := range c12cIDs {
			name := fmt.Sprintf("p%d", id)
			x1, _ := b1.Get(id)
			s1 := must(blskeygen.NewShortKeyShard[*bls12381.PointG1, *bls12381.BaseFieldElementG1, *bls12381.PointG2, *bls12381.BaseFieldElementG2, *bls12381.GtElement, *bls12381.Scalar](x1))
			add("bls.Shard[short]", name, s1, func(a, b *shortShard) bool { return a.Equal(b) }, func(x *shortShard) error {
				if x == nil {
					return errors.New("nil")
				}
				_, err := mpcbls.NewShortKeyShard[*bls12381.PointG1, *bls12381.BaseFieldElementG1, *bls12381.PointG2, *bls12381.BaseFieldElementG2, *bls12381.GtElement, *bls12381.Scalar](x.Share(), x.VerificationVector(), x.MSP())
				return err
			})
			if id == 1 {
				add("bls.PublicMaterial[short]", name, s1.PublicKeyMaterial(), func(a, b *shortPM) bool { return a.Equal(b) }, func(x *shortPM) error {
					if x == nil {
						return errors.New("nil")
					}
					_, err := mpc.NewBasePublicMaterial(x.MSP(), x.VerificationVector())
					return err
				})
			}
			x2, _ := b2.Get(id)
			s2 := must(blskeygen.NewLongKeyShard[*bls12381.PointG2, *bls12381.BaseFieldElementG2, *bls12381.PointG1, *bls12381.BaseFieldElementG1, *bls12381.GtElement, *bls12381.Scalar](x2))
			if id == 1 {
				add("bls.PublicMaterial[long]", name, s2.PublicKeyMaterial(), func(a, b *longPM) bool { return a.Equal(b) }, func(x *longPM) error {
					if x == nil {
						return errors.New("nil")
					}
					_, err := mpc.NewBasePublicMaterial(x.MSP(), x.VerificationVector())
					return err
				})
			}
			add("bls.Shard[long]", name, s2, func(a, b *longShard) bool { return a.Equal(b) }, func(x *longShard) error {
				if x == nil {
					return errors.New("nil")
				}
				_, err := mpcbls.NewLongKeyShard[*bls12381.PointG1, *bls12381.BaseFieldElementG1, *bls12381.PointG2, *bls12381.BaseFieldElementG2, *bls12381.GtElement, *bls12381.Scalar](x.Share(), x.VerificationVector(), x.MSP())
				return err
			})
		}
	})
}

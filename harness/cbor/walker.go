package cbor

// A minimal CBOR tree (RFC 8949) with exact re-serialisation, used to address every
// container / leaf of a captured encoding and to produce structure mutations.
// It is independent of the decoder under test (fxamacker/cbor via pkg/base/serde).

import (
	"encoding/binary"
	"errors"
	"fmt"
	"sort"
)

const (
	mtUint  = 0
	mtNint  = 1
	mtBytes = 2
	mtText  = 3
	mtArray = 4
	mtMap   = 5
	mtTag   = 6
	mtSimp  = 7
)

// node is one data item. For bytes/text: payload. For array: kids. For map: kids = k0,v0,k1,v1...
// For tag: kids[0]. indef marks indefinite-length encoding (strings: kids are the chunks).
type node struct {
	mt      int
	arg     uint64
	ai      int // additional-information width actually used when parsed (-1: choose shortest)
	payload []byte
	kids    []*node
	indef   bool
	raw     []byte // when non-nil, emitted verbatim (used for injected garbage)
}

func (n *node) clone() *node {
	if n == nil {
		return nil
	}
	c := *n
	c.payload = append([]byte(nil), n.payload...)
	c.kids = make([]*node, len(n.kids))
	for i, k := range n.kids {
		c.kids[i] = k.clone()
	}
	return &c
}

var errTrunc = errors.New("cbor walker: truncated")

func parseItem(b []byte, off int, depth int) (*node, int, error) {
	if depth > 64 {
		return nil, 0, errors.New("cbor walker: too deep")
	}
	if off >= len(b) {
		return nil, 0, errTrunc
	}
	ib := b[off]
	mt := int(ib >> 5)
	ai := int(ib & 31)
	off++
	n := &node{mt: mt, ai: ai}
	switch {
	case ai < 24:
		n.arg = uint64(ai)
	case ai == 24:
		if off+1 > len(b) {
			return nil, 0, errTrunc
		}
		n.arg = uint64(b[off])
		off++
	case ai == 25:
		if off+2 > len(b) {
			return nil, 0, errTrunc
		}
		n.arg = uint64(binary.BigEndian.Uint16(b[off:]))
		off += 2
	case ai == 26:
		if off+4 > len(b) {
			return nil, 0, errTrunc
		}
		n.arg = uint64(binary.BigEndian.Uint32(b[off:]))
		off += 4
	case ai == 27:
		if off+8 > len(b) {
			return nil, 0, errTrunc
		}
		n.arg = binary.BigEndian.Uint64(b[off:])
		off += 8
	case ai == 31:
		n.indef = true
	default:
		return nil, 0, fmt.Errorf("cbor walker: reserved ai %d", ai)
	}
	switch mt {
	case mtUint, mtNint, mtSimp:
		if n.indef {
			return nil, 0, errors.New("cbor walker: stray break")
		}
	case mtBytes, mtText:
		if n.indef {
			return nil, 0, errors.New("cbor walker: indefinite string in a canonical encoding")
		}
		if uint64(len(b)-off) < n.arg {
			return nil, 0, errTrunc
		}
		n.payload = b[off : off+int(n.arg)]
		off += int(n.arg)
	case mtArray, mtMap:
		if n.indef {
			return nil, 0, errors.New("cbor walker: indefinite container in a canonical encoding")
		}
		cnt := n.arg
		if mt == mtMap {
			cnt *= 2
		}
		if cnt > uint64(len(b)) {
			return nil, 0, errTrunc
		}
		for i := uint64(0); i < cnt; i++ {
			k, o, err := parseItem(b, off, depth+1)
			if err != nil {
				return nil, 0, err
			}
			n.kids = append(n.kids, k)
			off = o
		}
	case mtTag:
		k, o, err := parseItem(b, off, depth+1)
		if err != nil {
			return nil, 0, err
		}
		n.kids = []*node{k}
		off = o
	}
	return n, off, nil
}

// parse reads exactly one item that must span all of b.
func parse(b []byte) (*node, error) {
	n, off, err := parseItem(b, 0, 0)
	if err != nil {
		return nil, err
	}
	if off != len(b) {
		return nil, fmt.Errorf("cbor walker: %d trailing bytes", len(b)-off)
	}
	return n, nil
}

func head(mt int, arg uint64) []byte {
	m := byte(mt << 5)
	switch {
	case arg < 24:
		return []byte{m | byte(arg)}
	case arg <= 0xff:
		return []byte{m | 24, byte(arg)}
	case arg <= 0xffff:
		return []byte{m | 25, byte(arg >> 8), byte(arg)}
	case arg <= 0xffffffff:
		return []byte{m | 26, byte(arg >> 24), byte(arg >> 16), byte(arg >> 8), byte(arg)}
	default:
		o := make([]byte, 9)
		o[0] = m | 27
		binary.BigEndian.PutUint64(o[1:], arg)
		return o
	}
}

func (n *node) appendTo(out []byte) []byte {
	if n.raw != nil {
		return append(out, n.raw...)
	}
	switch n.mt {
	case mtUint, mtNint:
		return append(out, head(n.mt, n.arg)...)
	case mtSimp:
		if n.ai >= 24 && n.ai <= 27 { // floats / 2-byte simple keep their width
			h := make([]byte, 1+(1<<(n.ai-24)))
			h[0] = byte(mtSimp<<5) | byte(n.ai)
			switch n.ai {
			case 24:
				h[1] = byte(n.arg)
			case 25:
				binary.BigEndian.PutUint16(h[1:], uint16(n.arg))
			case 26:
				binary.BigEndian.PutUint32(h[1:], uint32(n.arg))
			case 27:
				binary.BigEndian.PutUint64(h[1:], n.arg)
			}
			return append(out, h...)
		}
		return append(out, byte(mtSimp<<5)|byte(n.arg))
	case mtBytes, mtText:
		if n.indef {
			out = append(out, byte(n.mt<<5)|31)
			for _, k := range n.kids {
				out = k.appendTo(out)
			}
			return append(out, 0xff)
		}
		out = append(out, head(n.mt, uint64(len(n.payload)))...)
		return append(out, n.payload...)
	case mtArray:
		if n.indef {
			out = append(out, byte(mtArray<<5)|31)
		} else {
			out = append(out, head(mtArray, uint64(len(n.kids)))...)
		}
		for _, k := range n.kids {
			out = k.appendTo(out)
		}
		if n.indef {
			out = append(out, 0xff)
		}
		return out
	case mtMap:
		if n.indef {
			out = append(out, byte(mtMap<<5)|31)
		} else {
			out = append(out, head(mtMap, uint64(len(n.kids)/2))...)
		}
		for _, k := range n.kids {
			out = k.appendTo(out)
		}
		if n.indef {
			out = append(out, 0xff)
		}
		return out
	case mtTag:
		out = append(out, head(mtTag, n.arg)...)
		return n.kids[0].appendTo(out)
	}
	panic("cbor walker: bad node")
}

func (n *node) bytes() []byte { return n.appendTo(nil) }

// ---- addressing ----

// site is one addressable item of a tree: the item itself plus the slot that holds it.
type site struct {
	path   string
	n      *node
	parent *node // nil for the root
	idx    int   // index in parent.kids
	isKey  bool  // the item is a map key
}

func keyLabel(k *node) string {
	switch k.mt {
	case mtText:
		return string(k.payload)
	case mtUint:
		return fmt.Sprintf("%d", k.arg)
	case mtNint:
		return fmt.Sprintf("-%d", k.arg+1)
	case mtBytes:
		return fmt.Sprintf("h%x", k.payload)
	}
	return "?"
}

// sites lists every item in document order (keys included, flagged).
func sites(root *node) []site {
	var out []site
	var rec func(n, parent *node, idx int, path string, isKey bool)
	rec = func(n, parent *node, idx int, path string, isKey bool) {
		out = append(out, site{path: path, n: n, parent: parent, idx: idx, isKey: isKey})
		switch n.mt {
		case mtArray:
			for i, k := range n.kids {
				rec(k, n, i, fmt.Sprintf("%s/%d", path, i), false)
			}
		case mtMap:
			for i := 0; i+1 < len(n.kids); i += 2 {
				lbl := keyLabel(n.kids[i])
				rec(n.kids[i], n, i, path+"/"+lbl+"@k", true)
				rec(n.kids[i+1], n, i+1, path+"/"+lbl, false)
			}
		case mtTag:
			rec(n.kids[0], n, 0, fmt.Sprintf("%s/#%d", path, n.arg), false)
		}
	}
	rec(root, nil, 0, "", false)
	return out
}

// mapKind classifies a map by its keys: "struct" (all text keys), "assoc" (other), "empty".
func mapKind(n *node) string {
	if len(n.kids) == 0 {
		return "empty"
	}
	for i := 0; i < len(n.kids); i += 2 {
		if n.kids[i].mt != mtText {
			return "assoc"
		}
	}
	return "struct"
}

func kindOf(n *node) string {
	switch n.mt {
	case mtUint:
		return "uint"
	case mtNint:
		return "nint"
	case mtBytes:
		return "bytes"
	case mtText:
		return "text"
	case mtArray:
		return "array"
	case mtMap:
		return "map-" + mapKind(n)
	case mtTag:
		return "tag"
	default:
		return "simple"
	}
}

// sortMapCanonical re-sorts the pairs of a map in bytewise lexicographic order of the encoded keys
// (core deterministic encoding), so that an injected pair sits where an honest encoder would put it.
func sortMapCanonical(n *node) {
	type pair struct {
		k, v *node
		kb   string
	}
	var ps []pair
	for i := 0; i+1 < len(n.kids); i += 2 {
		ps = append(ps, pair{n.kids[i], n.kids[i+1], string(n.kids[i].bytes())})
	}
	sort.SliceStable(ps, func(i, j int) bool { return ps[i].kb < ps[j].kb })
	n.kids = n.kids[:0]
	for _, p := range ps {
		n.kids = append(n.kids, p.k, p.v)
	}
}

// rebuild applies f to a deep copy of root at the site with the given ordinal and returns the bytes.
func mutateAt(root *node, ord int, f func(s site, root *node) *node) []byte {
	c := root.clone()
	ss := sites(c)
	s := ss[ord]
	nr := f(s, c)
	if nr == nil {
		nr = c
	}
	return nr.bytes()
}

// replace puts nn in the slot of s (returns the new root when s is the root).
func replace(s site, root *node, nn *node) *node {
	if s.parent == nil {
		return nn
	}
	s.parent.kids[s.idx] = nn
	return root
}

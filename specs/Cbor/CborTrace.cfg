INIT TInit
NEXT TNext
INVARIANT CaseOK
CHECK_DEADLOCK FALSE

------------------------------ MODULE CborDefs ------------------------------
(* Definitions of the Cbor specification (items, schemas, values, encoder Enc, strict decoder  *)
(* Dec, mutations Mut) without variables, shared by Cbor (state machine) and CborTrace.         *)
EXTENDS Integers, Sequences, FiniteSets, TLC

\* ------------------------------------------------------------------ items
It(mt, arg, ind, s, p) == [mt |-> mt, arg |-> arg, ind |-> ind, s |-> s, p |-> p]
ItU(n)   == It(0, n, FALSE, "", <<>>)
ItB(p)   == It(2, Len(p), FALSE, "", p)
ItT(s)   == It(3, 1, FALSE, s, <<>>)
ItArr(n) == It(4, n, FALSE, "", <<>>)
ItMap(n) == It(5, n, FALSE, "", <<>>)
ItTag(n) == It(6, n, FALSE, "", <<>>)
ItNull   == It(7, 22, FALSE, "", <<>>)
ItBreak  == It(7, 31, FALSE, "", <<>>)
IsNull(x) == x.mt = 7 /\ x.arg = 22

RECURSIVE Flat(_)
Flat(ss) == IF Len(ss) = 0 THEN <<>> ELSE Head(ss) \o Flat(Tail(ss))

\* ------------------------------------------------------------------ tags
TagReg     == 6001      \* a registered plain struct type (no custom unmarshaler): tag required everywhere
TagCustom  == 6002      \* a registered type with MarshalCBORTagged / custom UnmarshalCBOR (like every registered type of the library)
TagUnknown == 59999     \* registered nowhere
BignumTags == {2, 3}

\* ------------------------------------------------------------------ schemas (Go types)
SU          == [k |-> "uint"]
SB          == [k |-> "bytes"]
SArr(e)     == [k |-> "arr", e |-> e]
SStruct(f)  == [k |-> "struct", f |-> f]          \* f : field name -> schema; decoded through a pointer (nullable)
SAssoc(v)   == [k |-> "assoc", v |-> v]           \* map[uint64]V
SReg(s)     == [k |-> "reg", tag |-> TagReg, s |-> s]
SCustom(s)  == [k |-> "custom", tag |-> TagCustom, s |-> s]
SIface      == [k |-> "iface"]                    \* implemented by the two registered types below

SInner  == SStruct([a |-> SU])
AltOf(tag) == IF tag = TagReg THEN SReg(SInner) ELSE SCustom(SInner)
IfaceTags == {TagReg, TagCustom}

T1 == SStruct([a |-> SU, b |-> SB])
T2 == SStruct([a |-> SArr(SU), b |-> SAssoc(SU)])
T3 == SStruct([a |-> SIface, b |-> T1])
T4 == SReg(SInner)
T5 == SCustom(SInner)
T6 == SIface
SchemaOf(n) == CASE n = "T1" -> T1 [] n = "T2" -> T2 [] n = "T3" -> T3 [] n = "T4" -> T4 [] n = "T5" -> T5 [] n = "T6" -> T6
SchemaNames == {"T1", "T2", "T3", "T4", "T5", "T6"}

\* ------------------------------------------------------------------ values
NIL      == [t |-> "nil"]
U(n)     == [t |-> "u", n |-> n]
B(p)     == [t |-> "b", p |-> p]
A(xs)    == [t |-> "a", xs |-> xs]
S(f)     == [t |-> "s", f |-> f]
M(ps)    == [t |-> "m", ps |-> ps]                \* pairs [k, v] in ascending key order
G(tag, v) == [t |-> "g", tag |-> tag, v |-> v]    \* interface value holding the registered type `tag`

Uints  == {0, 1}
Bytess == {NIL, B(<<>>), B(<<7>>)}
Arrs   == {NIL, A(<<>>), A(<<U(0)>>), A(<<U(1), U(0)>>)}
Assocs == {NIL, M(<<>>), M(<<[k |-> 1, v |-> U(0)]>>), M(<<[k |-> 1, v |-> U(1)], [k |-> 2, v |-> U(0)]>>)}
Inners == {S([a |-> U(n)]) : n \in Uints}
Ifaces == {NIL} \cup {G(tg, v) : tg \in IfaceTags, v \in Inners}
V1     == {NIL} \cup {S([a |-> U(n), b |-> b]) : n \in Uints, b \in Bytess}
V1s    == {NIL, S([a |-> U(1), b |-> B(<<7>>)])}

ValuesOf(n) ==
  CASE n = "T1" -> V1
    [] n = "T2" -> {NIL} \cup {S([a |-> a, b |-> b]) : a \in Arrs, b \in Assocs}
    [] n = "T3" -> {NIL} \cup {S([a |-> a, b |-> b]) : a \in Ifaces, b \in V1s}
    [] n = "T4" -> {NIL} \cup Inners
    [] n = "T5" -> {NIL} \cup Inners
    [] n = "T6" -> Ifaces

\* ------------------------------------------------------------------ canonical key order
\* Core deterministic encoding sorts map keys bytewise by their encoding. All model keys are either
\* small unsigned integers (one byte, ascending) or one-letter text strings (0x61 xx, ascending by letter).
Letters == <<"A", "a", "b", "z">>                 \* ascending byte order
LetterRank(s) == CHOOSE i \in 1..Len(Letters) : Letters[i] = s
KeyLess(x, y) ==                                   \* strict canonical order on key items
  IF x.mt # y.mt THEN x.mt < y.mt
  ELSE IF x.mt = 0 THEN x.arg < y.arg ELSE LetterRank(x.s) < LetterRank(y.s)

RECURSIVE SortNames(_)
SortNames(ns) == IF ns = {} THEN <<>>
                 ELSE LET m == CHOOSE x \in ns : \A y \in ns : LetterRank(x) <= LetterRank(y)
                      IN <<m>> \o SortNames(ns \ {m})

\* ------------------------------------------------------------------ encoder
RECURSIVE Enc(_, _)
Enc(s, v) ==
  IF v.t = "nil" THEN <<ItNull>>
  ELSE CASE s.k = "uint"   -> <<ItU(v.n)>>
         [] s.k = "bytes"  -> <<ItB(v.p)>>
         [] s.k = "arr"    -> <<ItArr(Len(v.xs))>> \o Flat([i \in 1..Len(v.xs) |-> Enc(s.e, v.xs[i])])
         [] s.k = "struct" -> LET ks == SortNames(DOMAIN s.f)
                              IN <<ItMap(Len(ks))>> \o Flat([i \in 1..Len(ks) |-> <<ItT(ks[i])>> \o Enc(s.f[ks[i]], v.f[ks[i]])])
         [] s.k = "assoc"  -> <<ItMap(Len(v.ps))>> \o Flat([i \in 1..Len(v.ps) |-> <<ItU(v.ps[i].k)>> \o Enc(s.v, v.ps[i].v)])
         [] s.k \in {"reg", "custom"} -> <<ItTag(s.tag)>> \o Enc(s.s, v)
         [] s.k = "iface"  -> Enc(AltOf(v.tag), v.v)

\* ------------------------------------------------------------------ well-formedness pass (whole message, type independent)
RECURSIVE End(_, _), EndN(_, _, _)
\* index after the item starting at i; 0 when ill-formed or forbidden in the strict mode
End(it, i) ==
  IF i > Len(it) THEN 0
  ELSE LET x == it[i] IN
    IF x.ind THEN 0                                           \* IndefLengthForbidden
    ELSE CASE x.mt \in {0, 2, 3} -> i + 1
           [] x.mt = 7 -> IF x.arg = 31 THEN 0 ELSE i + 1     \* a break outside an indefinite item
           [] x.mt = 4 -> EndN(it, i + 1, x.arg)
           [] x.mt = 5 -> EndN(it, i + 1, 2 * x.arg)
           [] x.mt = 6 -> IF x.arg \in BignumTags THEN 0 ELSE End(it, i + 1)   \* BignumTagForbidden
EndN(it, i, n) == IF n = 0 THEN i ELSE LET e == End(it, i) IN IF e = 0 THEN 0 ELSE EndN(it, e, n - 1)
WellFormed(it) == End(it, 1) = Len(it) + 1                    \* exactly one item: truncation and trailing items rejected

\* ------------------------------------------------------------------ type-directed decoding
Fail == [ok |-> FALSE, v |-> NIL, nx |-> 0]
Ok(v, nx) == [ok |-> TRUE, v |-> v, nx |-> nx]
Zero(s) == IF s.k = "uint" THEN U(0) ELSE NIL

RECURSIVE SkipTags(_, _)
SkipTags(it, i) == IF it[i].mt = 6 THEN SkipTags(it, i + 1) ELSE i

RECURSIVE P(_, _, _), PArr(_, _, _, _, _), PStruct(_, _, _, _, _), PAssoc(_, _, _, _, _, _)
P(s, it, i) ==
  LET x == it[i] IN
  CASE s.k = "iface" ->
         IF IsNull(x) THEN Ok(NIL, i + 1)
         ELSE IF x.mt = 6 /\ x.arg \in IfaceTags /\ it[i + 1].mt # 6       \* the whole tag list is one registered tag: it selects the type
              THEN LET r == P(AltOf(x.arg), it, i) IN IF r.ok THEN Ok(G(x.arg, r.v), r.nx) ELSE Fail
              ELSE IF x.mt = 6 THEN P(s, it, i + 1)                          \* otherwise one tag is skipped and the rest is tried again
              ELSE Fail                                                      \* untagged data cannot become an interface value
    [] s.k = "reg" ->
         IF IsNull(x) THEN Ok(NIL, i + 1)
         ELSE IF x.mt = 6 /\ x.arg = s.tag /\ it[i + 1].mt # 6 /\ ~IsNull(it[i + 1]) THEN P(s.s, it, i + 1) ELSE Fail
    [] s.k = "custom" ->                                       \* the DTO decode inside UnmarshalCBOR skips whatever tags precede the map
         IF IsNull(x) THEN Ok(NIL, i + 1)
         ELSE LET j == SkipTags(it, i) IN IF IsNull(it[j]) THEN Fail ELSE P(s.s, it, j)
    [] OTHER ->
         IF IsNull(x) THEN Ok(Zero(s), i + 1)                  \* nil pointer / slice / map; no-op on an integer
         ELSE LET j == SkipTags(it, i)
                  y == it[j] IN
           IF j # i /\ IsNull(y) THEN Fail                      \* (tag, null) is kept out of the model: see Mutations
           ELSE CASE s.k = "uint"   -> IF y.mt = 0 THEN Ok(U(y.arg), j + 1) ELSE Fail
                  [] s.k = "bytes"  -> IF y.mt = 2 THEN Ok(B(y.p), j + 1) ELSE Fail
                  [] s.k = "arr"    -> IF y.mt = 4 THEN PArr(s, it, j + 1, y.arg, <<>>) ELSE Fail
                  [] s.k = "struct" -> IF y.mt = 5 THEN PStruct(s, it, j + 1, y.arg, [n \in DOMAIN s.f |-> [seen |-> FALSE, v |-> Zero(s.f[n])]]) ELSE Fail
                  [] s.k = "assoc"  -> IF y.mt = 5 THEN PAssoc(s, it, j + 1, y.arg, <<>>, Zero(s.v)) ELSE Fail

PArr(s, it, i, n, acc) ==
  IF n = 0 THEN Ok(A(acc), i)
  ELSE LET r == P(s.e, it, i) IN IF r.ok THEN PArr(s, it, r.nx, n - 1, Append(acc, r.v)) ELSE Fail

PStruct(s, it, i, n, acc) ==
  IF n = 0 THEN Ok(S([f \in DOMAIN acc |-> acc[f].v]), i)
  ELSE LET kx == it[i] IN
    IF kx.mt # 3 \/ kx.s \notin DOMAIN s.f THEN Fail            \* not a field name: ExtraDecErrorUnknownField (case sensitive)
    ELSE IF acc[kx.s].seen THEN Fail                            \* DupMapKeyEnforcedAPF
    ELSE LET r == P(s.f[kx.s], it, i + 1) IN
         IF r.ok THEN PStruct(s, it, r.nx, n - 1, [acc EXCEPT ![kx.s] = [seen |-> TRUE, v |-> r.v]]) ELSE Fail

RECURSIVE InsertPair(_, _)
InsertPair(ps, p) == IF Len(ps) = 0 THEN <<p>>
                     ELSE IF p.k < ps[1].k THEN <<p>> \o ps ELSE <<ps[1]>> \o InsertPair(Tail(ps), p)
\* The decoder reuses one element variable for all pairs of a Go map whose element kind is immutable (integers,
\* booleans): a null value is a no-op on it, so the pair receives the value of the previous pair in wire order
\* (the zero value for the first pair). `prev` carries it.
PAssoc(s, it, i, n, acc, prev) ==
  IF n = 0 THEN Ok(M(acc), i)
  ELSE LET kr == P(SU, it, i) IN                                \* the key is decoded like any uint64 (tags skipped)
    IF ~kr.ok \/ IsNull(it[i]) THEN Fail
    ELSE IF \E q \in 1..Len(acc) : acc[q].k = kr.v.n THEN Fail  \* DupMapKeyEnforcedAPF
    ELSE LET r0 == P(s.v, it, kr.nx)
             r == IF r0.ok /\ IsNull(it[kr.nx]) /\ s.v.k = "uint" THEN Ok(prev, r0.nx) ELSE r0 IN
         IF r.ok THEN PAssoc(s, it, r.nx, n - 1, InsertPair(acc, [k |-> kr.v.n, v |-> r.v]), r.v) ELSE Fail

Dec(s, it) == IF ~WellFormed(it) THEN Fail
              ELSE LET r == P(s, it, 1) IN IF r.ok THEN [ok |-> TRUE, v |-> r.v, nx |-> 0] ELSE Fail

\* ------------------------------------------------------------------ roles of the items of a well-formed sequence
RECURSIVE RolesAt(_, _, _), RolesN(_, _, _, _)
RolesAt(it, i, r) ==
  LET x == it[i] IN
  CASE x.mt = 4 -> <<r>> \o RolesN(it, i + 1, x.arg, FALSE)
    [] x.mt = 5 -> <<r>> \o RolesN(it, i + 1, 2 * x.arg, TRUE)
    [] x.mt = 6 -> <<r>> \o RolesAt(it, i + 1, r)
    [] OTHER -> <<r>>
\* n consecutive items from i; in a map (alt) they alternate key / value
RolesN(it, i, n, alt) ==
  IF n = 0 THEN <<>>
  ELSE LET r == IF alt /\ n % 2 = 0 THEN "key" ELSE "val" IN
       RolesAt(it, i, r) \o RolesN(it, End(it, i), n - 1, alt)
Roles(it) == RolesAt(it, 1, "val")

\* ------------------------------------------------------------------ mutations
Malformed == {"dupkey", "unkkey", "indef", "trailing", "bignum"}      \* must always be rejected
TagClasses == {"tagdrop", "tagswap"}
Semantic == {"delkey", "null", "tagwrap"}
Classes == Malformed \cup TagClasses \cup Semantic
NoMut == [cls |-> "none", pos |-> 0, var |-> ""]

Sub(it, a, b) == IF a > b THEN <<>> ELSE SubSeq(it, a, b)
Splice(it, a, b, mid) == Sub(it, 1, a - 1) \o mid \o Sub(it, b, Len(it))     \* replaces items a..b-1 by mid

IsStructMap(it, i) == it[i].mt = 5 /\ it[i].arg >= 1 /\ it[i + 1].mt = 3

\* end index (exclusive) of the j-th pair of the map at i
RECURSIVE PairStart(_, _, _)
PairStart(it, i, j) == IF j = 1 THEN i + 1 ELSE End(it, End(it, PairStart(it, i, j - 1)))

Mutations(it) ==
  LET ro == Roles(it) IN
     {[cls |-> "dupkey", pos |-> i, var |-> ""] : i \in {i \in 1..Len(it) : it[i].mt = 5 /\ it[i].arg >= 1}}
  \cup {[cls |-> "unkkey", pos |-> i, var |-> v] : i \in {i \in 1..Len(it) : IsStructMap(it, i)}, v \in {"z", "A"}}
  \cup {[cls |-> "indef", pos |-> i, var |-> ""] : i \in {i \in 1..Len(it) : it[i].mt \in {2, 3, 4, 5}}}
  \cup {[cls |-> "trailing", pos |-> Len(it) + 1, var |-> v] : v \in {"zero", "null", "break"}}
  \cup {[cls |-> "bignum", pos |-> i, var |-> ""] : i \in {i \in 1..Len(it) : it[i].mt = 2}}
  \cup {[cls |-> c, pos |-> i, var |-> ""] : c \in TagClasses, i \in {i \in 1..Len(it) : it[i].mt = 6}}
  \cup {[cls |-> "delkey", pos |-> i, var |-> v] : i \in {i \in 1..Len(it) : it[i].mt = 5 /\ it[i].arg >= 1}, v \in {"first", "last"}}
  \cup {[cls |-> "null", pos |-> i, var |-> ""] : i \in {i \in 2..Len(it) : ro[i] = "val" /\ ~IsNull(it[i]) /\ it[i - 1].mt # 6}}
  \cup {[cls |-> "tagwrap", pos |-> i, var |-> ""] : i \in {i \in 1..Len(it) : ~IsNull(it[i])}}

Mut(it, m) ==
  LET i == m.pos IN
  CASE m.cls = "dupkey" ->        \* the first pair once more (same key, same value)
         LET e == End(it, End(it, i + 1)) IN
         Splice(it, i, i + 1, <<[it[i] EXCEPT !.arg = @ + 1]>> \o Sub(it, i + 1, e - 1))
    [] m.cls = "unkkey" ->        \* a pair whose key is no field name ("A": case variant of a field name)
         Splice(it, i, i + 1, <<[it[i] EXCEPT !.arg = @ + 1], ItT(m.var), ItU(0)>>)
    [] m.cls = "indef" ->
         IF it[i].mt \in {2, 3}
         THEN Splice(it, i, i + 1, <<[it[i] EXCEPT !.ind = TRUE], it[i], ItBreak>>)       \* one chunk
         ELSE LET e == End(it, i) IN Splice(Splice(it, e, e, <<ItBreak>>), i, i + 1, <<[it[i] EXCEPT !.ind = TRUE]>>)
    [] m.cls = "trailing" ->
         it \o <<CASE m.var = "zero" -> ItU(0) [] m.var = "null" -> ItNull [] m.var = "break" -> ItBreak>>
    [] m.cls = "bignum"  -> Splice(it, i, i, <<ItTag(2)>>)
    [] m.cls = "tagdrop" -> Splice(it, i, i + 1, <<>>)
    [] m.cls = "tagswap" -> Splice(it, i, i + 1, <<ItTag(TagUnknown)>>)
    [] m.cls = "delkey"  ->
         LET j == IF m.var = "first" THEN 1 ELSE it[i].arg
             a == PairStart(it, i, j)
             b == End(it, End(it, a)) IN
         Splice(Splice(it, a, b, <<>>), i, i + 1, <<[it[i] EXCEPT !.arg = @ - 1]>>)
    [] m.cls = "null"    -> Splice(it, i, End(it, i), <<ItNull>>)
    [] m.cls = "tagwrap" -> Splice(it, i, i, <<ItTag(TagUnknown)>>)

=============================================================================

CONSTANTS
  Names <- NamesAll
INIT Init
NEXT Next
INVARIANTS TypeOK RoundTrip EncodeCanonical MalformedRejected TagRequired NormalForm WrapIsVoid
CHECK_DEADLOCK FALSE

------------------------------ MODULE CborTrace ------------------------------
(* Validates the log of harness/cbor (driver of C12) against Cbor.                              *)
(*                                                                                              *)
(*  model : one TLC-generated behaviour (schema, item sequence) replayed through the real       *)
(*          serde on the model Go types: accept/reject, decoded value and re-encoding must be   *)
(*          exactly Dec / Enc of the specification.                                             *)
(*  rt    : a captured real value: encoding deterministic, decodes, re-encodes byte-identically,*)
(*          Equal, validity predicate, no panic.                                                *)
(*  mut   : one structure mutation of a captured encoding: malformed containers rejected;       *)
(*          a type tag that is required (interface-typed target) cannot be dropped / replaced;  *)
(*          whatever is accepted satisfies the type's validity predicate and re-encodes to a    *)
(*          normal form; never a panic.                                                         *)
(*  flip / trunc : aggregated single-bit flips per byte / proper prefixes.                      *)
(*  craft : an encoding crafted to violate one constructor rule: rejected.                      *)
(*  sum   : closes the lines of one type: the classes were exercised at every applicable        *)
(*          position (full) or at least once (sampled tier); counted by TLC itself (Sites).     *)
(*                                                                                              *)
(* A line carrying skip = TRUE is only counted (replay of a reduced trace).                      *)
EXTENDS CborDefs, Json

Trace == ndJsonDeserialize("trace.ndjson")

VARIABLES l, start          \* current line; first line after the previous sum line
tvars == <<l, start>>

Counted == Malformed \cup TagClasses
Has(e, f) == f \in DOMAIN e
Skipped(e) == Has(e, "skip") /\ e.skip

\* the (class, value, path) sites of the counted classes logged since the previous sum line
Sites(a, b) == {<<Trace[i].typ, Trace[i].cls, Trace[i].name, Trace[i].path>> :
                  i \in {j \in a..b : Trace[j].a = "mut" /\ Trace[j].cls \in Counted}}
CountOf(sn, typ, cls) == Cardinality({s \in sn : s[1] = typ /\ s[2] = cls})

CheckModel(e) ==
  LET d == Dec(SchemaOf(e.sch), e.items) IN
  /\ ~e.panic
  /\ (e.res = "acc") = d.ok
  /\ d.ok => /\ e.val = d.v
             /\ e.re = Enc(SchemaOf(e.sch), d.v)       \* the real encoder is the specified deterministic one
             /\ e.det

CheckRt(e) == e.det /\ e.dec /\ e.reenc /\ e.eq # "f" /\ e.valid # "f" /\ ~e.panic

CheckMut(e) ==
  /\ ~e.panic
  /\ e.cls \in Malformed => e.res = "rej"
  /\ (e.cls \in TagClasses /\ e.iface /\ e.path = "") => e.res = "rej"
  /\ e.res = "acc" => e.valid # "f" /\ e.regen

CheckFlip(e) == e.rej + e.acc = e.n /\ e.bad = 0 /\ e.panics = 0
CheckTrunc(e) == e.acc = 0 /\ e.rej = e.n /\ e.panics = 0        \* a proper prefix of one item is never one item
CheckCraft(e) == /\ ~e.panic
                 /\ e.must = "acc" => e.res = "acc"               \* the unedited encoding
                 /\ e.must = "rej" => e.res = "rej"               \* one constructor rule violated
                 /\ e.res = "acc" => e.valid # "f" /\ e.regen     \* (must = "any": no rule violated, e.g. a reducible representative)

CheckSum(e, sn) ==
  /\ \A s \in sn : s[1] = e.typ
  /\ \A c \in Counted : CountOf(sn, e.typ, c) = e[c]             \* the driver's counts are what TLC saw
  /\ e.nmut >= 1 /\ e.trailing >= 1
  /\ IF e.full
     THEN /\ e.dupkey = e.maps /\ e.unkkey = e.structs /\ e.indef = e.conts /\ e.bignum = e.bstrs
          /\ e.tagdrop = e.tags /\ e.tagswap = e.tags
     ELSE /\ e.maps > 0 => e.dupkey > 0
          /\ e.structs > 0 => e.unkkey > 0
          /\ e.conts > 0 => e.indef > 0
          /\ e.bstrs > 0 => e.bignum > 0
          /\ e.tags > 0 => e.tagdrop > 0 /\ e.tagswap > 0

Check(e, a, b) ==
  IF Skipped(e) THEN TRUE
  ELSE CASE e.a = "hdr"   -> TRUE
         [] e.a = "model" -> CheckModel(e)
         [] e.a = "rt"    -> CheckRt(e)
         [] e.a = "mut"   -> CheckMut(e)
         [] e.a = "flip"  -> CheckFlip(e)
         [] e.a = "trunc" -> CheckTrunc(e)
         [] e.a = "craft" -> CheckCraft(e)
         [] e.a = "sum"   -> CheckSum(e, Sites(a, b))
         [] OTHER -> FALSE

TInit == l = 1 /\ start = 1
TNext == /\ l <= Len(Trace)
         /\ l' = l + 1
         /\ start' = IF Trace[l].a = "sum" THEN l + 1 ELSE start

\* Every line is decided here. A rejected line is printed and the walk goes on, so that one run reports all of
\* them (checks/C12.py turns each into a violation and requires that the walk visited Len(Trace) + 1 states).
CaseOK == l <= Len(Trace) => (Check(Trace[l], start, l - 1) \/ PrintT(<<"REJECTED", l>>))
=============================================================================

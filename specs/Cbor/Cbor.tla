-------------------------------- MODULE Cbor --------------------------------
(* Wire format of pkg/base/serde (fxamacker/cbor in core-deterministic encoding and strict      *)
(* decoding mode) over tiny alphabets.                                                          *)
(*                                                                                              *)
(*  - values are trees (unsigned ints, byte strings, arrays, structs = maps with text keys,     *)
(*    Go maps with integer keys, registered / interface-typed values carrying a type tag);      *)
(*  - Enc is the deterministic encoder to a sequence of items (major type, argument,            *)
(*    definite/indefinite flag, payload);                                                       *)
(*  - Dec is the strict, type-directed decoder of serde.UnmarshalCBOR[T]: first the             *)
(*    well-formedness pass over the whole message (one item, no trailing items, indefinite      *)
(*    lengths forbidden, bignum tags forbidden), then decoding against the Go type: unknown     *)
(*    fields, duplicate map keys, kind mismatches and missing / foreign type tags of registered *)
(*    and interface-typed values are errors; unknown tags in front of ordinary values are       *)
(*    skipped; null gives the zero value; a missing field keeps its zero value.                 *)
(*  - Mut are the structure mutations applied to an encoding.                                   *)
(*                                                                                              *)
(* The state machine is  Choose -> Encode -> (Mutate)? -> Decode -> (Reencode)?                 *)
(* CborMC checks it on every value of the model schemas; CborTrace uses Dec to re-decide what   *)
(* the real serde did on the same item sequences (model Go types in harness/cbor/model.go) and  *)
(* judges the mutation campaign on the library's own types.                                     *)
EXTENDS CborDefs

\* ------------------------------------------------------------------ state machine
VARIABLES ph, sch, val, items, mut, out, items2
vars == <<ph, sch, val, items, mut, out, items2>>

Init == /\ ph = "start" /\ sch = "T1" /\ val = NIL /\ items = <<>> /\ mut = NoMut /\ out = Fail /\ items2 = <<>>

Choose(Names) == /\ ph = "start"
                 /\ \E n \in Names : \E v \in ValuesOf(n) : sch' = n /\ val' = v
                 /\ ph' = "value" /\ UNCHANGED <<items, mut, out, items2>>
Encode == /\ ph = "value" /\ items' = Enc(SchemaOf(sch), val) /\ ph' = "encoded"
          /\ UNCHANGED <<sch, val, mut, out, items2>>
Mutate == /\ ph = "encoded"
          /\ \E m \in Mutations(items) : mut' = m /\ items' = Mut(items, m)
          /\ ph' = "mutated" /\ UNCHANGED <<sch, val, out, items2>>
Decode == /\ ph \in {"encoded", "mutated"} /\ out' = Dec(SchemaOf(sch), items) /\ ph' = "decoded"
          /\ UNCHANGED <<sch, val, items, mut, items2>>
Reencode == /\ ph = "decoded" /\ out.ok /\ items2' = Enc(SchemaOf(sch), out.v) /\ ph' = "reencoded"
            /\ UNCHANGED <<sch, val, items, mut, out>>

\* ------------------------------------------------------------------ properties
TypeOK == ph \in {"start", "value", "encoded", "mutated", "decoded", "reencoded"} /\ sch \in SchemaNames

\* decode(encode(v)) = v
RoundTrip == ph = "decoded" /\ mut = NoMut => out.ok /\ out.v = val

\* core deterministic encoding: keys of every map strictly ascending in the canonical order
RECURSIVE KeysAscending(_, _, _)
KeysAscending(it, k, n) ==       \* k: index of the first key of n remaining pairs
  n <= 1 \/ (LET k2 == End(it, End(it, k)) IN KeyLess(it[k], it[k2]) /\ KeysAscending(it, k2, n - 1))
Canonical(it) == \A i \in 1..Len(it) : (it[i].mt = 5 /\ it[i].arg >= 1 => KeysAscending(it, i + 1, it[i].arg)) /\ ~it[i].ind
EncodeCanonical == ph = "encoded" => Canonical(items) /\ WellFormed(items)

\* malformed containers are rejected whatever the position and the type
MalformedRejected == ph = "decoded" /\ mut.cls \in Malformed => ~out.ok

\* type tags: required (and the right one) for the plain registered type and for interface-typed positions;
\* optional for a concrete type with a custom unmarshaler, where dropping / replacing the tag changes nothing
TagRequired ==
  ph = "decoded" /\ mut.cls \in TagClasses =>
     IF sch = "T5" THEN out.ok /\ out.v = val ELSE ~out.ok

\* whatever is accepted re-encodes canonically to something that decodes to itself (normal form)
NormalForm == ph = "reencoded" => /\ Canonical(items2)
                                  /\ Dec(SchemaOf(sch), items2).ok
                                  /\ Dec(SchemaOf(sch), items2).v = out.v
\* an accepted mutated encoding never yields more than the honest decoder could: for the semantic classes the
\* result is the original value with the touched part reset (deleted key / null) or unchanged (tag wrap)
WrapIsVoid == ph = "decoded" /\ mut.cls = "tagwrap" /\ out.ok => out.v = val
=============================================================================

------------------------------- MODULE CborMC -------------------------------
(* Model checking of the Cbor state machine on every value of the model schemas `Names`, and   *)
(* export of every (schema, value, mutation) behaviour for replay through the real serde       *)
(* (harness/cbor/model.go): behaviours.ndjson, one JSON object per line.                        *)
EXTENDS Cbor, Json

CONSTANT Names
NamesAll == {"T1", "T2", "T3", "T4", "T5", "T6"}
NamesSmall == {"T1", "T4", "T5", "T6"}

Next == Choose(Names) \/ Encode \/ Mutate \/ Decode \/ Reencode
Spec == Init /\ [][Next]_vars

RECURSIVE SetToSeq(_)
SetToSeq(s) == IF s = {} THEN <<>> ELSE LET x == CHOOSE y \in s : TRUE IN <<x>> \o SetToSeq(s \ {x})

Behaviours ==
  UNION { UNION { LET it == Enc(SchemaOf(n), v) IN
                  {[sch |-> n, cls |-> "none", pos |-> 0, var |-> "", items |-> it]}
                  \cup {[sch |-> n, cls |-> m.cls, pos |-> m.pos, var |-> m.var, items |-> Mut(it, m)] : m \in Mutations(it)}
                : v \in ValuesOf(n) } : n \in Names }

ASSUME LET bseq == SetToSeq(Behaviours) IN ndJsonSerialize("behaviours.ndjson", bseq) /\ PrintT(<<"behaviours", Len(bseq)>>)
=============================================================================

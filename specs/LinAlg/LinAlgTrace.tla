---------------------------- MODULE LinAlgTrace ----------------------------
(* Validates a log of real calls into pkg/base/mat and pkg/base/polynomials   *)
(* (driver harness/cmd/linalg, toy field Z_q) against LinAlgQ: every line is  *)
(* one call with its arguments and result; CaseOK must hold for every line.   *)
EXTENDS Integers, Sequences, FiniteSets, TLC, Json

Trace == ndJsonDeserialize("trace.ndjson")
TQ == Trace[1].q
INSTANCE LinAlgQ WITH Q <- TQ

VARIABLE l
vars == <<l>>

\* coefficient sequences are compared up to trailing zeros
RECURSIVE Trim(_)
Trim(c) == IF Len(c) > 0 /\ c[Len(c)] = 0 THEN Trim(SubSeq(c, 1, Len(c) - 1)) ELSE c
SamePoly(c, d) == Trim(c) = Trim(d)
Distinct(xs) == \A i, j \in 1..Len(xs) : i # j => xs[i] # xs[j]

BirkhoffMatrix(xs, js) == [i \in 1..Len(xs) |-> BirkhoffRow(xs[i], js[i], Len(xs))]

Check(e) ==
  CASE e.a = "hdr" -> TRUE
    [] e.a = "solveR" ->
         /\ e.ok <=> SolvableRight(e.A, e.b)
         /\ e.ok => /\ IsVec(e.x, NCols(e.A))
                    /\ MatVec(e.A, e.x) = e.b
                    /\ e.xdim = <<NCols(e.A), 1>>
    [] e.a = "solveL" ->
         /\ e.ok <=> SolvableLeft(e.A, e.r)
         /\ e.ok => IsVec(e.c, NRows(e.A)) /\ VecMat(e.c, e.A) = e.r
    [] e.a = "det" -> e.d = Det(e.A)
    [] e.a = "inv" ->
         /\ e.ok <=> Det(e.A) # 0
         /\ e.ok => IsMat(e.B, Len(e.A), Len(e.A)) /\ IsInverse(e.A, e.B)
    [] e.a = "transpose" -> e.T = Transpose(e.A)
    [] e.a = "mul" ->
         /\ e.ok <=> NCols(e.A) = NRows(e.B)
         /\ e.ok => e.C = MatMul(e.A, e.B)
    [] e.a = "lift" -> e.L = MatScale(e.base, e.A)
    [] e.a = "leftact" ->                 \* A acts on the left of the element matrix X (logs)
         /\ e.ok <=> NCols(e.A) = NRows(e.X)
         /\ e.ok => e.Y = MatMul(e.A, e.X)
    [] e.a = "rightact" ->                \* X * A
         /\ e.ok <=> NCols(e.X) = NRows(e.A)
         /\ e.ok => e.Y = MatMul(e.X, e.A)
    [] e.a = "eval" -> e.ys = [i \in 1..Len(e.xs) |-> EvalPoly(e.c, e.xs[i])]
    [] e.a = "deriv" -> e.ys = [i \in 1..Len(e.xs) |-> DerivEval(e.c, e.js[i], e.xs[i])]
    [] e.a \in {"lagrange", "lagrangeExp"} ->
         Distinct(e.xs) /\ Len(e.c) <= Len(e.xs) => e.ok /\ e.v = EvalPoly(e.c, e.at)
    [] e.a = "liftpoly" -> e.v = EvalPoly(e.c, e.at) /\ SamePoly(e.lc, e.c)
    [] e.a = "vandermonde" ->
         Distinct(e.xs) /\ Len(e.c) <= Len(e.xs) => e.ok /\ SamePoly(e.p, e.c)
    [] e.a \in {"birkhoff", "birkhoffExp"} ->
         \* solvable exactly when the Birkhoff-Vandermonde matrix is regular; then the polynomial is recovered
         /\ e.ok <=> Det(BirkhoffMatrix(e.xs, e.js)) # 0
         /\ e.ok => SamePoly(e.p, e.c)
    [] e.a = "birkhoffMat" -> e.M = BirkhoffMatrix(e.xs, e.js)
    [] OTHER -> FALSE

Init == l = 1
Next == l <= Len(Trace) /\ l' = l + 1
Spec == Init /\ [][Next]_vars

CaseOK == l <= Len(Trace) => Check(Trace[l])
=============================================================================

CONSTANTS
  Q = 5
  Shapes <- ShapesSmall
INIT Init
NEXT Next
INVARIANTS RankDefsAgreeRight RankDefsAgreeLeft TransposeLaws SquareLaws ConsistentAlwaysSolvable
CHECK_DEADLOCK FALSE

----------------------------- MODULE LinAlgMC -----------------------------
(* Design-level check of the LinAlgQ definitions themselves on a small scope: *)
(* every matrix of the configured shapes over Z_Q with every right-hand side  *)
(* is one initial state; the invariants relate the independent definitions    *)
(* (rank by minors vs. existential solvability, Leibniz determinant vs. rank, *)
(* transpose laws), so a slip in the specification is caught before the       *)
(* specification is used to judge the code.                                   *)
EXTENDS LinAlgQ

CONSTANT Shapes          \* set of <<m, n>>
VARIABLES A, b, r
vars == <<A, b, r>>

ShapesQuick == {<<1,1>>, <<1,2>>, <<2,1>>, <<2,2>>, <<2,3>>, <<3,2>>}
ShapesSmall == {<<1,1>>, <<1,2>>, <<2,1>>, <<2,2>>}
Shapes33 == {<<3,3>>}

Mats(m, n) == [1..m -> [1..n -> F]]

Max(x, y) == IF x > y THEN x ELSE y
\* one vector v of length max(m, n) supplies both right-hand sides (b = its first m, r = its first n entries)
Init == \E sh \in Shapes : \E v \in [1..Max(sh[1], sh[2]) -> F] :
          /\ A \in Mats(sh[1], sh[2])
          /\ b = [i \in 1..sh[1] |-> v[i]]
          /\ r = [i \in 1..sh[2] |-> v[i]]
Next == UNCHANGED vars

RankDefsAgreeRight == SolvableRight(A, b) <=> SolvableRightEx(A, b)
RankDefsAgreeLeft == SolvableLeft(A, r) <=> SolvableLeftEx(A, r)
TransposeLaws == /\ Transpose(Transpose(A)) = A
                 /\ Rank(Transpose(A)) = Rank(A)
                 /\ VecMat(b, A) = MatVec(Transpose(A), b)
IsZeroVec(v) == \A i \in 1..Len(v) : v[i] = 0
SquareLaws == NRows(A) = NCols(A) /\ IsZeroVec(b) =>   \* evaluated once per matrix
                 /\ Det(Transpose(A)) = Det(A)
                 /\ (Det(A) # 0) <=> (Rank(A) = NRows(A))
                 /\ (Det(A) # 0) <=> (\A bb \in [1..NRows(A) -> F] : SolvableRightEx(A, bb))
ConsistentAlwaysSolvable == SolvableRight(A, MatVec(A, r)) /\ SolvableLeft(A, VecMat(b, A))
=============================================================================

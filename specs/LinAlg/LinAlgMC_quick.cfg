CONSTANTS
  Q = 3
  Shapes <- ShapesQuick
INIT Init
NEXT Next
INVARIANTS RankDefsAgreeRight RankDefsAgreeLeft TransposeLaws SquareLaws ConsistentAlwaysSolvable
CHECK_DEADLOCK FALSE

CONSTANTS
  Q = 3
  Shapes <- Shapes33
INIT Init
NEXT Next
INVARIANTS RankDefsAgreeRight RankDefsAgreeLeft TransposeLaws SquareLaws ConsistentAlwaysSolvable
CHECK_DEADLOCK FALSE

CONSTANTS
  B = 9
  M = 21
INIT Init
NEXT Next
INVARIANTS GcdLaws InverseLaws DivLaws PowLaws JacobiLaws QRCount CRTLaws SqrtLaws BitLaws RatLaws SymLaws WindowLaws
CHECK_DEADLOCK FALSE

CONSTANTS
  B = 8
  M = 17
INIT Init
NEXT Next
INVARIANTS GcdLaws InverseLaws DivLaws PowLaws JacobiLaws QRCount CRTLaws SqrtLaws BitLaws RatLaws SymLaws WindowLaws
CHECK_DEADLOCK FALSE

CONSTANTS
  B = 12
  M = 35
INIT Init
NEXT Next
INVARIANTS GcdLaws InverseLaws DivLaws PowLaws JacobiLaws QRCount CRTLaws SqrtLaws BitLaws RatLaws SymLaws WindowLaws
CHECK_DEADLOCK FALSE

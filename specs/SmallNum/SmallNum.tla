------------------------------ MODULE SmallNum ------------------------------
(* Integers, residues and rationals BY DEFINITION, on a window small enough *)
(* for TLC's 32-bit integers (|v| < 2^15 for operands, every intermediate   *)
(* product < 2^31).  Nothing here is an algorithm the library uses: gcd is   *)
(* the greatest common divisor, an inverse / a square root is "some y with   *)
(* the defining property", the Jacobi symbol is the product of Legendre      *)
(* symbols over the factorisation (Legendre = counting squares), CRT is the  *)
(* unique residue below p*q.  SmallNumMC cross-checks the definitions        *)
(* against each other; SmallNumTrace judges the real library with them.      *)
EXTENDS Integers, Sequences, FiniteSets

Abs(x) == IF x < 0 THEN 0 - x ELSE x
Sgn(x) == IF x < 0 THEN 0 - 1 ELSE IF x = 0 THEN 0 ELSE 1
Max2(a, b) == IF a > b THEN a ELSE b
Min2(a, b) == IF a < b THEN a ELSE b
SetMax(S) == CHOOSE x \in S : \A y \in S : y <= x
SetMin(S) == CHOOSE x \in S : \A y \in S : x <= y

RECURSIVE Pow2(_)
Pow2(n) == IF n <= 0 THEN 1 ELSE 2 * Pow2(n - 1)             \* n <= 30

\* number of bits of |n| (0 for 0)
RECURSIVE BitLen(_)
BitLen(n) == IF n = 0 THEN 0 ELSE 1 + BitLen(Abs(n) \div 2)

\* a natural number cut to `c` bits (capacities of 31 bits and more keep every window value)
Trunc(x, c) == IF c >= 31 THEN x ELSE x % Pow2(c)
\* sign-magnitude integers: the magnitude is cut, the sign kept
TruncI(x, c) == Sgn(x) * Trunc(Abs(x), c)

--------------------------------------------------------------------------
(* Divisibility, gcd, lcm, primes *)
Divides(d, n) == d # 0 /\ n % Abs(d) = 0        \* TLC's % is the mathematical residue for a positive modulus

CommonDivisors(a, b) == {d \in 1..Max2(Abs(a), Abs(b)) : Divides(d, a) /\ Divides(d, b)}
GCD(a, b) == IF a = 0 /\ b = 0 THEN 0 ELSE SetMax(CommonDivisors(a, b))
Coprime(a, b) == GCD(a, b) = 1

\* least positive common multiple (0 if an operand is 0)
LCM(a, b) == IF a = 0 \/ b = 0 THEN 0
             ELSE Abs(a) * SetMin({k \in 1..Abs(b) : (k * Abs(a)) % Abs(b) = 0})

IsPrime(n) == n >= 2 /\ \A d \in 2..Min2(n - 1, 46340) : d * d > n \/ n % d # 0      \* n < 2^31: trial division up to the square root
IsPrimeSlow(n) == n >= 2 /\ \A d \in 2..(n - 1) : n % d # 0
RECURSIVE FirstFactor(_, _)
FirstFactor(n, d) == IF d * d > n THEN n ELSE IF n % d = 0 THEN d ELSE FirstFactor(n, d + 1)
SmallestFactor(n) == FirstFactor(n, 2)                                       \* n >= 2: the least divisor > 1 (n itself when n is prime)

--------------------------------------------------------------------------
(* Division with remainder, by the characterising equations *)
\* Euclidean: 0 <= r < |d|
IsEuclid(a, d, q, r) == d # 0 /\ a = q * d + r /\ 0 <= r /\ r < Abs(d)
\* truncated (round to zero): remainder has the sign of the dividend
IsTrunc(a, d, q, r) == d # 0 /\ a = q * d + r /\ Abs(r) < Abs(d) /\ (r = 0 \/ Sgn(r) = Sgn(a))
\* floor
IsFloor(a, d, q, r) == d # 0 /\ a = q * d + r /\ Abs(r) < Abs(d) /\ (r = 0 \/ Sgn(r) = Sgn(d))
\* the same by TLC's own operators (d > 0), for the cross-check
FloorQ(a, d) == a \div d
FloorR(a, d) == a % d

--------------------------------------------------------------------------
(* Residues modulo m >= 1 *)
Red(x, m) == x % m
MulMod(a, b, m) == ((a % m) * (b % m)) % m                                   \* m <= 46340
RECURSIVE PowMod(_, _, _)
PowMod(a, n, m) == IF n = 0 THEN 1 % m
                   ELSE IF n % 2 = 0 THEN PowMod(MulMod(a, a, m), n \div 2, m)
                   ELSE MulMod(a, PowMod(MulMod(a, a, m), n \div 2, m), m)
RECURSIVE PowModSlow(_, _, _)
PowModSlow(a, n, m) == IF n = 0 THEN 1 % m ELSE MulMod(a, PowModSlow(a, n - 1, m), m)
RECURSIVE Pow(_, _)
Pow(a, n) == IF n = 0 THEN 1 ELSE a * Pow(a, n - 1)                           \* caller keeps it < 2^31

IsInverse(a, y, m) == y \in 0..(m - 1) /\ MulMod(a, y, m) = 1 % m
HasInverse(a, m) == \E y \in 0..(m - 1) : MulMod(a, y, m) = 1 % m
Inverse(a, m) == CHOOSE y \in 0..(m - 1) : MulMod(a, y, m) = 1 % m
IsUnit(a, m) == GCD(a % m, m) = 1                                            \* the other definition (Bezout)

IsSqrtMod(a, y, m) == y \in 0..(m - 1) /\ MulMod(y, y, m) = a % m
IsQR(a, m) == \E y \in 0..(m - 1) : MulMod(y, y, m) = a % m

\* symmetric representative in [-m/2, m/2): x in it, congruent
InSymRange(x, m) == 0 - m <= 2 * x /\ 2 * x < m
\* saferith's SetModSymmetric picks the representative of smaller magnitude, ties negative:
\* range -(m\div 2) .. (m-1)\div 2
InSymRangeLib(x, m) == 0 - (m \div 2) <= x /\ x <= (m - 1) \div 2

--------------------------------------------------------------------------
(* Legendre / Jacobi *)
LegendreCount(a, p) == IF a % p = 0 THEN 0
                       ELSE IF \E y \in 1..(p - 1) : (y * y) % p = a % p THEN 1 ELSE 0 - 1
LegendreEuler(a, p) == LET t == PowMod(a % p, (p - 1) \div 2, p) IN
                       IF t = 0 THEN 0 ELSE IF t = 1 THEN 1 ELSE 0 - 1
RECURSIVE Jacobi(_, _)
Jacobi(a, n) == IF n = 1 THEN 1                                              \* n odd, positive
                ELSE LET p == SmallestFactor(n) IN LegendreCount(a, p) * Jacobi(a, n \div p)

--------------------------------------------------------------------------
(* Chinese remaindering, by uniqueness *)
CRTSolutions(rp, rq, p, q) == {x \in 0..(p * q - 1) : x % p = rp % p /\ x % q = rq % q}
CRT(rp, rq, p, q) == CHOOSE x \in 0..(p * q - 1) : x % p = rp % p /\ x % q = rq % q
RECURSIVE ProdSeq(_)
ProdSeq(s) == IF Len(s) = 0 THEN 1 ELSE s[1] * ProdSeq(Tail(s))
PairwiseCoprime(s) == \A i, j \in 1..Len(s) : i < j => Coprime(s[i], s[j])
IsCRTMulti(x, rs, ms) == /\ x \in 0..(ProdSeq(ms) - 1)
                         /\ \A i \in 1..Len(ms) : x % ms[i] = rs[i] % ms[i]

--------------------------------------------------------------------------
(* Integer square root *)
IsPerfectSquare(x) == x >= 0 /\ \E r \in 0..Min2(x, 46340) : r * r = x
IsIntSqrt(x, r) == r >= 0 /\ r * r = x

--------------------------------------------------------------------------
(* Bits and bytes *)
BitOf(x, i) == IF i >= 31 THEN 0 ELSE (x \div Pow2(i)) % 2                    \* x >= 0
RECURSIVE FromBytesBE(_)
FromBytesBE(s) == IF Len(s) = 0 THEN 0 ELSE 256 * FromBytesBE(SubSeq(s, 1, Len(s) - 1)) + s[Len(s)]
IsByteSeq(s) == \A i \in 1..Len(s) : s[i] \in 0..255
\* minimal big-endian length in bytes
ByteLen(x) == (BitLen(x) + 7) \div 8
RECURSIVE BitwiseN(_, _, _, _)
\* op: 1 and, 2 or, 3 xor on naturals, w bits
BitwiseN(op, x, y, w) ==
  IF w = 0 THEN 0
  ELSE LET bx == x % 2
           by == y % 2
           b == IF op = 1 THEN bx * by ELSE IF op = 2 THEN Max2(bx, by) ELSE (bx + by) % 2
       IN b + 2 * BitwiseN(op, x \div 2, y \div 2, w - 1)
NotN(x, w) == Pow2(w) - 1 - (x % Pow2(w))
\* two's complement of a signed value in w bits and back
ToTwos(x, w) == x % Pow2(w)
FromTwos(u, w) == IF u >= Pow2(w - 1) THEN u - Pow2(w) ELSE u
\* bitwise operation on integers (infinite two's complement), evaluated in w bits, w wide enough
BitwiseI(op, x, y, w) == FromTwos(BitwiseN(op, ToTwos(x, w), ToTwos(y, w), w), w)

--------------------------------------------------------------------------
(* Rationals as pairs <<a, b>>, b > 0 *)
RatEq(a, b, c, d) == a * d = c * b
RatLe(a, b, c, d) == a * d <= c * b
LowestTerms(a, b) == b > 0 /\ (IF a = 0 THEN b = 1 ELSE GCD(a, b) = 1)
\* floor / ceil of a/b (b > 0)
IsRatFloor(a, b, f) == f * b <= a /\ a < (f + 1) * b
IsRatCeil(a, b, c) == (c - 1) * b < a /\ a <= c * b

--------------------------------------------------------------------------
(* Multi-limb window: the value k * 2^64 + s with 0 <= k < 2^15, |s| < 2^30.   *)
(* Only what can be decided without ever forming the value.                   *)
IsW(v) == v.k >= 0 /\ v.k < 32768 /\ Abs(v.s) < 1073741824
WEq(u, v) == u.k = v.k /\ u.s = v.s                       \* representation is unique in the window (|s| << 2^63)
WLess(u, v) == u.k < v.k \/ (u.k = v.k /\ u.s < v.s)
WIsNat(v) == v.k > 0 \/ (v.k = 0 /\ v.s >= 0)
\* residue modulo a small m: 2^64 mod m by repeated squaring
WMod(v, m) == (MulMod(v.k % m, PowMod(2, 64, m), m) + (v.s % m)) % m
WAdd(u, v) == [k |-> u.k + v.k, s |-> u.s + v.s]
WSub(u, v) == [k |-> u.k - v.k, s |-> u.s - v.s]
WScale(c, v) == [k |-> c * v.k, s |-> c * v.s]
WLit(x) == [k |-> 0, s |-> x]
=============================================================================

----------------------------- MODULE SmallNumMC -----------------------------
(* Design-level check: the independent definitions of SmallNum agree with   *)
(* each other on every (a, b, n) of a small box. One initial state per      *)
(* triple; the invariants are the textbook theorems that relate the         *)
(* definitions (Bezout, gcd*lcm, Euler's criterion, multiplicativity and     *)
(* reciprocity of the Jacobi symbol, CRT uniqueness and round trip,         *)
(* uniqueness of quotient and remainder, two's complement identities).      *)
EXTENDS SmallNum, TLC

CONSTANTS B, M            \* a, b in -B..B ; n in 1..M
VARIABLES a, b, n
vars == <<a, b, n>>

Init == a \in (0 - B)..B /\ b \in (0 - B)..B /\ n \in 1..M
Next == UNCHANGED vars

Odd(x) == x % 2 = 1
MinusOnePow(k) == IF k % 2 = 0 THEN 1 ELSE 0 - 1

\* gcd: divides both, every common divisor divides it, and it is an integer combination (Bezout)
GcdLaws ==
  LET g == GCD(a, b) IN
  /\ g >= 0
  /\ (g = 0) <=> (a = 0 /\ b = 0)
  /\ g # 0 => Divides(g, a) /\ Divides(g, b) /\ \A d \in CommonDivisors(a, b) : Divides(d, g)
  /\ \E u \in (0 - B)..B : \E v \in (0 - B)..B : u * a + v * b = g
  /\ GCD(b, a) = g /\ GCD(0 - a, b) = g
  /\ GCD(a, b) * LCM(a, b) = Abs(a * b)
  /\ (a # 0 /\ b # 0) => Divides(a, LCM(a, b)) /\ Divides(b, LCM(a, b))

\* inverse exists exactly for units; it is unique; mod 1 everything is the unit 0
InverseLaws ==
  /\ HasInverse(a, n) <=> IsUnit(a, n)
  /\ HasInverse(a, n) => /\ IsInverse(a, Inverse(a, n), n)
                         /\ \A y \in 0..(n - 1) : IsInverse(a, y, n) => y = Inverse(a, n)

\* quotient and remainder are unique for each convention; conventions agree where they must
DivLaws ==
  b # 0 =>
    /\ Cardinality({qr \in ((0 - B)..B) \X (0..B) : IsEuclid(a, b, qr[1], qr[2])}) = 1
    /\ Cardinality({qr \in ((0 - B)..B) \X ((0 - B)..B) : IsTrunc(a, b, qr[1], qr[2])}) = 1
    /\ Cardinality({qr \in ((0 - B)..B) \X ((0 - B)..B) : IsFloor(a, b, qr[1], qr[2])}) = 1
    /\ b > 0 => IsFloor(a, b, FloorQ(a, b), FloorR(a, b)) /\ IsEuclid(a, b, FloorQ(a, b), FloorR(a, b))
    /\ a >= 0 /\ b > 0 => IsTrunc(a, b, FloorQ(a, b), FloorR(a, b))
    /\ a < 0 /\ b > 0 => IsTrunc(a, b, 0 - FloorQ(0 - a, b), 0 - FloorR(0 - a, b))

PowLaws ==
  /\ \A e \in 0..B : PowMod(a, e, n) = PowModSlow(a, e, n)
  /\ \A e \in 0..4 : Abs(a) <= 12 => PowMod(a, e, n) = Pow(a, e) % n
  /\ IsPrime(n) <=> IsPrimeSlow(n)
  /\ n >= 2 => SmallestFactor(n) = SetMin({d \in 2..n : n % d = 0})
  /\ IsPrime(n) /\ a % n # 0 => PowMod(a, n - 1, n) = 1 % n                  \* Fermat

JacobiLaws ==
  Odd(n) =>
    /\ Jacobi(a, n) \in {0 - 1, 0, 1}
    /\ (Jacobi(a, n) = 0) <=> ~Coprime(a, n)
    /\ Jacobi(a * b, n) = Jacobi(a, n) * Jacobi(b, n)
    /\ Jacobi(a + n, n) = Jacobi(a, n) /\ Jacobi(a - n, n) = Jacobi(a, n) /\ Jacobi(a % n, n) = Jacobi(a, n)
    /\ Jacobi(0 - 1, n) = MinusOnePow((n - 1) \div 2)
    /\ Jacobi(2, n) = MinusOnePow((n * n - 1) \div 8)
    /\ IsPrime(n) => LegendreCount(a, n) = LegendreEuler(a, n) /\ Jacobi(a, n) = LegendreCount(a, n)
    /\ IsPrime(n) => ((Jacobi(a, n) \in {0, 1}) <=> IsQR(a, n))
    /\ (Abs(b) >= 1 /\ Odd(Abs(b))) => Jacobi(a, n * Abs(b)) = Jacobi(a, n) * Jacobi(a, Abs(b))
    \* quadratic reciprocity for odd positive coprime a, n
    /\ (a > 0 /\ Odd(a) /\ Coprime(a, n)) =>
         Jacobi(a, n) * Jacobi(n, a) = MinusOnePow(((a - 1) \div 2) * ((n - 1) \div 2))

\* number of squares modulo an odd prime
QRCount == (IsPrime(n) /\ Odd(n) /\ a = 0 /\ b = 0) =>
             Cardinality({x \in 0..(n - 1) : IsQR(x, n)}) = (n + 1) \div 2

CRTLaws ==
  LET p == Abs(a) + 1
      q == n IN
  Coprime(p, q) =>
    /\ \A rp \in 0..(p - 1) : Cardinality(CRTSolutions(rp, Abs(b), p, q)) = 1
    /\ \A x \in 0..(p * q - 1) : CRT(x % p, x % q, p, q) = x
    /\ IsCRTMulti(CRT(Abs(b), 1, p, q), <<Abs(b), 1>>, <<p, q>>)

SqrtLaws ==
  /\ IsPerfectSquare(n) <=> (\E r \in 1..n : IsIntSqrt(n, r))
  /\ IsPerfectSquare(a * a)
  /\ a < 0 => ~IsPerfectSquare(a)

BitLaws ==
  LET x == Abs(a)
      y == Abs(b)
      w == 8 IN
  /\ x < Pow2(BitLen(x)) /\ (x > 0 => x >= Pow2(BitLen(x) - 1))
  /\ BitwiseN(1, x, y, w) + BitwiseN(2, x, y, w) = x + y
  /\ BitwiseN(3, x, y, w) = BitwiseN(2, x, y, w) - BitwiseN(1, x, y, w)
  /\ BitwiseI(1, a, b, w) + BitwiseI(2, a, b, w) = a + b
  /\ BitwiseI(3, a, b, w) = BitwiseI(2, a, b, w) - BitwiseI(1, a, b, w)
  /\ BitwiseI(3, a, 0 - 1, w) = 0 - a - 1                                   \* not x = -x-1
  /\ FromTwos(ToTwos(a, w), w) = a
  /\ FromBytesBE(<<x \div 256, x % 256>>) = x /\ FromBytesBE(<<0, 0, x % 256>>) = x % 256
  /\ x = BitOf(x, 0) + 2 * BitOf(x, 1) + 4 * BitOf(x, 2) + 8 * (x \div 8)
  /\ Trunc(x, 3) = x % 8 /\ TruncI(a, 3) = Sgn(a) * (x % 8) /\ Trunc(x, 40) = x

RatLaws ==
  n >= 1 =>
    LET g == GCD(a, n) IN
    /\ g >= 1 /\ LowestTerms(a \div g, n \div g) /\ RatEq(a, n, a \div g, n \div g)
    /\ IsRatFloor(a, n, FloorQ(a, n))
    /\ IsRatCeil(a, n, 0 - FloorQ(0 - a, n))
    /\ Cardinality({f \in (0 - B - 1)..(B + 1) : IsRatFloor(a, n, f)}) = 1

SymLaws ==
  /\ Cardinality({x \in (0 - n)..n : InSymRange(x, n) /\ (x - a) % n = 0}) = 1
  /\ Cardinality({x \in (0 - n)..n : InSymRangeLib(x, n) /\ (x - a) % n = 0}) = 1

\* the window: k = 0 is the plain value; 2^64 = (2^32)^2
WindowLaws ==
  /\ WMod(WLit(a), n) = a % n
  /\ WMod([k |-> Abs(b), s |-> a], n) = (MulMod(Abs(b), MulMod(PowMod(2, 32, n), PowMod(2, 32, n), n), n) + a) % n
  /\ WLess(WLit(a), WLit(b)) <=> a < b
  /\ WLess(WLit(a), [k |-> 1, s |-> b])
ASSUME PowMod(2, 64, 7) = 2 /\ PowMod(2, 64, 1000) = 616 /\ PowMod(2, 64, 45971) = 31681
=============================================================================

--------------------------- MODULE SmallNumTrace ---------------------------
(* Validates a log of real calls into pkg/base/nt/{numct,num,modular,crt,  *)
(* znstar}, nt.Jacobi and the prime generators (driver harness/cmd/smallnum)*)
(* against the declarative definitions of SmallNum.  One line = one call    *)
(* (or one bundle of calls on the same operands); CaseOK must hold for      *)
(* every line.  Operands are logged as requested (value x, announced        *)
(* capacity cx): the value the library holds is Trunc(x, cx).               *)
EXTENDS SmallNum, TLC, Json

Trace == ndJsonDeserialize("trace.ndjson")

VARIABLE l
vars == <<l>>

NX(e) == Trunc(e.x, e.cx)
NY(e) == Trunc(e.y, e.cy)
IX(e) == TruncI(e.x, e.cx)
IY(e) == TruncI(e.y, e.cy)
Cap(c, dflt) == IF c < 0 THEN dflt ELSE c
Stale(al, x, y, pre) == IF al = 1 THEN x ELSE IF al = 2 THEN y ELSE IF al = 3 THEN pre ELSE 0   \* content of the output object before the call
B2N(b) == IF b THEN 1 ELSE 0
OrdOf(a, b) == IF a < b THEN 0 - 1 ELSE IF a = b THEN 0 ELSE 1
IsBytesOf(s, v, n) == Len(s) = n /\ IsByteSeq(s) /\ FromBytesBE(s) = v
SetBitN(x, i, b) == x - BitOf(x, i) * Pow2(i) + b * Pow2(i)
SameSeq(s, t) == Len(s) = Len(t) /\ \A i \in 1..Len(s) : s[i] = t[i]

\* x^e modulo m for a signed exponent, defined when e >= 0 or x is a unit
ExpIDefined(x, ex, m) == ex >= 0 \/ HasInverse(x, m)
ExpI(x, ex, m) == IF ex >= 0 THEN PowMod(x, ex, m) ELSE PowMod(Inverse(x, m), 0 - ex, m)

\* ModDiv as the library documents it: for an odd modulus y must be a unit; for an even modulus the
\* congruence y*u = x is solved whenever gcd(y, m) divides x (u is then only determined modulo m/gcd)
DivOK(x, y, m) == IF m % 2 = 1 THEN HasInverse(y, m) ELSE (x % m) % GCD(y % m, m) = 0
DivSound(x, y, m, u) == u \in 0..(m - 1) /\ MulMod(y, u, m) = x % m

---------------------------------------------------------------------------
\* an operand that is not the output object keeps its value
\* (an explicit result capacity below an operand's announced length makes saferith cut that operand in place: not claimed)
CapCovers(e) == ("c" \notin DOMAIN e) \/ e.c < 0 \/ e.c >= Max2(e.cx, e.cy)
KeptN(e) == CapCovers(e) => (e.al # 1 => e.xp = NX(e)) /\ (e.al # 2 => e.yp = NY(e))
KeptI(e) == CapCovers(e) => (e.al # 1 => e.xp = IX(e)) /\ (e.al # 2 => e.yp = IY(e))

CheckNat0(e) ==
  CASE e.a = "n.set" -> e.r = Trunc(e.x, e.c) /\ e.ra = e.c /\ e.tl = BitLen(e.r)
    [] e.a = "n.add" -> LET C == Cap(e.c, Max2(e.cx, e.cy) + 1) IN e.r = Trunc(NX(e) + NY(e), C) /\ e.ra = C
    [] e.a = "n.sub" -> LET C == Cap(e.c, Max2(e.cx, e.cy)) IN e.r = Trunc(NX(e) - NY(e), C) /\ e.ra = C
    [] e.a = "n.mul" -> LET C == Cap(e.c, e.cx + e.cy) IN e.r = Trunc(NX(e) * NY(e), C) /\ e.ra = C
    [] e.a \in {"n.and", "n.or", "n.xor"} ->
         LET C == Cap(e.c, Max2(e.cx, e.cy))
             op == IF e.a = "n.and" THEN 1 ELSE IF e.a = "n.or" THEN 2 ELSE 3
         IN e.r = Trunc(BitwiseN(op, NX(e), NY(e), 31), C) /\ e.ra = C
    [] e.a \in {"n.div", "n.divvt"} ->
         /\ e.ok <=> NY(e) # 0
         /\ e.ok => IsEuclid(NX(e), NY(e), e.q, e.rem) /\ e.qa >= 0 /\ e.rema >= 0
         /\ ~e.ok => e.q = Stale(e.al, NX(e), NY(e), 12345) /\ e.rem = 77
    [] e.a = "n.gcd" -> e.r = GCD(NX(e), NY(e))
    [] e.a = "n.lcm" -> e.r = LCM(NX(e), NY(e))
    [] e.a = "n.coprime" -> e.r <=> Coprime(NX(e), NY(e))
    [] e.a = "n.cmp" ->
         /\ e.lt <=> NX(e) < NY(e)
         /\ e.eq <=> NX(e) = NY(e)
         /\ e.gt <=> NX(e) > NY(e)
         /\ e.eq2 <=> NX(e) = NY(e)
    [] e.a = "n.select" -> e.r = (IF e.ch = 1 THEN NY(e) ELSE NX(e)) /\ e.r2 = (IF e.ch2 = 1 THEN NY(e) ELSE NX(e))
    [] e.a = "n.pred" ->
         LET X == NX(e) IN
         /\ e.zero <=> X = 0
         /\ e.nz <=> X # 0
         /\ e.one <=> X = 1
         /\ e.odd <=> X % 2 = 1
         /\ e.even <=> X % 2 = 0
         /\ e.tl = BitLen(X) /\ e.al = e.cx /\ e.u64 = X /\ e.clone = X /\ e.lift = X
         /\ e.prime <=> IsPrime(X)
         /\ IsBytesOf(e.bytes, X, (e.cx + 7) \div 8)
         /\ e.b0 = X % 256 /\ e.b1 = (X \div 256) % 256
         /\ e.bit0 = BitOf(X, 0) /\ e.bit3 = BitOf(X, 3) /\ e.bit9 = BitOf(X, 9)
         /\ e.cx <= 32 => IsBytesOf(e.fill, X, 4)
         /\ e.sqok <=> IsPerfectSquare(X)
         /\ IF e.sqok THEN IsIntSqrt(X, e.sq) ELSE e.sq = 99
         /\ e.dbl = 2 * X /\ e.inc = X + 1
         /\ e.dec = (IF X > 0 THEN X - 1 ELSE IF e.cx < 31 THEN Pow2(Max2(e.cx, 1)) - 1 ELSE 0)
    [] e.a = "n.setbytes" -> IsByteSeq(e.bytes) /\ e.r = FromBytesBE(e.bytes) /\ e.r2 = e.r /\ e.ra = 8 * Len(e.bytes) /\ e.ok
    [] e.a = "n.lsh" -> LET C == Cap(e.c, e.cx + e.s) IN e.r = Trunc(NX(e) * Pow2(e.s), C) /\ e.ra = C
    [] e.a = "n.rsh" -> LET C == Cap(e.c, Max2(e.cx - e.s, 0)) IN e.r = Trunc(NX(e) \div Pow2(e.s), C) /\ e.ra = C
    [] e.a = "n.not" -> LET C == Cap(e.c, e.cx) IN e.r = NotN(NX(e), C) /\ e.ra = C
    [] e.a = "n.setbit" -> e.r = SetBitN(NX(e), e.i, e.bit) /\ e.ra = Max2(e.cx, e.i + 1)
    [] e.a = "n.resize" -> e.r = NX(e) /\ e.ra = Cap(e.c, e.cx)
    [] e.a = "n.rand" -> (e.ok <=> e.lo < e.hi) /\ (e.ok => e.lo <= e.r /\ e.r < e.hi)
    [] OTHER -> FALSE

CheckNat(e) == CheckNat0(e) /\ (e.a \in {"n.add", "n.sub", "n.mul", "n.and", "n.or", "n.xor", "n.div", "n.divvt", "n.gcd", "n.lcm"} => KeptN(e))

---------------------------------------------------------------------------
CheckInt0(e) ==
  CASE e.a = "i.set" -> e.r = TruncI(e.x, e.c) /\ e.ra = e.c /\ e.tl = BitLen(e.r) /\ (e.r # 0 => (e.neg <=> e.r < 0))
    [] e.a = "i.add" -> LET C == Cap(e.c, Max2(e.cx, e.cy) + 1) IN e.r = IX(e) + IY(e) /\ e.ra = C
    [] e.a = "i.sub" -> LET C == Cap(e.c, Max2(e.cx, e.cy) + 1) IN e.r = IX(e) - IY(e) /\ e.ra = C
    [] e.a = "i.mul" -> LET C == Cap(e.c, e.cx + e.cy) IN e.r = TruncI(IX(e) * IY(e), C) /\ e.ra = C
    [] e.a = "i.gcd" -> e.r = GCD(IX(e), IY(e))
    [] e.a \in {"i.and", "i.or", "i.xor"} ->
         LET op == IF e.a = "i.and" THEN 1 ELSE IF e.a = "i.or" THEN 2 ELSE 3
         IN e.r = BitwiseI(op, IX(e), IY(e), 20)
    [] e.a \in {"i.div", "i.divvt"} ->
         /\ e.ok <=> IY(e) # 0
         /\ e.ok => IsTrunc(IX(e), IY(e), e.q, e.rem)
         /\ ~e.ok => e.q = Stale(e.al, IX(e), IY(e), 0 - 4321) /\ e.rem = 0 - 55
    [] e.a \in {"i.ediv", "i.edivvt"} ->
         /\ e.ok <=> IY(e) # 0
         /\ e.ok => IsEuclid(IX(e), IY(e), e.q, e.rem)
         /\ ~e.ok => e.q = Stale(e.al, IX(e), IY(e), 0 - 4321) /\ e.rem = 55
    [] e.a = "i.cmp" ->
         /\ e.lt <=> IX(e) < IY(e)
         /\ e.eq <=> IX(e) = IY(e)
         /\ e.gt <=> IX(e) > IY(e)
         /\ e.eq2 <=> IX(e) = IY(e)
         /\ e.cop <=> Coprime(IX(e), IY(e))
         /\ e.sel = (IF e.ch = 1 THEN IY(e) ELSE IX(e))
         /\ e.ca = (IF e.ch2 = 1 THEN IY(e) ELSE IX(e))
    [] e.a = "i.negzero" ->
         /\ IsTrunc(e.x, e.y, e.q, e.r)
         /\ e.qz <=> e.q = 0
         /\ e.rz <=> e.r = 0
         /\ e.qeq0 <=> e.q = 0
         /\ e.req0 <=> e.r = 0
         /\ e.qcmp = <<e.q < 0, e.q = 0, e.q > 0>>
         /\ e.rcmp = <<e.r < 0, e.r = 0, e.r > 0>>
         /\ e.qplus0 = e.q
    [] e.a = "i.pred" ->
         LET X == IX(e) IN
         /\ e.neg = 0 - X /\ e.abs = Abs(X) /\ e.absn = Abs(X) /\ e.dbl = 2 * X /\ e.sq = X * X /\ e.inc = X + 1 /\ e.dec = X - 1
         /\ e.unit <=> Abs(X) = 1
         /\ e.invok <=> Abs(X) = 1
         /\ e.inv = (IF e.invok THEN X ELSE 9)
         /\ e.sqrtok <=> IsPerfectSquare(X)
         /\ IF e.sqrtok THEN IsIntSqrt(X, e.sqrt) ELSE e.sqrt = 0 - 9
         /\ X # 0 => (e.isneg <=> X < 0)
         /\ e.zero <=> X = 0
         /\ e.nz <=> X # 0
         /\ e.one <=> X = 1
         /\ e.odd <=> X % 2 = 1
         /\ e.even <=> X % 2 = 0
         /\ e.tl = BitLen(X) /\ e.al = e.cx /\ e.i64 = X /\ e.u64 = Abs(X)
         /\ e.prime <=> IsPrime(X)
         \* sign-magnitude bytes: sign byte then the magnitude on the announced width
         /\ Len(e.bytes) = 1 + (e.cx + 7) \div 8 /\ IsByteSeq(e.bytes)
         /\ FromBytesBE(Tail(e.bytes)) = Abs(X) /\ (X # 0 => e.bytes[1] = B2N(X < 0)) /\ e.bytes[1] \in {0, 1}
         /\ e.backok /\ e.back = X
         /\ e.tw => /\ Len(e.twos) = (e.cx + 1 + 7) \div 8 /\ IsByteSeq(e.twos)
                    /\ FromBytesBE(e.twos) = ToTwos(X, 8 * Len(e.twos))
                    /\ e.twosok /\ e.twosback = X
                    /\ e.not = 0 - X - 1
         /\ e.cneg = (IF e.x % 2 = 1 THEN 0 - X ELSE X)
    [] e.a = "i.fromtwos" ->
         /\ e.ok <=> Len(e.bytes) > 0
         /\ e.ok => e.r = FromTwos(FromBytesBE(e.bytes), 8 * Len(e.bytes))
    [] e.a = "i.shift" ->
         LET X == IX(e)
             CL == Cap(e.c, e.cx + e.s)
             CR == Cap(e.c, e.cx - e.s) IN
         /\ e.l = Sgn(X) * Trunc(Abs(X) * Pow2(e.s), CL) /\ e.la = CL
         /\ e.rsh => e.r = Sgn(X) * Trunc(Abs(X) \div Pow2(e.s), CR)
    [] e.a = "i.rand" -> (e.ok <=> e.lo < e.hi) /\ (e.ok => e.lo <= e.r /\ e.r < e.hi)
    [] OTHER -> FALSE

CheckInt(e) == CheckInt0(e) /\ (e.a \in {"i.add", "i.sub", "i.mul", "i.gcd", "i.and", "i.or", "i.xor", "i.div", "i.divvt", "i.ediv", "i.edivvt"} => KeptI(e))

---------------------------------------------------------------------------
CheckMod(e) ==
  CASE e.a = "m.new" ->
         /\ e.ok <=> e.m # 0
         /\ e.ok => /\ e.bl = BitLen(e.m) /\ e.nat = e.m /\ IsBytesOf(e.bytes, e.m, ByteLen(e.m))
                    /\ e.setnat /\ e.setnatv = e.m
    [] e.a = "m.frombytes" -> (e.ok <=> FromBytesBE(e.bytes) # 0) /\ (e.ok => e.nat = FromBytesBE(e.bytes))
    [] e.a = "m.un" ->
         LET X == NX(e)
             m == e.m IN
         /\ e.red = X % m /\ e.redal = X % m
         /\ e.neg = (0 - X) % m /\ e.negal = (0 - X) % m
         /\ e.quo = X \div m
         /\ InSymRangeLib(e.sym, m) /\ (e.sym - X) % m = 0
         /\ e.inr <=> X < m
         /\ e.unit <=> IsUnit(X, m)
         \* "reports non-invertibility exactly when it holds" (modulus 1: the zero ring, nothing is claimed)
         /\ m > 1 => (e.invok <=> HasInverse(X, m)) /\ (e.invalok <=> HasInverse(X, m))
         /\ m > 1 /\ e.invok => IsInverse(X, e.inv, m)
         /\ m > 1 /\ e.invalok => IsInverse(X, e.inval, m)
    [] e.a = "m.sqrt" ->
         LET X == NX(e)
             m == e.m IN
         \* soundness for every modulus; completeness modulo an odd prime; composite: perfect squares only (not claimed complete)
         /\ e.ok => IsSqrtMod(X, e.r, m)
         /\ IsPrime(m) => (e.ok <=> IsQR(X, m))                          \* modulo 2 every residue is its own root
         /\ IsPerfectSquare(X % m) /\ ~IsPrime(m) => e.ok
         /\ ~e.ok => e.r = (IF e.al = 1 THEN X ELSE 123)
    [] e.a = "m.modi" ->
         LET X == IX(e) IN
         /\ e.red = X % e.m
         /\ e.insym <=> InSymRange(X, e.m)
    [] e.a = "m.bin" ->
         LET X == NX(e)
             Y == NY(e)
             m == e.m IN
         /\ e.add = (X + Y) % m /\ e.sub = (X - Y) % m /\ e.mul = MulMod(X, Y, m)
         /\ e.exp = PowMod(X, Y, m)
         /\ m > 1 => (e.divok <=> DivOK(X, Y, m))
         /\ m > 1 /\ e.divok => DivSound(X, Y, m, e.div)
         /\ m > 1 /\ e.divok /\ HasInverse(Y, m) => e.div = MulMod(X, Inverse(Y, m), m)
    [] e.a = "m.expi" -> ExpIDefined(NX(e), TruncI(e.e, e.ce), e.m) => e.r = ExpI(NX(e), TruncI(e.e, e.ce), e.m)
    [] e.a = "m.expi.panic" -> ~ExpIDefined(NX(e), TruncI(e.e, e.ce), e.m)   \* undefined power: nothing is claimed, a crash is tolerated
    [] e.a = "m.multiexp" -> \A i \in 1..Len(e.bases) : e.rs[i] = PowMod(e.bases[i], e.e, e.m)
    [] e.a = "m.rand" -> e.r \in 0..(e.m - 1)
    [] OTHER -> FALSE

---------------------------------------------------------------------------
Opt(ok, v, cond, val) == (ok <=> cond) /\ (ok => v = val)

CheckNum(e) ==
  CASE e.a = "N.bin" ->
         LET X == NX(e)
             Y == NY(e) IN
         /\ e.add = X + Y /\ e.mul = X * Y /\ e.smul = X * Y /\ e.gcd = GCD(X, Y)
         /\ Opt(e.subok, e.sub, X >= Y, X - Y)
         /\ Opt(e.divok, e.div, Y # 0 /\ X % Max2(Y, 1) = 0, X \div Max2(Y, 1))
         /\ Opt(e.divvtok, e.divvt, Y # 0 /\ X % Max2(Y, 1) = 0, X \div Max2(Y, 1))
         /\ Opt(e.drok, e.dr, Y # 0, X \div Max2(Y, 1))
         /\ Opt(e.drvtok, e.drvt, Y # 0, X \div Max2(Y, 1))
         /\ (e.eqok <=> Y # 0) /\ (e.erok <=> Y # 0) /\ (e.eqok => IsEuclid(X, Y, e.eq, e.er))
         /\ (e.eqvtok <=> Y # 0) /\ (e.ervtok <=> Y # 0) /\ (e.eqvtok => IsEuclid(X, Y, e.eqvt, e.ervt))
         /\ e.cmp = OrdOf(X, Y)
         /\ e.le <=> X <= Y
         /\ e.eq_ <=> X = Y
         /\ e.cop <=> Coprime(X, Y)
         /\ e.hasmod => e.mod = X % Y /\ (e.unit <=> IsUnit(X, Y))
    [] e.a = "N.un" ->
         LET X == NX(e) IN
         /\ (e.sqrtok <=> IsPerfectSquare(X)) /\ (e.sqrtok => IsIntSqrt(X, e.sqrt))
         /\ Opt(e.decok, e.dec, X > 0, X - 1)
         /\ Opt(e.invok, e.inv, X = 1, 1)
         /\ ~e.negok
         /\ e.inc = X + 1 /\ e.dbl = 2 * X /\ e.sq = X * X
         /\ e.zero <=> X = 0
         /\ e.one <=> X = 1
         /\ e.pos <=> X > 0
         /\ e.odd <=> X % 2 = 1
         /\ e.even <=> X % 2 = 0
         /\ e.prime <=> IsPrime(X)
         /\ e.tl = BitLen(X) /\ IsBytesOf(e.bytes, X, (e.cx + 7) \div 8) /\ e.lift = X /\ e.u64 = X
         /\ e.lsh3 = 8 * X /\ e.rsh2 = X \div 4
         /\ e.frombigok /\ e.frombig = e.x /\ e.frombytesok /\ e.frombytes = e.x
         /\ Opt(e.fromintok, e.fromint, e.fromintarg >= 0, e.fromintarg)
    [] e.a = "Z.bin" ->
         LET X == IX(e)
             Y == IY(e) IN
         /\ e.add = X + Y /\ e.sub = X - Y /\ e.mul = X * Y
         /\ (e.divok <=> (Y # 0 /\ Divides(Y, X))) /\ (e.divok => e.div * Y = X)
         /\ (e.divvtok <=> (Y # 0 /\ Divides(Y, X))) /\ (e.divvtok => e.divvt * Y = X)
         /\ (e.drok <=> Y # 0) /\ (e.drok => \E r \in (0 - Abs(Y))..Abs(Y) : IsTrunc(X, Y, e.dr, r))
         /\ (e.drvtok <=> Y # 0) /\ (e.drvtok => \E r \in (0 - Abs(Y))..Abs(Y) : IsTrunc(X, Y, e.drvt, r))
         /\ (e.eqok <=> Y # 0) /\ (e.erok <=> Y # 0) /\ (e.eqok => IsEuclid(X, Y, e.eq, e.er))
         /\ (e.eqvtok <=> Y # 0) /\ (e.ervtok <=> Y # 0) /\ (e.eqvtok => IsEuclid(X, Y, e.eqvt, e.ervt))
         /\ e.cmp = OrdOf(X, Y)
         /\ e.le <=> X <= Y
         /\ e.eq_ <=> X = Y
         /\ e.cop <=> Coprime(X, Y)
         /\ e.hasmod => /\ e.mod = X % Y
                        /\ e.unit <=> IsUnit(X, Y)
                        /\ e.inr <=> (0 <= X /\ X < Y)
                        /\ e.insym <=> InSymRange(X, Y)
    [] e.a = "Z.un" ->
         LET X == IX(e) IN
         /\ Opt(e.invok, e.inv, Abs(X) = 1, X)
         /\ e.neg = 0 - X /\ e.abs = Abs(X) /\ e.inc = X + 1 /\ e.dec = X - 1 /\ e.dbl = 2 * X /\ e.sq = X * X
         /\ X # 0 => (e.isneg <=> X < 0)
         /\ e.pos <=> X > 0
         /\ e.zero <=> X = 0
         /\ e.one <=> X = 1
         /\ e.odd <=> X % 2 = 1
         /\ e.even <=> X % 2 = 0
         /\ e.prime <=> IsPrime(X)
         /\ e.lsh2 = 4 * X /\ e.rsh1 = Sgn(X) * (Abs(X) \div 2)
         /\ IsByteSeq(e.absbytes) /\ FromBytesBE(e.absbytes) = Abs(X)
         /\ e.backok /\ e.back = X
         /\ e.cx <= 24 => e.twosbackok /\ e.twosback = X
         /\ e.frombigok /\ e.frombig = e.x /\ e.fromi64 = e.x
    [] e.a = "P.bin" ->
         /\ e.add = e.x + e.y /\ e.mul = e.x * e.y
         /\ Opt(e.subok, e.sub, e.x > e.y, e.x - e.y)
         /\ Opt(e.divok, e.div, e.x % e.y = 0, e.x \div e.y)
         /\ e.cmp = OrdOf(e.x, e.y)
         /\ e.le <=> e.x <= e.y
         /\ e.eq_ <=> e.x = e.y
         /\ e.unit <=> IsUnit(e.x, e.y)
         /\ e.mod = e.x % e.y
    [] e.a = "P.un" ->
         /\ Opt(e.newok, e.new, e.x > 0, e.x)
         /\ Opt(e.fromnatok, e.fromnat, e.x > 0, e.x)
         /\ Opt(e.fromintok, e.fromint, e.fromintarg > 0, e.fromintarg)
         /\ Opt(e.frombigok, e.frombig, e.fromintarg > 0, e.fromintarg)
         /\ e.x >= 1 => /\ Opt(e.decok, e.dec, e.x > 1, e.x - 1)
                        /\ Opt(e.rsh2ok, e.rsh2, e.x >= 4, e.x \div 4)
                        /\ Opt(e.invok, e.inv, e.x = 1, 1)
                        /\ e.inc = e.x + 1 /\ e.dbl = 2 * e.x /\ e.sq = e.x * e.x /\ e.lsh1 = 2 * e.x
                        /\ (e.one <=> e.x = 1) /\ (e.odd <=> e.x % 2 = 1) /\ (e.prime <=> IsPrime(e.x))
                        /\ e.tl = BitLen(e.x) /\ e.modct = e.x
    \* a value derived from a NatPlus that was already used as a modulus reduces modulo ITSELF, not modulo the operand it came from
    [] e.a = "P.seq" ->
         LET dv == CASE e.op = "inc" -> e.x + 1 [] e.op = "dec" -> e.x - 1 [] e.op = "dbl" -> 2 * e.x [] e.op = "sq" -> e.x * e.x
                     [] e.op = "lsh1" -> 2 * e.x [] e.op = "rsh1" -> e.x \div 2 [] e.op = "add3" -> e.x + 3 [] e.op = "mul3" -> 3 * e.x
                     [] OTHER -> e.x
         IN /\ e.pafter = e.x
            /\ e.ok <=> dv >= 1
            /\ e.ok => /\ e.d = dv
                        /\ \A i \in 1..Len(e.ys) : e.rz[i] = e.ys[i] % dv /\ e.rn[i] = e.ys[i] % dv /\ e.ru[i] = e.ys[i] % dv
    [] e.a = "U.ring" -> (e.domain <=> IsPrime(e.m)) /\ e.zero = 0 /\ e.one = 1 % e.m /\ e.top = e.m - 1 /\ e.mod = e.m
    [] e.a = "U.ring.panic" -> e.m = 1                                    \* Top() of the one-element ring refuses to decrement the modulus
    [] e.a = "U.un" ->
         LET m == e.m
             v == e.x % m IN
         /\ e.v = v
         /\ m > 1 => (e.invok <=> HasInverse(v, m)) /\ (e.invok => IsInverse(v, e.inv, m))
         /\ e.neg = (0 - v) % m /\ e.dbl = (2 * v) % m /\ e.sq = MulMod(v, v, m) /\ e.inc = (v + 1) % m /\ e.dec = (v - 1) % m
         /\ e.unit <=> IsUnit(v, m)
         /\ e.zero <=> v = 0
         /\ e.one <=> v = 1
         /\ e.top <=> v = m - 1
         /\ e.lift = v /\ e.lsh2 = (4 * v) % m /\ e.rsh1 = (v \div 2) % m
         /\ e.symok /\ InSymRangeLib(e.sym, m) /\ (e.sym - v) % m = 0
         /\ e.isneg <=> ~InSymRangeLib(v, m)
         /\ Opt(e.reducedok, e.reduced, e.x >= 0 /\ e.reducedarg < m, e.reducedarg)
    [] e.a = "U.sqrt" ->
         /\ e.rok => IsSqrtMod(e.x, e.r, e.m)
         /\ IsPrime(e.m) => (e.rok <=> IsQR(e.x, e.m))
         /\ e.qr <=> e.rok
    [] e.a = "U.bin" ->
         LET m == e.m IN
         /\ e.add = (e.x + e.y) % m /\ e.sub = (e.x - e.y) % m /\ e.mul = MulMod(e.x, e.y, m)
         /\ m > 1 => (e.divok <=> DivOK(e.x, e.y, m))
         /\ m > 1 /\ e.divok => DivSound(e.x, e.y, m, e.div)
         /\ e.cmp = OrdOf(e.x, e.y)
         /\ e.eq_ <=> e.x = e.y
         /\ e.cop <=> Coprime(e.x, e.y)
         /\ e.dom <=> IsPrime(m)
         /\ (e.eqok <=> (e.dom /\ e.y # 0)) /\ (e.eqok => IsEuclid(e.x, e.y, e.eq, e.er))
    [] e.a = "U.exp" ->
         /\ ExpIDefined(e.x, e.e, e.m) => e.expi = ExpI(e.x, e.e, e.m)
         /\ e.e >= 0 => e.exp = PowMod(e.x, e.e, e.m) /\ e.smul = (e.x * e.e) % e.m /\ e.expb = PowMod(e.x, e.e % 8, e.m)
    [] e.a = "U.exp.panic" -> ~ExpIDefined(e.x, e.e, e.m)
    [] e.a = "Q.un" ->
         LET a == e.a_
             b == e.b IN
         /\ LowestTerms(e.cann, e.cand) /\ RatEq(e.cann, e.cand, a, b)
         /\ e.negd > 0 /\ RatEq(e.negn, e.negd, 0 - a, b)
         /\ e.dbld > 0 /\ RatEq(e.dbln, e.dbld, 2 * a, b)
         /\ e.sqd > 0 /\ RatEq(e.sqn, e.sqd, a * a, b * b)
         /\ e.invok <=> a # 0
         /\ e.invok => e.invd > 0 /\ RatEq(e.invn, e.invd, Sgn(a) * b, Abs(a))
         /\ e.floorok /\ IsRatFloor(a, b, e.floor)
         /\ e.ceilok /\ IsRatCeil(a, b, e.ceil)
         /\ e.isint <=> a % b = 0
         /\ e.zero <=> a = 0
         /\ e.one <=> a = b
         /\ a # 0 => (e.isneg <=> a < 0)
         /\ e.pos <=> a > 0
         /\ e.prime <=> (a % b = 0 /\ IsPrime(a \div b))
         /\ Opt(e.tointok, e.toint, a % b = 0, a \div b)
         /\ Opt(e.tonatok, e.tonat, a % b = 0 /\ a >= 0, a \div b)
         /\ e.bigd > 0 /\ RatEq(e.bign, e.bigd, a, b)
         /\ e.frombigok /\ e.frombigd > 0 /\ RatEq(e.frombign, e.frombigd, a, b)
    [] e.a = "Q.bin" ->
         LET a == e.a_
             b == e.b
             c == e.c
             d == e.d IN
         /\ e.addd > 0 /\ RatEq(e.addn, e.addd, a * d + c * b, b * d)
         /\ e.subd > 0 /\ RatEq(e.subn, e.subd, a * d - c * b, b * d)
         /\ e.muld > 0 /\ RatEq(e.muln, e.muld, a * c, b * d)
         /\ e.divok <=> c # 0
         /\ e.divok => e.divd > 0 /\ RatEq(e.divn, e.divd, Sgn(c) * a * d, b * Abs(c))
         /\ e.eq <=> RatEq(a, b, c, d)
         /\ e.le <=> RatLe(a, b, c, d)
    [] OTHER -> FALSE

---------------------------------------------------------------------------
CheckCRT(e) ==
  CASE e.a = "crt.pre" ->
         /\ e.ok <=> Coprime(e.p, e.q)
         /\ e.okx <=> Coprime(e.p, e.q)
         /\ e.oke <=> Coprime(e.p, e.q)
         /\ e.ok /\ e.p > 1 => IsInverse(e.q, e.qinv, e.p) /\ IsInverse(e.q, e.qinve, e.p)
         /\ e.mx = e.p * e.q
    [] e.a = "crt.rec" ->
         \* the unique residue below p*q (when the q-residue is reduced; otherwise a representative, see Params.Recombine)
         \* with an unreduced q-residue the representative in [mq, mq + p*q) is returned (m = mq + q*h, h < p)
         LET IsRec(r) == /\ r % e.p = e.mp % e.p /\ r % e.q = e.mq % e.q /\ e.mq <= r /\ r < e.mq + e.p * e.q
                         /\ e.mq < e.q => r = CRT(e.mp, e.mq, e.p, e.q) IN
         /\ IsRec(e.r1) /\ IsRec(e.r2) /\ IsRec(e.r3) /\ e.ok2
    [] e.a = "crt.dec" ->
         /\ e.dp = e.m % e.p /\ e.sp = e.dp /\ e.pp = e.dp
         /\ e.dq = e.m % e.q /\ e.sq = e.dq /\ e.pq = e.dq
    [] e.a = "crt.multipre" -> e.ok <=> (Len(e.fs) >= 2 /\ PairwiseCoprime(e.fs) /\ \A i \in 1..Len(e.fs) : e.fs[i] > 1)
    [] e.a = "crt.multi" ->
         /\ e.okp /\ IsCRTMulti(e.p, e.rs, e.fs)
         /\ e.oks /\ e.okg
         \* Garner recombination returns the representative below the product when the first residue is reduced
         /\ e.rs[1] < e.fs[1] => IsCRTMulti(e.s, e.rs, e.fs)
         /\ (\A i \in 1..Len(e.fs) : e.s % e.fs[i] = e.rs[i] % e.fs[i])
         /\ e.g = (IF Len(e.fs) <= 4 THEN e.s ELSE e.p)
         /\ Len(e.dec) = Len(e.fs) /\ \A i \in 1..Len(e.fs) : e.dec[i] = e.m % e.fs[i]
    [] e.a = "crt.multibad" -> ~e.ok
    [] OTHER -> FALSE

---------------------------------------------------------------------------
OddPrime(p) == IsPrime(p) /\ p > 2
CheckArith(e) ==
  CASE e.a = "ar.new" ->
         CASE e.kind \in {"simple", "simplelift", "opflift"} -> e.ok
           [] e.kind \in {"opf", "opsf"} -> e.ok <=> (OddPrime(e.p) /\ OddPrime(e.q) /\ e.p # e.q)
           [] e.kind = "ops" -> e.ok <=> OddPrime(e.p)
           [] OTHER -> FALSE
    [] e.a = "ar.new.panic" -> e.p = 1 \/ e.q = 1                          \* phi = 0: the constructor dereferences a nil modulus instead of answering false
    [] e.a = "ar.un" ->
         /\ e.mod = e.m
         /\ e.m > 1 => (e.invok <=> HasInverse(e.x, e.m)) /\ (e.invok => IsInverse(e.x, e.inv, e.m))
    [] e.a = "ar.bin" ->
         /\ e.mul = MulMod(e.x, e.y, e.m)
         /\ e.m > 1 /\ e.kind # "simple" => (e.divok <=> HasInverse(e.y, e.m))
         /\ e.m > 1 /\ e.kind = "simple" => (e.divok <=> DivOK(e.x, e.y, e.m))
         /\ e.m > 1 /\ e.divok => DivSound(e.x, e.y, e.m, e.div)
    [] e.a = "ar.exp" -> e.exp = PowMod(e.x, e.e, e.m) /\ e.exppos = e.exp
    [] e.a = "ar.expneg" -> ExpIDefined(e.x, e.e, e.m) => e.r = ExpI(e.x, e.e, e.m)
    [] e.a = "ar.expneg.panic" -> ~ExpIDefined(e.x, e.e, e.m)
    [] e.a = "ar.multiexp" -> \A i \in 1..Len(e.bases) : e.rs[i] = PowMod(e.bases[i] % e.m, e.e, e.m)
    [] e.a = "ar.paillier" ->
         LET n == e.p * e.q
             n2 == n * n IN
         /\ e.expn = PowMod(e.x, n, n2) /\ e.expn2 = e.expn
         \* Fermat quotients L_p(x) = ((x^(p-1) mod p^2) - 1) / p
         /\ e.fq => /\ e.lp = ((PowMod(e.x, e.p - 1, e.p * e.p) - 1) % (e.p * e.p)) \div e.p
                    /\ e.lq = ((PowMod(e.x, e.q - 1, e.q * e.q) - 1) % (e.q * e.q)) \div e.q
    [] OTHER -> FALSE

---------------------------------------------------------------------------
CheckZn(e) ==
  CASE e.a = "zn.new" ->
         /\ e.ok <=> (IsPrime(e.p) /\ IsPrime(e.q) /\ BitLen(e.p) = BitLen(e.q) /\ e.p # e.q /\ e.p > 2 /\ e.q > 2)
         /\ e.pok <=> e.ok
    [] e.a = "zn.un" ->
         LET n == e.n
             v == e.x % n IN
         /\ e.unit <=> (e.x < n /\ Coprime(v, n))                          \* FromUint64 refuses unreduced values
         /\ e.unitu <=> Coprime(v, n)                                      \* FromNatCT reduces
         /\ e.unit => /\ e.v = v /\ IsInverse(v, e.inv, n)
                      /\ e.jac = Jacobi(v, n) /\ e.jacu = e.jac
                      /\ e.qr <=> IsQR(v, n)                              \* with the factorisation: a true residuosity test
                      /\ e.tfu <=> e.jac = 1                              \* without it only the Jacobi symbol is available
                      /\ e.sq = MulMod(v, v, n) /\ e.squ = e.sq
    [] e.a = "zn.bin" ->
         /\ e.mul = MulMod(e.x, e.y, e.n) /\ e.mulu = e.mul
         /\ e.div = MulMod(e.x, Inverse(e.y, e.n), e.n) /\ e.divu = e.div
    [] e.a = "zn.exp" -> e.r = ExpI(e.x, e.e, e.n) /\ e.ru = e.r /\ e.rb = ExpI(e.x, Sgn(e.e) * (Abs(e.e) % 4), e.n)
    [] e.a = "zn.pail" ->
         LET n == e.n
             n2 == n * n IN
         /\ e.repok /\ e.repuok /\ e.rep = (1 + e.x * n) % n2 /\ e.repu = e.rep
         /\ e.unit <=> Coprime(e.x, n)
         /\ e.unit => e.emb = e.x /\ e.nth = PowMod(e.x, n, n2) /\ e.nthu = e.nth
    [] OTHER -> FALSE

---------------------------------------------------------------------------
AllTrue(s) == \A i \in 1..Len(s) : s[i]
CheckPrimes(e) ==
  CASE e.a = "jacobi" -> (e.ok <=> e.y % 2 = 1) /\ (e.ok => e.j = Jacobi(e.x, e.y))
    [] e.a \in {"pr.prime", "pr.blum", "pr.safe"} ->
         LET minbits == IF e.a = "pr.prime" THEN 2 ELSE 16 IN
         /\ e.ok <=> e.bits >= minbits
         /\ e.ok => /\ Len(e.bl) = 1 /\ e.bl[1] = e.bits /\ e.prime[1]
                    /\ e.small => IsPrime(e.v[1]) /\ BitLen(e.v[1]) = e.bits
                    /\ e.a = "pr.blum" => e.mod4[1] = 3 /\ (e.small => e.v[1] % 4 = 3)
                    /\ e.a = "pr.safe" => e.halfprime[1] /\ (e.small => IsPrime((e.v[1] - 1) \div 2))
    [] e.a \in {"pr.pair", "pr.blumpair", "pr.safepair"} ->
         /\ e.ok
         /\ Len(e.bl) = 2 /\ e.bl[1] * 2 = e.bits /\ e.bl[2] * 2 = e.bits /\ AllTrue(e.prime)
         /\ e.nbl = e.bits /\ e.distinct
         /\ e.small => IsPrime(e.v[1]) /\ IsPrime(e.v[2]) /\ e.v[1] # e.v[2]
         /\ e.a = "pr.blumpair" => e.mod4 = <<3, 3>>
         /\ e.a = "pr.safepair" => AllTrue(e.halfprime)
    [] e.a = "pr.pairodd" -> ~e.ok
    [] e.a = "pr.pairsmall" -> ~e.ok
    [] e.a = "pr.mrchecks" ->
         e.n = (IF e.bits < 64 THEN 34 ELSE IF e.bits < 128 THEN 34 ELSE IF e.bits < 256 THEN 24 ELSE IF e.bits < 512 THEN 10
                ELSE IF e.bits < 1024 THEN 5 ELSE IF e.bits < 2048 THEN 3 ELSE IF e.bits < 4096 THEN 2 ELSE 1)
    [] OTHER -> FALSE

---------------------------------------------------------------------------
(* multi-limb window *)
CheckWide(e) ==
  CASE e.a = "w.bin" ->
         LET u == e.u
             v == e.v IN
         /\ WEq(e.add, WAdd(u, v))
         /\ e.hassub => WEq(e.sub, WSub(u, v))
         /\ e.lt <=> WLess(u, v)
         /\ e.eq <=> WEq(u, v)
         /\ e.gt <=> WLess(v, u)
         /\ e.divok <=> ~WEq(v, WLit(0))
         /\ e.divvtok <=> e.divok
         \* u = q*v + r with 0 <= r < v, decided coefficient-wise on k*2^64 + s (q small)
         /\ e.divok /\ e.q.k = 0 /\ e.q.s >= 0 /\ e.q.s < 65536 /\ IsW(e.r) =>
              /\ WEq(u, WAdd(WScale(e.q.s, v), e.r)) /\ WIsNat(e.r) /\ WLess(e.r, v)
              /\ WEq(e.q2, e.q) /\ WEq(e.r2, e.r)
         \* (a quotient or remainder outside the window is not decided here)
         /\ e.divok /\ v.k = 0 /\ v.s <= 46340 /\ IsW(e.r) => e.r.k = 0 /\ e.r.s = WMod(u, v.s) /\ WEq(e.r2, e.r)
         /\ e.hasgcd => e.gcd = GCD(WMod(u, v.s), v.s)
    [] e.a = "w.scale" -> WEq(e.r, WScale(e.c, e.u))
    [] e.a = "w.mod" ->
         LET m == e.m
             x == WMod(e.u, m)
             y == WMod(e.v, m) IN
         /\ e.red = x /\ e.neg = (0 - x) % m /\ e.redneg = (0 - x) % m /\ e.sq = MulMod(x, x, m)
         /\ m > 1 => (e.invok <=> HasInverse(x, m)) /\ (e.invok => IsInverse(x, e.inv, m))
         /\ e.unit <=> IsUnit(x, m)
         /\ e.inr <=> (e.u.k = 0 /\ e.u.s < m)
         /\ e.add = (x + y) % m /\ e.sub = (x - y) % m /\ e.mul = MulMod(x, y, m)
    [] e.a = "w.un" ->
         /\ e.tl = (IF e.u.k = 0 THEN BitLen(e.u.s) ELSE IF e.u.s >= 0 THEN 64 + BitLen(e.u.k) ELSE 64 + BitLen(e.u.k - 1))
         /\ e.odd <=> e.u.s % 2 = 1
         /\ e.zero <=> WEq(e.u, WLit(0))
         /\ WEq(e.back, e.u) /\ WEq(e.lift, e.u)
    [] OTHER -> FALSE

---------------------------------------------------------------------------
Check(e) ==
  CASE e.a = "hdr" -> TRUE
    [] e.f = "n" -> CheckNat(e)
    [] e.f = "i" -> CheckInt(e)
    [] e.f = "m" -> CheckMod(e)
    [] e.f \in {"N", "Z", "P", "U", "Q"} -> CheckNum(e)
    [] e.f = "crt" -> CheckCRT(e)
    [] e.f = "ar" -> CheckArith(e)
    [] e.f = "zn" -> CheckZn(e)
    [] e.f \in {"jacobi", "pr"} -> CheckPrimes(e)
    [] e.f = "w" -> CheckWide(e)
    [] OTHER -> FALSE

Init == l = 1
Next == l <= Len(Trace) /\ l' = l + 1
\* scan mode (no invariant): one pass that prints every rejected line instead of stopping at the first
NextScan == l <= Len(Trace) /\ l' = l + 1 /\ (Check(Trace[l]) \/ PrintT(<<"REJECTED", l>>))
Spec == Init /\ [][Next]_vars

CaseOK == l <= Len(Trace) => Check(Trace[l])
=============================================================================

CONSTANTS
  Q = 11
  NM = 2
  NEG = FALSE
  MaxAlter = 1
  Family = "schnorr"
INIT Init
NEXT Next
INVARIANTS TypeA HonestAccepted RefusedRejected SOnlyRejected AlteredOnlyByOracleHit AcceptIffSolves MalformedRejected
CHECK_DEADLOCK FALSE

--------------------------- MODULE SigVerifyTrace ---------------------------
(* Validates a log of real calls into pkg/signatures (driver harness/cmd/sigverify) against SigVerify:    *)
(* toy generic Schnorr exactly (every logged number is a scalar of Z_Q or a discrete logarithm), the      *)
(* production schemes by decision table plus the independent-oracle booleans the driver evaluated.        *)
(* Function-shaped: `l` walks the lines, CaseOK must hold for every line.                                 *)
EXTENDS SigVerify, Json

Trace == ndJsonDeserialize("trace.ndjson")
Hdr == Trace[1]

VARIABLE l
tvars == <<l>>

Has(e, f) == f \in DOMAIN e
HTab(t) == Hdr.H[t + 1]                       \* the harness's own SHA-256 evaluation of the challenge
TokOf(R, pk, m) == Tok(R, pk, m, Hdr.nm)
InF(v) == v \in F
All(s, P(_)) == \A i \in 1..Len(s) : P(s[i])

SchemeOfSuite(s) == CASE s \in {"bip340"} -> "bip340"
                      [] s \in {"mina-main", "mina-test", "mina-rand"} -> "mina"
                      [] s \in {"schnorr-k256-sha256", "schnorr-ed25519-sha512le", "schnorr-p256-sha3", "schnorr-pallas-sha256"} -> "schnorr"
                      [] s \in {"schnorr-k256-sha256-neg"} -> "schnorrneg"
BlsModeOf(s) == CASE s \in {"bls-short-basic", "bls-long-basic"} -> "basic"
                  [] s \in {"bls-short-aug", "bls-long-aug"} -> "aug"
                  [] s \in {"bls-short-pop", "bls-long-pop"} -> "pop"

ToyVerifyOK(e) ==
  /\ InF(e.R) /\ InF(e.s) /\ InF(e.pk) /\ e.m \in 0..(Hdr.nm - 1)
  /\ e.acc <=> Accepts(e.R, e.s, e.pk, HTab(TokOf(e.R, e.pk, e.m)), e.neg)

Check(e) ==
  CASE e.a = "hdr" -> e.q = Q
    (* ------------------------------ toy generic Schnorr, exact ------------------------------ *)
    [] e.a = "tnewpk" -> e.ok <=> e.pk # 0
    [] e.a = "tnewsig" -> e.ok <=> e.s # 0
    [] e.a = "tkeygen" -> e.ok /\ e.x = EffDraw(e.script) /\ e.x # 0 /\ e.pk = e.x
    [] e.a = "tsign" ->
         LET k == EffDraw(e.script)
             ch == HTab(TokOf(k, e.x, e.m))
             s == Resp(e.x, k, ch, e.neg)
         IN /\ e.ok <=> s # 0                             \* the signer refuses a signature its verifier rejects
            /\ e.ok => e.R = k /\ e.E = ch /\ e.s = s
    [] e.a = "tverify" -> ToyVerifyOK(e)
    [] e.a = "tpverify" ->                                \* partial-signature verifier: challenge key fixed, cached e trusted
         LET ch == IF e.E >= 0 THEN e.E ELSE HTab(TokOf(e.R, e.cpk, e.m))
         IN e.acc <=> Accepts(e.R, e.s, e.pk, ch, e.neg)
    [] e.a = "tbatch" ->
         e.acc <=> \A i \in 1..Len(e.items) :
                      LET it == e.items[i] IN Accepts(it.R, it.s, it.pk, HTab(TokOf(it.R, it.pk, it.m)), e.neg)
    (* ------------------------------ ECDSA ------------------------------ *)
    [] e.a = "esign" -> e.ok /\ e.selfv /\ e.recOK /\ e.orc /\ e.pkOK /\ (Has(e, "std") => e.std) /\ (e.det => e.same2)
    [] e.a = "everify" ->
         /\ e.alt \in EcdsaAlts
         /\ e.acc <=> EcdsaTable(e.alt, e.strict, e.lowS)
         /\ e.orc <=> EcdsaMathValid(e.alt)
         /\ Has(e, "std") => (e.std <=> e.orc)
         /\ e.alt.v # "absent" => /\ e.rec <=> EcdsaRecovers(e.alt)
                                  /\ e.rec <=> e.orcRec
         /\ e.acc <=> /\ e.orc
                      /\ e.alt.v # "absent" => e.orcRec
                      /\ e.strict => e.lowS
         /\ e.alt.s = "same" => e.lowS = e.origLow
         /\ e.alt.s = "neg" => e.lowS = ~e.origLow
    [] e.a = "enorm" ->
         /\ NormaliseOK(e.high, e.sRel, e.vRel, e.lowAfter, e.hasV)
         /\ e.accDefault /\ e.accStrict /\ e.orc
    [] e.a = "ebound" ->                                   \* device W: s = Half_n + off on the production curve (BoundaryWindow)
         /\ e.off \in -8..8
         /\ e.orc /\ e.accDefault /\ e.recOK              \* the constructed signature is a genuine one
         /\ e.isNorm <=> LowAt(e.off)
         /\ e.accStrict <=> LowAt(e.off)
         /\ e.nOff = NegAt(e.off, LowAt(e.off))            \* Normalise keeps a low s and negates a high one
         /\ e.nSameR /\ (IF LowAt(e.off) THEN e.nVsame ELSE e.nVflip)
         /\ e.nIsNorm /\ e.nAccDefault /\ e.nAccStrict /\ e.nOrc
    (* ------------------------------ Schnorr family ------------------------------ *)
    [] e.a = "ssign" -> e.ok /\ e.selfv /\ (Has(e, "orc") => e.orc) /\ (e.det => e.same2) /\ e.eqOK
    [] e.a = "sverify" ->
         /\ e.alt \in SchnorrAlts
         /\ e.acc <=> SchnorrTable(SchemeOfSuite(e.suite), e.alt)
         /\ Has(e, "orc") => (e.orc <=> e.acc)
    [] e.a = "sbatch" ->
         /\ All(e.items, LAMBDA a : a \in SchnorrAlts)
         /\ e.acc <=> All(e.items, LAMBDA a : SchnorrTable(SchemeOfSuite(e.suite), a))
    (* ------------------------------ BLS ------------------------------ *)
    [] e.a = "bsign" -> e.ok /\ e.selfv /\ e.orcEq /\ (BlsModeOf(e.suite) = "pop" => e.popEq)
    [] e.a = "bverify" ->
         /\ e.alt \in BlsAlts
         /\ e.acc <=> BlsTable(BlsModeOf(e.suite), e.alt)
         /\ Has(e, "orc") => (e.acc <=> e.orc /\ (BlsModeOf(e.suite) = "pop" => BlsPopValid(e.alt)))
    [] e.a = "bagg" ->
         /\ e.lab \in BlsLabels /\ BlsLabelOK(BlsModeOf(e.suite), e.n, e.lab)
         /\ e.acc <=> BlsAggTable(BlsModeOf(e.suite), e.n, e.same, e.lab)
         \* the forms the driver actually built decide the same thing
         /\ e.acc <=> BlsDerived(BlsModeOf(e.suite), [pks |-> e.pks, raw |-> e.raw, pms |-> e.pms, sig |-> e.sig,
                                                      tors |-> e.tors, popok |-> e.popok])
         /\ Has(e, "aggEq") => e.aggEq                     \* aggregate of honest signatures = sum [x_i] H(m_i)
    (* ------------------------------ constructors, vectors ------------------------------ *)
    [] e.a = "construct" -> e.what \in ConstructWhats /\ (e.ok <=> ConstructOK(e.what))
    [] e.a = "vector" -> e.got = e.expected /\ (Has(e, "orc") => e.orc = e.expected)
    [] OTHER -> FALSE

TInit == l = 1 /\ IdleA /\ row = NoRow
TNext == l <= Len(Trace) /\ l' = l + 1 /\ UNCHANGED vars

CaseOK == l <= Len(Trace) => Check(Trace[l])
=============================================================================

CONSTANTS
  Q = 7
  NM = 2
  NEG = FALSE
  MaxAlter = 2
  Family = "schnorr"
INIT Init
NEXT Next
INVARIANTS TypeA HonestAccepted RefusedRejected SOnlyRejected AlteredOnlyByOracleHit AcceptIffSolves MalformedRejected
CHECK_DEADLOCK FALSE

CONSTANTS
  Q = 11
  NM = 3
  NEG = FALSE
  MaxAlter = 1
  Family = "trace"
INIT TInit
NEXT TNext
INVARIANT CaseOK
CHECK_DEADLOCK FALSE

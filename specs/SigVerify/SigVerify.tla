------------------------------ MODULE SigVerify ------------------------------
(* C15  Single-party signatures verify exactly for the signed message and key.            *)
(*                                                                                        *)
(* (a) Generic Schnorr (pkg/signatures/schnorrlike + schnorrlike/schnorr) EXACTLY over    *)
(*     the toy group of prime order Q: every group element is its discrete logarithm,     *)
(*     the Fiat-Shamir hash is a lazily sampled random oracle (a free value per token).   *)
(*     State machine KeyGen / Sign / Alter / Verify, one action per API call.             *)
(* (b) The production schemes as decision tables: acceptance as a function of how the     *)
(*     presented (message, key, signature) relates to the signed one.  Every table is     *)
(*     cross-checked by TLC against an exact small model of the scheme's verification     *)
(*     equation (ECDSA, BIP-340, Mina and plain Schnorr over Z_Q with an abstract         *)
(*     x-coordinate / y-parity; BLS as bilinear forms over formal secrets): a table row   *)
(*     accepts  <=>  the row is an algebraic identity of the verification equation and    *)
(*     passes the explicit guards of the code.                                            *)
(* The pure operators are reused by SigVerifyTrace to judge logged calls of the real code.*)
EXTENDS FieldQ, TLC

CONSTANTS NM,         \* (a) number of distinct messages
          NEG,        \* (a) responseOperatorIsNegative of the generic variant: s = k - e x
          MaxAlter,   \* (a) alterations per behaviour
          Family      \* which machine a configuration runs: "schnorr" | "tables"

FS == F \ {0}                                   \* non-zero scalars = logs of non-identity elements
Half == (Q - 1) \div 2

(****************************************************************************************)
(* (a) generic Schnorr in discrete logs                                                 *)
(****************************************************************************************)
Tok(R, pk, m, nm) == (R * Q + pk) * nm + m       \* injective name of the hash input (R || P || m)

RECURSIVE EffDraw(_)                             \* algebrautils.RandomNonIdentity: zero draws are retried
EffDraw(script) == IF Len(script) = 0 THEN 0
                   ELSE IF script[1] # 0 THEN script[1] ELSE EffDraw(Tail(script))

Resp(x, k, e, neg) == IF neg THEN Sub(k, Mul(e, x)) ELSE Add(k, Mul(e, x))     \* ComputeGenericResponse
Rhs(R, pk, e, neg) == IF neg THEN Sub(R, Mul(e, pk)) ELSE Add(R, Mul(e, pk))   \* log of R * pk^(+-e)
WellFormed(R, s, pk) == pk # 0 /\ s # 0 /\ R # 0                               \* the verifier's range checks
Accepts(R, s, pk, e, neg) == WellFormed(R, s, pk) /\ s = Rhs(R, pk, e, neg)    \* g^s = R * pk^(+-e)
\* the same decision by division: the unique challenge value that makes the triple verify
SolveE(R, s, pk, neg) == IF neg THEN Div(Sub(R, s), pk) ELSE Div(Sub(s, R), pk)

VARIABLES ph,      \* "init" | "keyed" | "signed" | "signfail" | "done" | "row"
          x,       \* secret key (0 = none)
          hon,     \* the signature as produced by Sign: [R, s, E, pk, m]
          pres,    \* the triple presented to Verify (after alterations)
          H,       \* random oracle so far: set of <<token, value>>
          out,     \* "none" | "accept" | "reject"
          laste,   \* oracle value used by the last Verify
          nalt,    \* alterations done
          row      \* (b) the decision-table row under examination
vars == <<ph, x, hon, pres, H, out, laste, nalt, row>>

NoSig == [R |-> 0, s |-> 0, E |-> 0, pk |-> 0, m |-> 0]
NoRow == [scheme |-> "none"]

Oracle(t, e) == /\ \A p \in H : p[1] = t => p[2] = e
                /\ H' = H \cup {<<t, e>>}

InitA == /\ ph = "init" /\ x = 0 /\ hon = NoSig /\ pres = NoSig /\ H = {} /\ out = "none"
         /\ laste = 0 /\ nalt = 0 /\ row = NoRow

KeyGen(xx) == /\ ph = "init" /\ ph' = "keyed" /\ x' = xx
              /\ UNCHANGED <<hon, pres, H, out, laste, nalt, row>>

\* Sign draws k, queries the oracle, answers s = k +- e x and runs its own Verify: s = 0 is refused.
Sign(m, k) == /\ ph = "keyed"
              /\ \E e \in F :
                   /\ Oracle(Tok(k, x, m, NM), e)
                   /\ LET s == Resp(x, k, e, NEG)
                          sg == [R |-> k, s |-> s, E |-> e, pk |-> x, m |-> m]
                      IN /\ hon' = sg /\ pres' = sg
                         /\ ph' = IF s = 0 THEN "signfail" ELSE "signed"
              /\ UNCHANGED <<x, out, laste, nalt, row>>

Dom(c) == IF c = "m" THEN 0..(NM - 1) ELSE F
Alter(c, v) == /\ ph = "signed" /\ nalt < MaxAlter /\ v # pres[c]
               /\ pres' = [pres EXCEPT ![c] = v] /\ nalt' = nalt + 1
               /\ UNCHANGED <<ph, x, hon, H, out, laste, row>>

\* Verify recomputes the challenge from (R, P, m); the cached pres.E is not consulted.
Verify == /\ ph \in {"signed", "signfail"}
          /\ \E e \in F :
               /\ Oracle(Tok(pres.R, pres.pk, pres.m, NM), e)
               /\ laste' = e
               /\ out' = IF Accepts(pres.R, pres.s, pres.pk, e, NEG) THEN "accept" ELSE "reject"
          /\ ph' = "done"
          /\ UNCHANGED <<x, hon, pres, nalt, row>>

NextA == \/ \E xx \in FS : KeyGen(xx)
         \/ \E m \in 0..(NM - 1), k \in FS : Sign(m, k)
         \/ \E c \in {"R", "s", "pk", "m", "E"} : \E v \in Dom(c) : Alter(c, v)
         \/ Verify

SameDecoded == pres.R = hon.R /\ pres.s = hon.s /\ pres.pk = hon.pk /\ pres.m = hon.m
SameToken == pres.R = hon.R /\ pres.pk = hon.pk /\ pres.m = hon.m

TypeA == /\ ph \in {"init", "keyed", "signed", "signfail", "done"}
         /\ x \in F /\ out \in {"none", "accept", "reject"} /\ laste \in F /\ nalt \in 0..MaxAlter
         /\ \A p \in H : \A r \in H : p[1] = r[1] => p[2] = r[2]            \* the oracle is a function
\* the triple exactly as signed is accepted (whatever the cached challenge field says)
HonestAccepted == ph = "done" /\ hon.s # 0 /\ SameDecoded => out = "accept"
\* a refused signature (s = 0) is never accepted, altered or not in R, pk, m
RefusedRejected == ph = "done" /\ pres.s = 0 => out = "reject"
\* changing only s always rejects; changing R, P or m re-draws the oracle and accepts only on a hit
SOnlyRejected == ph = "done" /\ SameToken /\ pres.s # hon.s => out = "reject"
AlteredOnlyByOracleHit == ph = "done" /\ ~SameDecoded /\ out = "accept" =>
                             /\ ~SameToken
                             /\ laste = SolveE(pres.R, pres.s, pres.pk, NEG)
AcceptIffSolves == ph = "done" /\ WellFormed(pres.R, pres.s, pres.pk) =>
                      (out = "accept" <=> laste = SolveE(pres.R, pres.s, pres.pk, NEG))
MalformedRejected == ph = "done" /\ ~WellFormed(pres.R, pres.s, pres.pk) => out = "reject"

(****************************************************************************************)
(* abstract coordinates on the toy group: x(P) = x(-P), the two have different y parity *)
(****************************************************************************************)
X(k) == IF k <= Half THEN k ELSE Q - k
Par(k) == IF k <= Half THEN 0 ELSE 1
Even(k) == IF Par(k) = 0 THEN k ELSE Q - k          \* lift_x(x(P))

(****************************************************************************************)
(* (b1) ECDSA                                                                           *)
(****************************************************************************************)
EcdsaAlts == [msg : {"same", "flip"}, key : {"same", "neg", "other"}, r : {"same", "neg", "other"},
              s : {"same", "neg", "other"}, v : {"absent", "right", "flip", "plus2", "flipplus2"}]

\* The decision table. lowS: the presented s is at most n/2.
EcdsaTable(a, strict, lowS) ==
  /\ a.msg = "same" /\ a.key = "same" /\ a.r = "same"
  /\ \/ a.s = "same" /\ a.v \in {"absent", "right"}
     \/ a.s = "neg" /\ a.v \in {"absent", "flip"}          \* the documented equivalent form
  /\ strict => lowS
EcdsaMathValid(a) == a.msg = "same" /\ a.key = "same" /\ a.r = "same" /\ a.s \in {"same", "neg"}
\* does public-key recovery return the presented key
EcdsaRecovers(a) == /\ a.msg = "same" /\ a.key = "same" /\ a.r = "same"
                    /\ \/ a.s = "same" /\ a.v = "right"
                       \/ a.s = "neg" /\ a.v = "flip"
\* Normalise: [highBefore, sRel, vRel, lowAfter]
NormaliseOK(high, sRel, vRel, lowAfter, hasV) ==
  /\ lowAfter
  /\ IF high THEN sRel = "neg" /\ (hasV => vRel = "flip") ELSE sRel = "same" /\ vRel = "same"

\* exact model: r = x(kG) as a scalar, s = (z + r d)/k, recovery id = y parity of kG
ESignS(d, k, z) == Div(Add(z, Mul(X(k), d)), k)
LowS(s) == s <= Half
\* device W (small window around the middle of the range): for s = Half + off, lowness and negation as functions of off alone;
\* the ASSUME makes TLC check that these agree with LowS / Neg for every s of the model field (so the same two operators decide the
\* production-curve lines of SigVerifyTrace, where only off is logged)
LowAt(off) == off <= 0
NegAt(off, low) == IF low THEN off ELSE 1 - off
ASSUME BoundaryWindow == \A off \in (1 - Half)..Half :
                            LET s == Half + off IN
                              /\ s \in FS
                              /\ LowS(s) <=> LowAt(off)
                              /\ (IF LowS(s) THEN s ELSE Neg(s)) = Half + NegAt(off, LowAt(off))
                              /\ LowS(IF LowS(s) THEN s ELSE Neg(s))
EVerifyEq(z, r, s, D) == /\ r # 0 /\ s # 0 /\ D # 0
                         /\ LET w == Inv(s)
                                P == Add(Mul(z, w), Mul(Mul(r, w), D))
                            IN P # 0 /\ X(P) = r
NoKey == Q                                                    \* "recovery failed"
ERecover(z, r, s, v) == IF v >= 2 \/ r = 0 \/ r > Half THEN NoKey     \* no point with x = r (+ n)
                        ELSE LET Rv == IF v = 0 THEN r ELSE Q - r
                                 D == Div(Sub(Mul(s, Rv), z), r)
                             IN IF D = 0 THEN NoKey ELSE D
EAccept(z, r, s, D, v, strict) == /\ strict => LowS(s)
                                  /\ v # -1 => ERecover(z, r, s, v) = D
                                  /\ EVerifyEq(z, r, s, D)
EVals(c, honest) == CASE c = "same" -> {honest}
                      [] c = "neg" -> {Neg(honest)} \ {honest}
                      [] c = "other" -> FS \ {honest, Neg(honest)}
EMsg(c, z) == IF c = "same" THEN {z} ELSE F \ {z}
EV(c, v) == CASE c = "absent" -> -1 [] c = "right" -> v [] c = "flip" -> 1 - v
              [] c = "plus2" -> v + 2 [] c = "flipplus2" -> 3 - v
\* the row is an identity of the exact model among the presented signatures with the given lowS
EcdsaIdentity(a, strict, low) ==
  \A d \in FS, k \in FS, z \in F :
    LET r == X(k)
        s == ESignS(d, k, z)
    IN s # 0 =>
         \A zz \in EMsg(a.msg, z), DD \in EVals(a.key, d), rr \in EVals(a.r, r), ss \in EVals(a.s, s) :
            LowS(ss) = low => EAccept(zz, rr, ss, DD, EV(a.v, Par(k)), strict)
EcdsaRowOK == row.scheme = "ecdsa" =>
                 (EcdsaTable(row.alt, row.strict, row.low) <=> EcdsaIdentity(row.alt, row.strict, row.low))
\* consequences of the table worth stating on their own
EcdsaOnlyException == row.scheme = "ecdsa" /\ EcdsaTable(row.alt, row.strict, row.low) =>
                         \/ row.alt = [msg |-> "same", key |-> "same", r |-> "same", s |-> "same", v |-> row.alt.v]
                         \/ row.alt.s = "neg" /\ row.alt.v \in {"absent", "flip"} /\ (row.strict => row.low)
EcdsaRecoverOK == row.scheme = "ecdsa" /\ row.alt.v # "absent" /\ ~row.strict =>
                    (EcdsaRecovers(row.alt) <=>
                       \A d \in FS, k \in FS, z \in F :
                         LET s == ESignS(d, k, z) IN s # 0 =>
                           \A zz \in EMsg(row.alt.msg, z), DD \in EVals(row.alt.key, d),
                              rr \in EVals(row.alt.r, X(k)), ss \in EVals(row.alt.s, s) :
                                ERecover(zz, rr, ss, EV(row.alt.v, Par(k))) = DD)

(****************************************************************************************)
(* (b2) the Schnorr family: BIP-340, Mina, plain Schnorr                                *)
(****************************************************************************************)
\* chalRx / chalPx: the challenge binds only x(R) / x(P); bip: lift_x(P), even-y and x-only comparison of R;
\* adjK / adjD: the signer negates nonce / key to make R / P even; neg: s = k - e d
ParamsOf(s) ==
  CASE s = "bip340" -> [chalRx |-> TRUE, chalPx |-> TRUE, bip |-> TRUE, adjK |-> TRUE, adjD |-> TRUE, neg |-> FALSE]
    [] s = "mina" -> [chalRx |-> TRUE, chalPx |-> FALSE, bip |-> FALSE, adjK |-> TRUE, adjD |-> FALSE, neg |-> FALSE]
    [] s = "schnorr" -> [chalRx |-> FALSE, chalPx |-> FALSE, bip |-> FALSE, adjK |-> FALSE, adjD |-> FALSE, neg |-> FALSE]
    [] s = "schnorrneg" -> [chalRx |-> FALSE, chalPx |-> FALSE, bip |-> FALSE, adjK |-> FALSE, adjD |-> FALSE, neg |-> TRUE]
SchnorrSchemes == {"bip340", "mina", "schnorr", "schnorrneg"}
SchnorrAlts == [msg : {"same", "flip"}, key : {"same", "neg", "other", "identity"},
                R : {"same", "neg", "other", "identity"}, s : {"same", "neg", "other", "zero", "nonceneg"}]

\* The decision table. The cached challenge field of the signature is not a column: no verifier reads it.
SchnorrTable(sch, a) ==
  /\ a.msg = "same"
  /\ CASE sch = "bip340" -> a.key \in {"same", "neg"} /\ a.R \in {"same", "neg"} /\ a.s = "same"   \* x-only key and nonce
       [] sch = "mina" -> /\ a.key = "same"
                          /\ \/ a.R = "same" /\ a.s = "same"
                             \/ a.R = "neg" /\ a.s = "nonceneg"      \* the signer's own (-k) signature: same x(R), same challenge
       [] OTHER -> a.key = "same" /\ a.R = "same" /\ a.s = "same"

ChalKey(p, R, P, m) == <<IF p.chalRx THEN X(R) ELSE R, IF p.chalPx THEN X(P) ELSE P, m>>
SVerify(p, R, s, P, e) ==
  IF p.bip THEN /\ P # 0 /\ R # 0 /\ s # 0
                /\ LET Rc == Sub(s, Mul(e, Even(P))) IN Rc # 0 /\ Par(Rc) = 0 /\ X(Rc) = X(R)
  ELSE Accepts(R, s, P, e, p.neg)
SKeyVals(c, P) == CASE c = "same" -> {P} [] c = "neg" -> {Neg(P)} [] c = "identity" -> {0}
                    [] c = "other" -> FS \ {P, Neg(P)}
SSVals(c, s, k) == CASE c = "same" -> {s} [] c = "neg" -> {Neg(s)} \ {s} [] c = "zero" -> {0}
                     [] c = "nonceneg" -> {Sub(s, Add(k, k))} \ {s, Neg(s), 0}     \* (a zero response is the "zero" class)
                     [] c = "other" -> FS \ {s, Neg(s), Sub(s, Add(k, k))}
SMsgVals(c, m) == IF c = "same" THEN {m} ELSE {1 - m}
SchnorrIdentity(sch, a) ==
  LET p == ParamsOf(sch) IN
  \A d0 \in FS, k0 \in FS, e \in F, ef \in F :
    LET P == d0
        d == IF p.adjD THEN Even(d0) ELSE d0
        k == IF p.adjK THEN Even(k0) ELSE k0
        s == Resp(d, k, e, p.neg)
    IN s # 0 =>
         \A RR \in SKeyVals(a.R, k), ss \in SSVals(a.s, s, k), PP \in SKeyVals(a.key, P), mm \in SMsgVals(a.msg, 0) :
            SVerify(p, RR, ss, PP, IF ChalKey(p, RR, PP, mm) = ChalKey(p, k, P, 0) THEN e ELSE ef)
SchnorrRowOK == row.scheme \in SchnorrSchemes =>
                   (SchnorrTable(row.scheme, row.alt) <=> SchnorrIdentity(row.scheme, row.alt))

(****************************************************************************************)
(* (b3) BLS: public keys and signatures as forms over formal secrets                    *)
(****************************************************************************************)
\* Key symbols 1..NK. A public key is its coefficient vector over the symbols; a signature is a sequence of
\* terms [key |-> vector, pm |-> processed-message name, c |-> integer]: the sum of c * (key . secrets) * H(pm).
NK == 4
ZeroVec == [kk \in 1..NK |-> 0]
Unit(i) == [kk \in 1..NK |-> IF kk = i THEN 1 ELSE 0]
VSub(u, v) == [kk \in 1..NK |-> u[kk] - v[kk]]
RECURSIVE SumTo(_, _)
SumTo(f, n) == IF n = 0 THEN 0 ELSE f[n] + SumTo(f, n - 1)
\* sum_i e(pk_i, H(pm_i)) = e(G, sig) coefficient by coefficient (formal secrets and hash points are independent)
BilinearEq(pks, pms, sig) ==
  \A kk \in 1..NK : \A mu \in {pms[i] : i \in 1..Len(pms)} \cup {sig[t].pm : t \in 1..Len(sig)} :
     SumTo([i \in 1..Len(pks) |-> IF pms[i] = mu THEN pks[i][kk] ELSE 0], Len(pks))
       = SumTo([t \in 1..Len(sig) |-> IF sig[t].pm = mu THEN sig[t].c * sig[t].key[kk] ELSE 0], Len(sig))
SigIsIdentity(sig) == \A kk \in 1..NK : \A mu \in {sig[t].pm : t \in 1..Len(sig)} :
     SumTo([t \in 1..Len(sig) |-> IF sig[t].pm = mu THEN sig[t].c * sig[t].key[kk] ELSE 0], Len(sig)) = 0
Pairwise(s) == \A i, j \in 1..Len(s) : i # j => s[i] # s[j]
\* what coreVerify / coreAggregateVerify / AggregateVerify check, on forms.
\* c = [pks, pms, raw (message names as given), sig, tors (per key), popok (per key)]
BlsDerived(mode, c) ==
  /\ Len(c.pks) >= 1 /\ Len(c.pks) = Len(c.raw)
  /\ \A i \in 1..Len(c.pks) : c.pks[i] # ZeroVec /\ ~c.tors[i]
  /\ ~SigIsIdentity(c.sig)
  /\ mode = "basic" => Pairwise(c.raw)
  /\ mode = "pop" => Len(c.popok) = Len(c.pks) /\ \A i \in 1..Len(c.pks) : c.popok[i]
  /\ BilinearEq(c.pks, c.pms, c.sig)

BlsModes == {"basic", "aug", "pop"}
BlsLabels == {"none", "msgflip", "missing_sig", "missing_pk", "foreign_sig", "foreign_pk", "identity_pk",
              "torsion_pk", "neg_pk", "swap", "dup_sig", "sig_neg", "pop_other", "pop_wrongdst", "pop_missing", "rogue",
              "identity_pk_missing_sig"}      \* the one case where only the identity check stands between the forms and acceptance
\* labels that need at least two signers / only exist with proofs of possession
BlsLabelOK(mode, n, lab) == /\ lab \in {"missing_sig", "missing_pk", "swap", "identity_pk_missing_sig"} => n >= 2
                            /\ lab \in {"pop_other", "pop_wrongdst", "pop_missing"} => mode = "pop"
                            /\ lab = "rogue" => n = 2
\* The decision table for AggregateVerify.  same: all signers sign one message.
BlsAggTable(mode, n, same, lab) ==
  /\ \/ lab = "none"
     \/ lab = "swap" /\ same                         \* swapping equal messages changes nothing
  /\ ~(mode = "basic" /\ same /\ n > 1)              \* the basic scheme demands pairwise distinct messages
\* the forms of a labelled case: signers 1..n, symbol 4 is the foreign / attacking key, i the touched signer
Msg(same, i) == IF same THEN 1 ELSE i
PM(mode, msg, keyvec) == IF mode = "aug" THEN <<msg, keyvec>> ELSE <<msg, ZeroVec>>
Without(s, i) == [j \in 1..(Len(s) - 1) |-> IF j < i THEN s[j] ELSE s[j + 1]]
BlsCase(mode, n, same, lab, i) ==
  LET j == (i % n) + 1
      hp == [t \in 1..n |-> Unit(t)]
      hr == [t \in 1..n |-> Msg(same, t)]
      hs == [t \in 1..n |-> [key |-> Unit(t), pm |-> PM(mode, hr[t], Unit(t)), c |-> 1]]
      pk0 == CASE lab = "foreign_pk" -> [hp EXCEPT ![i] = Unit(4)]
               [] lab \in {"identity_pk", "identity_pk_missing_sig"} -> [hp EXCEPT ![i] = ZeroVec]
               [] lab = "neg_pk" -> [hp EXCEPT ![i] = VSub(ZeroVec, Unit(i))]
               [] lab = "missing_pk" -> Without(hp, i)
               [] lab = "rogue" -> <<Unit(1), VSub(Unit(4), Unit(1))>>
               [] OTHER -> hp
      raw == CASE lab = "msgflip" -> [hr EXCEPT ![i] = 9]
               [] lab = "swap" -> [hr EXCEPT ![i] = hr[j], ![j] = hr[i]]
               [] lab = "missing_pk" -> Without(hr, i)
               [] OTHER -> hr
      sig == CASE lab \in {"missing_sig", "identity_pk_missing_sig"} -> Without(hs, i)
               [] lab = "foreign_sig" -> [hs EXCEPT ![i] = [key |-> Unit(4), pm |-> PM(mode, hr[i], Unit(4)), c |-> 1]]
               [] lab = "dup_sig" -> Append(hs, hs[i])
               [] lab = "sig_neg" -> [t \in 1..n |-> [hs[t] EXCEPT !.c = -1]]
               [] lab = "rogue" -> <<[key |-> Unit(4), pm |-> PM(mode, hr[1], VSub(Unit(4), Unit(1))), c |-> 1]>>
               [] OTHER -> hs
      np == Len(pk0)
  IN [pks |-> pk0, raw |-> raw,
      pms |-> [t \in 1..np |-> PM(mode, raw[t], pk0[t])],
      sig |-> sig,
      tors |-> [t \in 1..np |-> lab = "torsion_pk" /\ t = i],
      popok |-> IF lab = "pop_missing" THEN [t \in 1..(np - 1) |-> TRUE]
                ELSE [t \in 1..np |-> ~(lab \in {"pop_other", "pop_wrongdst"} /\ t = i) /\ ~(lab = "rogue" /\ t = 2)]]
BlsRowOK == row.scheme = "bls" =>
              (BlsAggTable(row.mode, row.n, row.same, row.lab)
                 <=> BlsDerived(row.mode, BlsCase(row.mode, row.n, row.same, row.lab, row.i)))
\* single signatures
BlsAlts == [msg : {"same", "flip"}, key : {"same", "neg", "other", "identity", "torsion"},
            sig : {"same", "neg", "other"}, pop : {"same", "other", "wrongdst", "absent"}]
\* The proof of possession travelling with the signature is valid for the presented key only in this case
BlsPopValid(a) == a.pop = "same" /\ a.key = "same"
BlsTable(mode, a) == /\ a.msg = "same"
                     /\ \/ a.key = "same" /\ a.sig = "same"
                        \/ mode = "basic" /\ a.key = "neg" /\ a.sig = "neg"   \* (-P, -sigma): the signature of the key -x, a different valid pair
                     /\ mode = "pop" => BlsPopValid(a)
BlsSingleCase(mode, a) ==
  LET kv == CASE a.key = "same" -> Unit(1) [] a.key = "neg" -> VSub(ZeroVec, Unit(1)) [] a.key = "other" -> Unit(4)
              [] a.key = "identity" -> ZeroVec [] a.key = "torsion" -> Unit(1)
      raw == IF a.msg = "same" THEN 1 ELSE 9
      tm == CASE a.sig = "same" -> [key |-> Unit(1), pm |-> PM(mode, 1, Unit(1)), c |-> 1]
              [] a.sig = "neg" -> [key |-> Unit(1), pm |-> PM(mode, 1, Unit(1)), c |-> -1]
              [] a.sig = "other" -> [key |-> Unit(3), pm |-> PM(mode, 1, Unit(3)), c |-> 1]
  IN [pks |-> <<kv>>, raw |-> <<raw>>, pms |-> <<PM(mode, raw, kv)>>, sig |-> <<tm>>,
      tors |-> <<a.key = "torsion">>, popok |-> <<BlsPopValid(a)>>]
BlsSingleRowOK == row.scheme = "bls1" => (BlsTable(row.mode, row.alt) <=> BlsDerived(row.mode, BlsSingleCase(row.mode, row.alt)))

(****************************************************************************************)
(* constructors / decoders: what must be refused before any verifier sees it            *)
(****************************************************************************************)
ConstructOK(what) == what \in {"valid", "v_0", "v_3", "v_absent"}
ConstructWhats == {"valid", "v_0", "v_3", "v_absent", "r_zero", "s_zero", "v_4", "v_neg", "pk_identity", "sk_zero",
                   "sig_identity", "sig_torsion", "pk_torsion", "pop_identity", "bytes_short",
                   "bytes_noncanonical_s", "bytes_noncanonical_x", "bytes_x_not_on_curve"}

(****************************************************************************************)
(* the row machine: every row of every table is one initial state                       *)
(****************************************************************************************)
IdleA == ph = "row" /\ x = 0 /\ hon = NoSig /\ pres = NoSig /\ H = {} /\ out = "none" /\ laste = 0 /\ nalt = 0
Rows == [scheme : {"ecdsa"}, alt : EcdsaAlts, strict : BOOLEAN, low : BOOLEAN]
          \cup [scheme : SchnorrSchemes, alt : SchnorrAlts]
          \cup {r \in [scheme : {"bls"}, mode : BlsModes, n : 1..3, same : BOOLEAN, lab : BlsLabels, i : 1..3] :
                  r.i <= r.n /\ BlsLabelOK(r.mode, r.n, r.lab)}
          \cup {r \in [scheme : {"bls1"}, mode : BlsModes, alt : BlsAlts] : r.mode # "pop" => r.alt.pop = "same"}
InitB == IdleA /\ row \in Rows
NextB == UNCHANGED vars

Init == IF Family = "schnorr" THEN InitA ELSE InitB
Next == IF Family = "schnorr" THEN NextA ELSE NextB
=============================================================================

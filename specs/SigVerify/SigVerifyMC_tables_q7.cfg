CONSTANTS
  Q = 7
  NM = 2
  NEG = FALSE
  MaxAlter = 1
  Family = "tables"
INIT Init
NEXT Next
INVARIANTS EcdsaRowOK EcdsaOnlyException EcdsaRecoverOK SchnorrRowOK BlsRowOK BlsSingleRowOK
CHECK_DEADLOCK FALSE

CONSTANTS
  C <- P61
  F <- Sec1c
  Family = "elems"
INIT Init
NEXT Next
INVARIANTS E_RoundTrip E_Injective E_EncSem E_NoPanic
CHECK_DEADLOCK FALSE

------------------------------ MODULE ElemCodec ------------------------------
(* C13  Element encodings are faithful; decoders admit only valid elements.                          *)
(*                                                                                                    *)
(* An EXACT small model: a tiny prime field F_p, a short-Weierstrass curve y^2 = x^3 + a x + b or a   *)
(* twisted-Edwards curve a x^2 + y^2 = 1 + d x^2 y^2 over it (every point enumerated by definition,   *)
(* chord-and-tangent / unified addition by definition, the prime-order subgroup = the multiples of a  *)
(* generator, small-order points and the cofactor), a multiplicative target group, and the library's  *)
(* encoding formats as functions on sequences of small "bytes" (radix 2^db digits, the flag bits      *)
(* placed where the real formats place them).  Three things are written down per format:              *)
(*   Enc   what the library's encoder does                (ToCompressed / ToUncompressed / Bytes)     *)
(*   Dec   what the library's decoder does, step by step  (FromCompressed / FromUncompressed / ...)   *)
(*   Sem   what a byte string DENOTES under property C13: length rule, flag rule, identity form,       *)
(*         coordinates read modulo p, the candidate element(s) - the independent oracle of the driver *)
(* and one rule table (Verdict) maps the oracle's booleans to  acc | rej | free :                     *)
(*   rej   the property demands rejection (wrong length, wrong flag bits, no valid element denoted)   *)
(*   acc   the string is the encoder's output for the element it denotes (round trip demands it)      *)
(*   free  a non-canonical spelling of a valid element (unreduced coordinate, redundant identity /    *)
(*         sign form): C13 does not claim uniqueness, a decoder may accept (then it must return the   *)
(*         denoted element) or refuse.                                                                *)
(* TLC checks, exhaustively over every string of every length from 0 to the right length + 1, over every  *)
(* element, and over the Choose / Encode / Mutate / Decode / Re-encode machine:                       *)
(*   RoundTrip, Injective, Sound, RejectsBad, ReEncode, NoPanic       (the property, on Enc and Dec)  *)
(*   EncSem, TableJustified                                           (the table is what C13 demands) *)
(*   CodeConforms                                                     (Dec agrees with the table)     *)
(* Deliberate behaviour of the code that the model has: reducing coordinate decoding everywhere       *)
(* (x >= p accepted and reduced; only the 25519 field refuses a set top bit), "x = 0 means identity"  *)
(* in SEC1-compressed and ZCash-Pasta forms, either sign accepted for a point with a zero coordinate, *)
(* u-only Montgomery form, BLS12-381 flags as the code reads them.  The reserved encoding of the      *)
(* identity is a convention, not mathematics: Enc(O) is well formed whatever it is (IdEncoding), and  *)
(* Sem reads "x = 0" as the identity only on curves that have no point with that abscissa.            *)
(* F.variant = "coded" is the code as it is, "strict" the proposed repair where one exists;           *)
(* configurations that reproduce a defect of the code are expected to FAIL a named invariant          *)
(* (checks/C13.py demands exactly that failure; the list is in ElemCodecMC).                          *)
(* The pure operators (LenRule, FlagRule, Verdict) are reused by ElemCodecTrace to judge the real     *)
(* code; Family = "xgen" prints exact cases for the generic point code instantiated on the toy field. *)
EXTENDS Integers, Sequences, FiniteSets, TLC, Json

CONSTANTS C,        \* curve / group: [kind, p, a, b, gx, gy, r, prime, c]
          F,        \* format: [name, db, nd, variant]
          Family    \* "strings" | "elems" | "machine" | "xgen" | "trace"

VARIABLES ph, el, s, mut, out, re
vars == <<ph, el, s, mut, out, re>>

(****************************************************************************************)
(* the field F_p                                                                        *)
(****************************************************************************************)
P == C.p
Fp == 0..(P - 1)
Ad(a, b) == (a + b) % P
Sb(a, b) == (a + P - (b % P)) % P
Ml(a, b) == (a * b) % P
Ng(a) == (P - (a % P)) % P
InvTab == [a \in 1..(P - 1) |-> CHOOSE w \in 1..(P - 1) : (a * w) % P = 1]      \* inverse by definition
InvF(a) == InvTab[a]
Dv(a, b) == Ml(a, InvF(b))
RootsTab == [v \in Fp |-> {w \in Fp : (w * w) % P = v}]                          \* square roots by definition
Roots(v) == RootsTab[v]
IsNegF(y) == y > (P - 1) \div 2            \* "lexicographically largest" (ZCash BLS12-381 sign)
RECURSIVE Pow2(_)
Pow2(n) == IF n = 0 THEN 1 ELSE 2 * Pow2(n - 1)
RECURSIVE PowM(_, _)
PowM(g, k) == IF k = 0 THEN 1 ELSE Ml(PowM(g, k - 1), g)

(****************************************************************************************)
(* the curve: points, group law, subgroup, orders                                       *)
(****************************************************************************************)
IsCurve == C.kind \in {"weier", "edw"}
O == IF C.kind = "edw" THEN <<0, 1>> ELSE <<P, P>>           \* neutral element (Weierstrass: a point outside F_p x F_p)
Rhs(x) == (x * x * x + C.a * x + C.b) % P
OnAffine(x, y) == IF C.kind = "edw"
                  THEN Ad(Ml(C.a, Ml(x, x)), Ml(y, y)) = Ad(1, Ml(C.b, Ml(Ml(x, x), Ml(y, y))))     \* C.b is d
                  ELSE Ml(y, y) = Rhs(x)
AllPts == (IF C.kind = "edw" THEN {} ELSE {O}) \cup {A \in Fp \X Fp : OnAffine(A[1], A[2])}
NegP(A) == IF C.kind = "edw" THEN <<Ng(A[1]), A[2]>> ELSE IF A = O THEN O ELSE <<A[1], Ng(A[2])>>
AddW(A, B) == IF A = O THEN B ELSE IF B = O THEN A
              ELSE IF A[1] = B[1] /\ Ad(A[2], B[2]) = 0 THEN O
              ELSE LET lam == IF A = B THEN Dv(Ad(Ml(3, Ml(A[1], A[1])), C.a), Ml(2, A[2]))
                                       ELSE Dv(Sb(B[2], A[2]), Sb(B[1], A[1]))
                       x3 == Sb(Sb(Ml(lam, lam), A[1]), B[1])
                   IN <<x3, Sb(Ml(lam, Sb(A[1], x3)), A[2])>>
AddE(A, B) == LET t == Ml(C.b, Ml(Ml(A[1], B[1]), Ml(A[2], B[2])))
              IN <<Dv(Ad(Ml(A[1], B[2]), Ml(A[2], B[1])), Ad(1, t)),
                   Dv(Sb(Ml(A[2], B[2]), Ml(C.a, Ml(A[1], B[1]))), Sb(1, t))>>
AddP(A, B) == IF C.kind = "edw" THEN AddE(A, B) ELSE AddW(A, B)
RECURSIVE SM(_, _)
SM(n, A) == IF n = 0 THEN O ELSE IF n % 2 = 0 THEN LET H == SM(n \div 2, A) IN AddP(H, H) ELSE AddP(SM(n - 1, A), A)
G == <<C.gx, C.gy>>
NPts == Cardinality(AllPts)
Cof == NPts \div C.r
MultTab == [k \in 0..(C.r - 1) |-> SM(k, G)]
Sub == {MultTab[k] : k \in 0..(C.r - 1)}                     \* the prime-order subgroup: the multiples of G
SmallOrder(A) == SM(Cof, A) = O                              \* order divides the cofactor
SubM == {PowM(C.gx, k) : k \in 0..(C.r - 1)}                 \* kind "mul": the order-r subgroup of F_p^*
Elems == CASE IsCurve -> IF C.prime THEN Sub ELSE AllPts
           [] C.kind = "mul" -> SubM
           [] C.kind = "field" -> Fp
Valid(e) == e \in Elems
\* the model is what it claims to be
ASSUME CurveOK == IsCurve => /\ G \in AllPts /\ G # O /\ SM(C.r, G) = O /\ Cardinality(Sub) = C.r
                             /\ NPts % C.r = 0 /\ Cof % C.r # 0
                             /\ \A A \in AllPts, B \in AllPts : AddP(A, B) \in AllPts        \* closed: the law is total here
                             /\ (C.prime /\ Cof > 1 => \E A \in AllPts : A \notin Sub /\ ~SmallOrder(A))   \* composite-order points exist
ASSUME MulOK == C.kind = "mul" => PowM(C.gx, C.r) = 1 /\ Cardinality(SubM) = C.r

(****************************************************************************************)
(* digits                                                                               *)
(****************************************************************************************)
Radix == Pow2(F.db)
Dig == 0..(Radix - 1)
NB == F.db * F.nd                            \* bits of one coordinate slot
RECURSIVE ValBE(_)
ValBE(d) == IF Len(d) = 0 THEN 0 ELSE ValBE(SubSeq(d, 1, Len(d) - 1)) * Radix + d[Len(d)]
RECURSIVE ValLE(_)
ValLE(d) == IF Len(d) = 0 THEN 0 ELSE d[1] + Radix * ValLE(Tail(d))
RECURSIVE RadixPow(_)
RadixPow(n) == IF n = 0 THEN 1 ELSE Radix * RadixPow(n - 1)
DigBE(v, n) == [i \in 1..n |-> (v \div RadixPow(n - i)) % Radix]
DigLE(v, n) == [i \in 1..n |-> (v \div RadixPow(i - 1)) % Radix]
Slot(d, j, off) == SubSeq(d, off + (j - 1) * F.nd + 1, off + j * F.nd)     \* digits of the j-th coordinate slot
Bit(v, i) == (v \div Pow2(i)) % 2
Low(v, n) == v % Pow2(n)
Zeros(n) == [i \in 1..n |-> 0]
AllZero(d) == \A i \in 1..Len(d) : d[i] = 0
PANIC == <<-1>>                              \* an encoder that panics (digits are never negative)

(****************************************************************************************)
(* the rule table (shared with ElemCodecTrace)                                          *)
(****************************************************************************************)
\* L: the format's length in digits / bytes; fwide: anything up to the wide length; fbered: any length
LenRule(name, len, LL) == CASE name = "fwide" -> len <= LL
                            [] name = "fbered" -> TRUE
                            [] OTHER -> len = LL
\* fl: the raw flag fields of the string as the format lays them out
FlagRule(name, fl) == CASE name = "sec1c" -> fl.prefix \in {2, 3}
                        [] name = "sec1u" -> fl.prefix = 4
                        [] name = "blsc" -> fl.c = 1 /\ (fl.i = 1 => fl.s = 0)
                        [] name = "blsu" -> fl.c = 0 /\ fl.s = 0
                        [] OTHER -> TRUE                       \* a sign bit alone has no wrong value
\* b: [lenOK, flagsOK, valid, canon]
Verdict(b) == IF ~b.lenOK \/ ~b.flagsOK \/ ~b.valid THEN "rej" ELSE IF b.canon THEN "acc" ELSE "free"

(****************************************************************************************)
(* point helpers                                                                        *)
(****************************************************************************************)
\* Weierstrass: the points with abscissa x (0, 1 or 2 of them)
WAt(x) == {<<x, y>> : y \in Roots(Rhs(x))}
\* Edwards: the points with ordinate y;  x^2 = (1 - y^2) / (a - d y^2)
EDen(y) == Sb(C.a, Ml(C.b, Ml(y, y)))
EAt(y) == IF EDen(y) = 0 THEN {} ELSE {<<x, y>> : x \in Roots(Dv(Sb(1, Ml(y, y)), EDen(y)))}
\* Montgomery view of the Edwards curve (curve25519):  u = (1 + y) / (1 - y),  v = c u / x,  c^2 = 4 / (a - d)
MontU(A) == Dv(Ad(1, A[2]), Sb(1, A[2]))                      \* defined for y # 1
MontV(A) == Dv(Ml(C.c, MontU(A)), A[1])                       \* defined for x # 0
YOfU(u) == Dv(Sb(u, 1), Ad(u, 1))                             \* defined for u # -1
SubOK(A) == C.prime => A \in Sub                              \* the membership test of the prime-subgroup types
Keep(S) == {A \in S : SubOK(A)}
NoFl == [none |-> 0]
NoSem == [fl |-> NoFl, idform |-> "no", red |-> TRUE, els |-> {}]

(****************************************************************************************)
(* SEC1-style formats (k256, p256):  02/03 || x   and   04 || x || y,  big endian       *)
(* reserved identity: 02 || 0...0 and 04 || 0...0 || 0...0                              *)
(****************************************************************************************)
EncSec1c(e) == IF e = O THEN <<2>> \o Zeros(F.nd) ELSE <<2 + (e[2] % 2)>> \o DigBE(e[1], F.nd)
DecSec1c(d) == IF Len(d) # 1 + F.nd THEN {}
               ELSE IF d[1] \notin {2, 3} THEN {}
               ELSE LET x == ValBE(Slot(d, 1, 1)) % P IN                   \* SetBytes reduces
                    IF x = 0 /\ F.variant = "coded" THEN {O}               \* "x.IsZero() -> identity", whatever the prefix
                    ELSE {A \in WAt(x) : A[2] = 0 \/ A[2] % 2 = d[1] - 2}  \* SetFromAffineX, then negate if the parity differs
\* strict variant (proposed repair for curves that have a point with x = 0): identity = 00 || 0...0
EncSec1cS(e) == IF e = O THEN <<0>> \o Zeros(F.nd) ELSE EncSec1c(e)
DecSec1cS(d) == IF Len(d) = 1 + F.nd /\ d[1] = 0 THEN (IF AllZero(d) THEN {O} ELSE {}) ELSE DecSec1c(d)
\* what 02/03 || x denotes: the point with that abscissa and parity; where the curve has NO point with x = 0 the library
\* reads x = 0 as the identity (a redundant spelling, "free"); the reserved identity string itself is Enc(O) (see Bools)
SemSec1c(d) == LET xr == ValBE(Slot(d, 1, 1))
                   x == xr % P
                   idE == IF F.variant = "strict" THEN EncSec1cS(O) ELSE EncSec1c(O)
               IN [fl |-> [prefix |-> d[1]],
                   idform |-> IF d = idE THEN "canon" ELSE IF x = 0 /\ WAt(0) = {} THEN "noncanon" ELSE "no",
                   red |-> xr < P,
                   els |-> IF d = idE THEN {O}
                           ELSE IF d[1] \notin {2, 3} THEN {}
                           ELSE IF x = 0 /\ WAt(0) = {} THEN {O}
                           ELSE {A \in WAt(x) : A[2] = 0 \/ A[2] % 2 = d[1] % 2}]
EncSec1u(e) == IF e = O THEN <<4>> \o Zeros(2 * F.nd) ELSE <<4>> \o DigBE(e[1], F.nd) \o DigBE(e[2], F.nd)
DecSec1u(d) == IF Len(d) # 1 + 2 * F.nd THEN {}
               ELSE IF d[1] # 4 THEN {}
               ELSE LET x == ValBE(Slot(d, 1, 1)) % P
                        y == ValBE(Slot(d, 2, 1)) % P
                    IN IF x = 0 /\ y = 0 THEN {O} ELSE IF OnAffine(x, y) THEN {<<x, y>>} ELSE {}
SemSec1u(d) == LET xr == ValBE(Slot(d, 1, 1))
                   yr == ValBE(Slot(d, 2, 1))
                   x == xr % P
                   y == yr % P
               IN [fl |-> [prefix |-> d[1]],
                   idform |-> IF x = 0 /\ y = 0 THEN (IF xr = 0 /\ yr = 0 THEN "canon" ELSE "noncanon") ELSE "no",
                   red |-> xr < P /\ yr < P,
                   els |-> IF x = 0 /\ y = 0 THEN {O} ELSE IF OnAffine(x, y) THEN {<<x, y>>} ELSE {}]

(****************************************************************************************)
(* ZCash-Pasta formats (pallas, vesta): x little endian, parity of y in the top bit;    *)
(* identity = all zero;  uncompressed x || y, identity = all zero                       *)
(****************************************************************************************)
EncPastac(e) == IF e = O THEN Zeros(F.nd) ELSE DigLE(e[1] + (e[2] % 2) * Pow2(NB - 1), F.nd)
DecPastac(d) == IF Len(d) # F.nd THEN {}
                ELSE LET raw == ValLE(d)
                         sg == Bit(raw, NB - 1)
                         x == Low(raw, NB - 1) % P
                     IN IF x = 0 /\ sg = 0 THEN {O}
                        ELSE {A \in WAt(x) : (A[2] % 2 = sg) \/ (A[2] = 0)}
SemPastac(d) == LET raw == ValLE(d)
                    sg == Bit(raw, NB - 1)
                    xr == Low(raw, NB - 1)
                    x == xr % P
                IN [fl |-> [sign |-> sg],
                    idform |-> IF x = 0 /\ sg = 0 THEN (IF xr = 0 THEN "canon" ELSE "noncanon") ELSE "no",
                    red |-> xr < P,
                    els |-> IF x = 0 /\ sg = 0 THEN {O} ELSE {A \in WAt(x) : (A[2] % 2 = sg) \/ (A[2] = 0)}]
EncPastau(e) == IF e = O THEN Zeros(2 * F.nd) ELSE DigLE(e[1], F.nd) \o DigLE(e[2], F.nd)
DecPastau(d) == IF Len(d) # 2 * F.nd THEN {}
                ELSE LET x == ValLE(Slot(d, 1, 0)) % P
                         y == ValLE(Slot(d, 2, 0)) % P
                     IN IF x = 0 /\ y = 0 THEN {O} ELSE IF OnAffine(x, y) THEN {<<x, y>>} ELSE {}
SemPastau(d) == LET xr == ValLE(Slot(d, 1, 0))
                    yr == ValLE(Slot(d, 2, 0))
                    x == xr % P
                    y == yr % P
                IN [fl |-> NoFl,
                    idform |-> IF x = 0 /\ y = 0 THEN (IF xr = 0 /\ yr = 0 THEN "canon" ELSE "noncanon") ELSE "no",
                    red |-> xr < P /\ yr < P,
                    els |-> IF x = 0 /\ y = 0 THEN {O} ELSE IF OnAffine(x, y) THEN {<<x, y>>} ELSE {}]

(****************************************************************************************)
(* RFC 8032-style (edwards25519 and its prime subgroup): y little endian, parity of x   *)
(* in the top bit; uncompressed y || x.  The 25519 field refuses a set top bit and      *)
(* reduces everything else.                                                              *)
(****************************************************************************************)
EncEdc(e) == DigLE(e[2] + (e[1] % 2) * Pow2(NB - 1), F.nd)
DecEdc(d) == IF Len(d) # F.nd THEN {}
             ELSE LET raw == ValLE(d)
                      sg == Bit(raw, NB - 1)
                      y == Low(raw, NB - 1) % P
                  IN Keep({A \in EAt(y) : A[1] = 0 \/ A[1] % 2 = sg})      \* x = 0: negation changes nothing, either sign passes
SemEdc(d) == LET raw == ValLE(d)
                 sg == Bit(raw, NB - 1)
                 yr == Low(raw, NB - 1)
                 y == yr % P
             IN [fl |-> [sign |-> sg], idform |-> "no", red |-> yr < P,
                 els |-> {A \in EAt(y) : A[1] = 0 \/ A[1] % 2 = sg}]
EncEdu(e) == DigLE(e[2], F.nd) \o DigLE(e[1], F.nd)
DecEdu(d) == IF Len(d) # 2 * F.nd THEN {}
             ELSE LET yr == ValLE(Slot(d, 1, 0))
                      xr == ValLE(Slot(d, 2, 0))
                  IN IF Bit(yr, NB - 1) = 1 \/ Bit(xr, NB - 1) = 1 THEN {}             \* Fp.SetBytes refuses the top bit
                     ELSE IF OnAffine(xr % P, yr % P) THEN Keep({<<xr % P, yr % P>>}) ELSE {}
SemEdu(d) == LET yr == ValLE(Slot(d, 1, 0))
                 xr == ValLE(Slot(d, 2, 0))
             IN [fl |-> NoFl, idform |-> "no", red |-> xr < P /\ yr < P,
                 els |-> IF OnAffine(xr % P, yr % P) THEN {<<xr % P, yr % P>>} ELSE {}]

(****************************************************************************************)
(* Montgomery forms (curve25519 and its prime subgroup) over the same Edwards points:   *)
(* compressed = u only (RFC 7748), identity = all zero; uncompressed u || v             *)
(****************************************************************************************)
EncMontc(e) == IF e = O THEN Zeros(F.nd) ELSE DigLE(MontU(e), F.nd)        \* AffineX = (Z + Y) / (Z - Y)
MontPts(u) == IF u = P - 1 THEN {} ELSE EAt(YOfU(u))                        \* both points with that u (SetFromAffineY picks a root)
DecMontc(d) == IF Len(d) # F.nd THEN {}
               ELSE IF AllZero(d) THEN {O}
               ELSE LET raw == ValLE(d) IN
                    IF Bit(raw, NB - 1) = 1 THEN {} ELSE Keep(MontPts(raw % P))
SemMontc(d) == LET raw == ValLE(d)
                   u == raw % P
               IN [fl |-> NoFl,
                   idform |-> IF AllZero(d) THEN "canon" ELSE "no",
                   red |-> raw < P,
                   els |-> IF AllZero(d) THEN {O} ELSE MontPts(u)]
EncMontu(e) == IF e = O THEN Zeros(2 * F.nd)
               ELSE IF e[1] = 0 THEN PANIC                                    \* AffineY divides by X - T: "this should never happen"
               ELSE DigLE(MontU(e), F.nd) \o DigLE(MontV(e), F.nd)
DecMontu(d) == IF Len(d) # 2 * F.nd THEN {}
               ELSE IF AllZero(d) THEN {O}
               ELSE LET ur == ValLE(Slot(d, 1, 0))
                        vr == ValLE(Slot(d, 2, 0))
                    IN IF Bit(ur, NB - 1) = 1 \/ Bit(vr, NB - 1) = 1 THEN {}
                       ELSE IF ur % P = 0 THEN {}                              \* FromCompressed(0) is the identity, which has no affine y
                       ELSE Keep({A \in MontPts(ur % P) : A[1] # 0 /\ MontV(A) = vr % P})
SemMontu(d) == LET ur == ValLE(Slot(d, 1, 0))
                   vr == ValLE(Slot(d, 2, 0))
                   u == ur % P
                   v == vr % P
               IN [fl |-> NoFl,
                   idform |-> IF AllZero(d) THEN "canon" ELSE "no",
                   red |-> ur < P /\ vr < P,
                   els |-> IF AllZero(d) THEN {O}
                           ELSE IF u = 0 /\ v = 0 THEN {<<0, P - 1>>}          \* (0, 0) is the point of order two
                           ELSE {A \in MontPts(u) : A[1] # 0 /\ MontV(A) = v}]

(****************************************************************************************)
(* ZCash BLS12-381 formats (G1; G2 has the same flags on a two-component coordinate):   *)
(* big endian, top three bits of the first digit = compression, infinity, sign          *)
(****************************************************************************************)
BlsX(raw) == Low(raw, NB - 3)
BlsFl(raw) == [c |-> Bit(raw, NB - 1), i |-> Bit(raw, NB - 2), s |-> Bit(raw, NB - 3)]
BlsY(x, sg) == {A \in WAt(x) : A[2] = 0 \/ (IsNegF(A[2]) <=> sg = 1)}
EncBlsc(e) == IF e = O THEN DigBE(Pow2(NB - 1) + Pow2(NB - 2), F.nd)
              ELSE DigBE(Pow2(NB - 1) + (IF IsNegF(e[2]) THEN Pow2(NB - 3) ELSE 0) + e[1], F.nd)
DecBlsc(d) == IF Len(d) # F.nd THEN {}
              ELSE LET raw == ValBE(d)
                       fl == BlsFl(raw)
                   IN IF fl.c # 1 THEN {}
                      ELSE IF fl.i = 1 THEN (IF fl.s = 1 \/ BlsX(raw) # 0 THEN {} ELSE {O})
                      ELSE Keep(BlsY(BlsX(raw) % P, fl.s))
SemBlsc(d) == LET raw == ValBE(d)
                  fl == BlsFl(raw)
              IN [fl |-> fl,
                  idform |-> IF fl.i = 1 THEN (IF BlsX(raw) = 0 THEN "canon" ELSE "noncanon") ELSE "no",
                  red |-> BlsX(raw) < P,
                  els |-> IF fl.i = 1 THEN {O} ELSE BlsY(BlsX(raw) % P, fl.s)]
EncBlsu(e) == IF e = O THEN DigBE(Pow2(NB - 2), F.nd) \o Zeros(F.nd) ELSE DigBE(e[1], F.nd) \o DigBE(e[2], F.nd)
DecBlsu(d) == IF Len(d) # 2 * F.nd THEN {}
              ELSE LET raw == ValBE(Slot(d, 1, 0))
                       yr == ValBE(Slot(d, 2, 0))
                       fl == BlsFl(raw)
                       strict == F.variant = "strict"
                   IN IF strict /\ (fl.c = 1 \/ fl.s = 1) THEN {}
                      ELSE IF fl.i = 1 THEN (IF strict /\ (BlsX(raw) # 0 \/ yr # 0) THEN {} ELSE {O})    \* coded: nothing else is looked at
                      ELSE IF OnAffine(BlsX(raw) % P, yr % P) THEN Keep({<<BlsX(raw) % P, yr % P>>}) ELSE {}
SemBlsu(d) == LET raw == ValBE(Slot(d, 1, 0))
                  yr == ValBE(Slot(d, 2, 0))
                  fl == BlsFl(raw)
              IN [fl |-> fl,
                  idform |-> IF fl.i = 1 THEN (IF BlsX(raw) = 0 /\ yr = 0 THEN "canon" ELSE "noncanon") ELSE "no",
                  red |-> BlsX(raw) < P /\ yr < P,
                  els |-> IF fl.i = 1 THEN {O}
                          ELSE IF OnAffine(BlsX(raw) % P, yr % P) THEN {<<BlsX(raw) % P, yr % P>>} ELSE {}]

(****************************************************************************************)
(* affine constructors: the "string" is a pair of field elements (x, y) or (x, parity)  *)
(****************************************************************************************)
DecAffine(d) == IF Len(d) # 2 THEN {} ELSE IF OnAffine(d[1], d[2]) THEN Keep({<<d[1], d[2]>>}) ELSE {}
SemAffine(d) == [fl |-> NoFl, idform |-> "no", red |-> TRUE, els |-> IF OnAffine(d[1], d[2]) THEN {<<d[1], d[2]>>} ELSE {}]
DecAffineX(d) == IF Len(d) # 2 THEN {}
                 ELSE LET S == {A \in WAt(d[1]) : A[2] = 0 \/ A[2] % 2 = d[2]}
                      IN IF F.variant = "coded" THEN S ELSE Keep(S)           \* coded: G1.FromAffineX has no membership test
SemAffineX(d) == [fl |-> NoFl, idform |-> "no", red |-> TRUE, els |-> {A \in WAt(d[1]) : A[2] = 0 \/ A[2] % 2 = d[2]}]

(****************************************************************************************)
(* target group (kind "mul") and field elements                                         *)
(****************************************************************************************)
EncBE(e) == DigBE(e, F.nd)
EncLE(e) == DigLE(e, F.nd)
DecGt(d) == IF Len(d) # F.nd THEN {}
            ELSE LET v == ValBE(d) % P IN IF F.variant = "coded" THEN {v} ELSE {v} \cap SubM    \* coded: any residue, even 0
SemGt(d) == [fl |-> NoFl, idform |-> "no", red |-> ValBE(d) < P, els |-> {ValBE(d) % P}]
DecFbe(d) == IF Len(d) # F.nd THEN {} ELSE {ValBE(d) % P}                     \* PrimeFieldTrait.FromBytes
DecFle(d) == IF Len(d) # F.nd THEN {} ELSE {ValLE(d) % P}                     \* UnmarshalBinary (little endian)
DecFbeTop(d) == IF Len(d) # F.nd THEN {} ELSE IF Bit(ValBE(d), NB - 1) = 1 THEN {} ELSE {ValBE(d) % P}   \* 25519 base field
DecFwide(d) == IF Len(d) > 2 * F.nd THEN {} ELSE {ValBE(d) % P}               \* FromWideBytes: up to the wide length
DecFbered(d) == {ValBE(d) % P}                                                \* FromBytesBEReduce: any length
SemF(v) == [fl |-> NoFl, idform |-> "no", red |-> v < P, els |-> {v % P}]

(****************************************************************************************)
(* dispatch                                                                             *)
(****************************************************************************************)
L == CASE F.name = "sec1c" -> 1 + F.nd [] F.name = "sec1u" -> 1 + 2 * F.nd
       [] F.name \in {"pastau", "edu", "montu", "blsu"} -> 2 * F.nd
       [] F.name \in {"affine", "affinex"} -> 2
       [] F.name = "fwide" -> 2 * F.nd
       [] OTHER -> F.nd
Enc(e) == CASE F.name = "sec1c" -> IF F.variant = "strict" THEN EncSec1cS(e) ELSE EncSec1c(e)
            [] F.name = "sec1u" -> EncSec1u(e)
            [] F.name = "pastac" -> EncPastac(e) [] F.name = "pastau" -> EncPastau(e)
            [] F.name = "edc" -> EncEdc(e) [] F.name = "edu" -> EncEdu(e)
            [] F.name = "montc" -> EncMontc(e) [] F.name = "montu" -> EncMontu(e)
            [] F.name = "blsc" -> EncBlsc(e) [] F.name = "blsu" -> EncBlsu(e)
            [] F.name = "affine" -> IF e = O /\ C.kind = "weier" THEN PANIC ELSE <<e[1], e[2]>>       \* (no affine form of the point at infinity)
            [] F.name = "affinex" -> IF e = O THEN PANIC ELSE <<e[1], e[2] % 2>>
            [] F.name \in {"gt", "fbe", "fbetop", "fwide", "fbered"} -> EncBE(e)
            [] F.name = "fle" -> EncLE(e)
Dec(d) == CASE F.name = "sec1c" -> IF F.variant = "strict" THEN DecSec1cS(d) ELSE DecSec1c(d)
            [] F.name = "sec1u" -> DecSec1u(d)
            [] F.name = "pastac" -> DecPastac(d) [] F.name = "pastau" -> DecPastau(d)
            [] F.name = "edc" -> DecEdc(d) [] F.name = "edu" -> DecEdu(d)
            [] F.name = "montc" -> DecMontc(d) [] F.name = "montu" -> DecMontu(d)
            [] F.name = "blsc" -> DecBlsc(d) [] F.name = "blsu" -> DecBlsu(d)
            [] F.name = "affine" -> DecAffine(d) [] F.name = "affinex" -> DecAffineX(d)
            [] F.name = "gt" -> DecGt(d)
            [] F.name = "fbe" -> DecFbe(d) [] F.name = "fle" -> DecFle(d) [] F.name = "fbetop" -> DecFbeTop(d)
            [] F.name = "fwide" -> DecFwide(d) [] F.name = "fbered" -> DecFbered(d)
LenOK(d) == LenRule(F.name, Len(d), L)
Sem(d) == IF ~LenOK(d) THEN NoSem
          ELSE CASE F.name = "sec1c" -> SemSec1c(d) [] F.name = "sec1u" -> SemSec1u(d)
                 [] F.name = "pastac" -> SemPastac(d) [] F.name = "pastau" -> SemPastau(d)
                 [] F.name = "edc" -> SemEdc(d) [] F.name = "edu" -> SemEdu(d)
                 [] F.name = "montc" -> SemMontc(d) [] F.name = "montu" -> SemMontu(d)
                 [] F.name = "blsc" -> SemBlsc(d) [] F.name = "blsu" -> SemBlsu(d)
                 [] F.name = "affine" -> SemAffine(d) [] F.name = "affinex" -> SemAffineX(d)
                 [] F.name = "gt" -> SemGt(d)
                 [] F.name = "fle" -> SemF(ValLE(d))
                 [] OTHER -> SemF(ValBE(d))
\* the reserved encoding of the identity is a convention of the encoder: whatever Enc(O) is, it is well formed
IdEncoding(d) == IsCurve /\ d = Enc(O)
\* the oracle's booleans for a string
Bools(d) == LET m == Sem(d) IN
            [lenOK |-> LenOK(d),
             flagsOK |-> LenOK(d) => (IdEncoding(d) \/ FlagRule(F.name, m.fl)),
             valid |-> m.els # {} /\ \A e \in m.els : Valid(e),
             canon |-> \E e \in m.els : Enc(e) = d]
\* what C13 demands of a decoder on d, read off the encoder and the semantics
\* the affine constructors have no spelling of the Weierstrass point at infinity: it is outside their round trip
Encodable(e) == ~(F.name \in {"affine", "affinex"} /\ C.kind = "weier" /\ e = O)
EncImage == {Enc(e) : e \in {x \in Elems : Encodable(x)}}
Demand(d) == LET b == Bools(d) IN
             IF d \in EncImage THEN "acc"
             ELSE IF ~b.lenOK \/ ~b.flagsOK \/ ~b.valid THEN "rej" ELSE "free"
\* a name for the kind of string (used by the machine and by the driver's classes)
ClassOf(d) == LET b == Bools(d)
                  m == Sem(d)
              IN IF ~b.lenOK THEN "wronglen" ELSE IF ~b.flagsOK THEN "wrongflag"
                 ELSE IF m.els = {} THEN "offcurve"
                 ELSE IF ~b.valid THEN (IF IsCurve /\ \A e \in m.els : SmallOrder(e) THEN "smallorder" ELSE "notinsub")
                 ELSE IF b.canon THEN "canonical"
                 ELSE IF m.idform = "noncanon" THEN "noncanon-id" ELSE IF ~m.red THEN "unreduced" ELSE "noncanon-sign"

(****************************************************************************************)
(* the property and the table, as predicates of a string / an element                   *)
(****************************************************************************************)
Sound(d) == \A e \in Dec(d) : Valid(e) /\ e \in Sem(d).els            \* accepted => a valid element, the one the bytes denote
RejectsBad(d) == LET b == Bools(d) IN (~b.lenOK \/ ~b.flagsOK \/ ~b.valid) => Dec(d) = {}
ReEncode(d) == \A e \in Dec(d) : Enc(e) # PANIC /\ e \in Dec(Enc(e))
TableJustified(d) == Verdict(Bools(d)) = Demand(d)
CodeConforms(d) == LET v == Verdict(Bools(d))
                       m == Sem(d)
                   IN /\ v = "rej" => Dec(d) = {}
                      /\ v = "acc" => Dec(d) # {}
                      /\ Dec(d) \subseteq m.els
RoundTrip(e) == Enc(e) # PANIC /\ Dec(Enc(e)) = {e}
RoundTripModSign(e) == Enc(e) # PANIC /\ e \in Dec(Enc(e)) /\ Dec(Enc(e)) \subseteq {e, NegP(e)}
Injective(e) == \A e2 \in Elems : e2 # e /\ Encodable(e2) => Enc(e2) # Enc(e)
InjectiveModSign(e) == \A e2 \in Elems : e2 \notin {e, NegP(e)} => Enc(e2) # Enc(e)
EncSem(e) == LET d == Enc(e) IN d # PANIC /\ LenOK(d) /\ (IdEncoding(d) \/ FlagRule(F.name, Sem(d).fl)) /\ e \in Sem(d).els
NoPanicE(e) == Enc(e) # PANIC

(****************************************************************************************)
(* mutations of an encoding (the classes the driver crafts on the production curves)    *)
(****************************************************************************************)
SetDigit(d, i, v) == [d EXCEPT ![i] = v]
Mutations(d) == {<<"digit", i, v>> : i \in 1..Len(d), v \in Dig}             \* every flag bit and every coordinate digit
                  \cup {<<"drop", 0, 0>>, <<"empty", 0, 0>>, <<"double", 0, 0>>}
                  \cup {<<"append", 0, v>> : v \in {0, Radix - 1}}
Apply(m, d) == CASE m[1] = "digit" -> SetDigit(d, m[2], m[3])
                 [] m[1] = "drop" -> SubSeq(d, 1, Len(d) - 1)
                 [] m[1] = "empty" -> <<>>
                 [] m[1] = "double" -> d \o d
                 [] m[1] = "append" -> Append(d, m[3])
NoMut == <<"none", 0, 0>>
AffineFmt == F.name \in {"affine", "affinex"}
StrDig == IF F.name = "affine" THEN Fp ELSE Dig

(****************************************************************************************)
(* families of behaviours                                                               *)
(****************************************************************************************)
MaxLen == IF AffineFmt THEN 2 ELSE IF F.name = "fbered" THEN F.nd + 2 ELSE L + 1
NextDig(d) == IF F.name = "affinex" /\ Len(d) = 1 THEN {0, 1} ELSE StrDig
Idle == el = 0 /\ mut = NoMut /\ out = {} /\ re = {}
\* "strings": every string of every length 0 .. L + 1, built digit by digit (so that the workers share the enumeration)
InitS == ph = "str" /\ s = <<>> /\ Idle
NextS == Len(s) < MaxLen /\ \E v \in NextDig(s) : s' = Append(s, v) /\ UNCHANGED <<ph, el, mut, out, re>>
InitE == ph = "elem" /\ el \in {x \in Elems : Encodable(x)} /\ s = <<>> /\ mut = NoMut /\ out = {} /\ re = {}
InitM == ph = "choose" /\ s = <<>> /\ Idle
Choose(e) == ph = "choose" /\ Encodable(e) /\ ph' = "chosen" /\ el' = e /\ UNCHANGED <<s, mut, out, re>>
Encode == ph = "chosen" /\ Enc(el) # PANIC /\ ph' = "encoded" /\ s' = Enc(el) /\ UNCHANGED <<el, mut, out, re>>
Mutate(m) == ph = "encoded" /\ ~AffineFmt /\ ph' = "mutated" /\ s' = Apply(m, s) /\ mut' = m /\ UNCHANGED <<el, out, re>>
Decode == ph \in {"encoded", "mutated"} /\ ph' = "decoded" /\ out' = Dec(s) /\ UNCHANGED <<el, s, mut, re>>
ReEnc == ph = "decoded" /\ ph' = "done" /\ re' = {Enc(e) : e \in out} /\ UNCHANGED <<el, s, mut, out>>
NextM == \/ \E e \in Elems : Choose(e)
         \/ Encode
         \/ \E m \in Mutations(s) : Mutate(m)
         \/ Decode
         \/ ReEnc

(* exact cases for the generic point code on the toy field (device X): printed as JSON, replayed by the driver *)
Emit(rec) == PrintT(ToJson(rec))
PtJ(A) == IF A = O /\ C.kind = "weier" THEN <<-1, -1>> ELSE A
XCases == {<<"affine", x, y>> : x \in Fp, y \in Fp} \cup {<<"fromc", x, 0>> : x \in Fp} \cup {<<"mult", k, 0>> : k \in 0..(2 * C.r)}
XCase(c) == CASE c[1] = "affine" -> [op |-> "affine", x |-> c[2], y |-> c[3], ok |-> OnAffine(c[2], c[3])]
              [] c[1] = "fromc" -> LET S == IF C.kind = "edw" THEN EAt(c[2]) ELSE WAt(c[2])
                                   IN [op |-> "fromc", x |-> c[2], ok |-> S # {}, pts |-> {PtJ(A) : A \in S}]
              [] c[1] = "mult" -> LET A == SM(c[2], G)
                                  IN [op |-> "mult", k |-> c[2], pt |-> PtJ(A), id |-> A = O, insub |-> A \in Sub]
InitX == ph = "x" /\ s \in XCases /\ Idle /\ Emit(XCase(s))

Init == CASE Family = "strings" -> InitS [] Family = "elems" -> InitE [] Family = "machine" -> InitM [] Family = "xgen" -> InitX
Next == CASE Family = "machine" -> NextM [] Family = "strings" -> NextS [] OTHER -> UNCHANGED vars

(****************************************************************************************)
(* invariants                                                                           *)
(****************************************************************************************)
\* family "strings": every string of length 0 .. L + 1
S_Sound == ph = "str" => Sound(s)
S_RejectsBad == ph = "str" => RejectsBad(s)
S_ReEncode == ph = "str" => ReEncode(s)
S_TableJustified == ph = "str" => TableJustified(s)
S_CodeConforms == ph = "str" => CodeConforms(s)
\* family "elems": every element of the type
E_RoundTrip == ph = "elem" => RoundTrip(el)
E_Injective == ph = "elem" => Injective(el)
E_RoundTripModSign == ph = "elem" => RoundTripModSign(el)
E_InjectiveModSign == ph = "elem" => InjectiveModSign(el)
E_EncSem == ph = "elem" => EncSem(el)
E_NoPanic == ph = "elem" => NoPanicE(el)
\* family "machine"
M_RoundTrip == ph = "done" /\ mut = NoMut => out = {el} /\ re = {s}
M_Sound == ph \in {"decoded", "done"} => Sound(s)
M_RejectsBad == ph \in {"decoded", "done"} /\ ClassOf(s) \in {"wronglen", "wrongflag", "offcurve", "smallorder", "notinsub"} => out = {}
M_Conforms == ph \in {"decoded", "done"} => CodeConforms(s) /\ TableJustified(s)
M_ReEncode == ph = "done" => \A e \in out : e \in Dec(Enc(e))
M_Canonical == ph = "done" /\ ClassOf(s) = "canonical" => re = {s}
=============================================================================

CONSTANTS
  C <- K61
  F <- Affine
  Family = "xgen"
INIT Init
NEXT Next
CHECK_DEADLOCK FALSE

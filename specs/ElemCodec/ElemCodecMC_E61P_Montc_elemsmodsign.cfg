CONSTANTS
  C <- E61P
  F <- Montc
  Family = "elems"
INIT Init
NEXT Next
INVARIANTS E_RoundTripModSign E_InjectiveModSign E_NoPanic
CHECK_DEADLOCK FALSE

CONSTANTS
  C <- K61
  F <- Sec1c
  Family = "trace"
INIT TInit
NEXT TNext
INVARIANT CaseOK
CHECK_DEADLOCK FALSE

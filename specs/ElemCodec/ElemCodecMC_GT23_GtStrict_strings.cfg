CONSTANTS
  C <- GT23
  F <- GtStrict
  Family = "strings"
INIT Init
NEXT Next
INVARIANTS S_Sound S_RejectsBad S_ReEncode S_TableJustified S_CodeConforms
CHECK_DEADLOCK FALSE

CONSTANTS
  C <- K61
  F <- Sec1c
  Family = "machine"
INIT Init
NEXT Next
INVARIANTS M_RoundTrip M_Sound M_RejectsBad M_Conforms M_ReEncode M_Canonical
CHECK_DEADLOCK FALSE

CONSTANTS
  C <- K61
  F <- Sec1c
  Family = "trace"
INIT TInitAll
NEXT TStay
INVARIANT CaseOK
CHECK_DEADLOCK FALSE

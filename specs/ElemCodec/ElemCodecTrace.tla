--------------------------- MODULE ElemCodecTrace ---------------------------
(* Validates a log of real calls into the encoders / decoders of /repo (driver harness/cmd/elemcodec) against     *)
(* ElemCodec.  Function-shaped: `l` walks the lines, CaseOK must hold for every line.                              *)
(*   rt    one element (reference window [k]G, identity, special points) through one encoder / decoder pair:       *)
(*         accepted, no panic, the decoded element IS the element (tokens of the math/big-normalised stored          *)
(*         coordinates), re-encoding gives the same bytes, the bytes are what the independent encoder writes        *)
(*   inj   all encodings of one pair over the window: as many distinct strings as distinct elements                *)
(*   dec   one crafted string through one decoder: the rule table of ElemCodec (LenRule, FlagRule, Verdict)         *)
(*         applied to the oracle's booleans must agree with the real outcome; an accepted string must have          *)
(*         produced the denoted element, on the curve and (where the type promises it) in the prime subgroup        *)
(*   x     device X: a TLC-generated exact case replayed on the generic point code over the toy field C;            *)
(*         re-decided here from the definitions of ElemCodec (curve equation, roots, multiples of G)                *)
(* The u-only Montgomery form cannot tell P from -P.  So that this one deviation is reported once per decoder and   *)
(* not once per element, the sign is demanded on the identity, the point of order two and |k| <= 2; the rest of the *)
(* window and the other special points are held to "up to sign" (StrictSign).                                      *)
EXTENDS ElemCodecMC

Trace == ndJsonDeserialize("trace.ndjson")

VARIABLE l

Has(e, f) == f \in DOMAIN e
SetOf(q) == {q[i] : i \in 1..Len(q)}
Abs(v) == IF v < 0 THEN -v ELSE v

StrictSign(e) == e.fmt # "montc" \/ e.label \in {"identity", "T2"} \/ (e.label = "window" /\ Abs(e.k) <= 2)
RtOK(e) == /\ ~e.panic /\ e.acc
           /\ Has(e, "dec") /\ e.decOnc
           /\ IF StrictSign(e) THEN e.dec = e.elem ELSE e.dec \in {e.elem, e.elemNeg}
           /\ e.re = e.enc                      \* re-encoding the decoded element gives the same bytes
           /\ e.enc = e.encx                    \* and they are the bytes the independent encoder writes
InjOK(e) == Cardinality(SetOf(e.encs)) = Cardinality(SetOf(e.elems))

DecOK(e) ==
  LET lenOK == LenRule(e.fmt, e.len, e.L)
      flagsOK == e.idenc \/ FlagRule(e.fmt, e.fl)        \* the encoder's own identity string is well formed by convention
      valid == e.onc /\ (e.promise = "prime" => e.insub)
      v == Verdict([lenOK |-> lenOK, flagsOK |-> flagsOK, valid |-> valid, canon |-> e.canon])
  IN /\ ~e.panic
     /\ v = "rej" => ~e.acc
     /\ v = "acc" => e.acc
     /\ e.acc => /\ e.got # 0 /\ e.got \in SetOf(e.exps)             \* the element the bytes denote
                 /\ e.gotOnc /\ (e.promise = "prime" => e.gotInSub)  \* and what was returned is itself valid
     /\ e.canon => lenOK /\ e.red /\ e.onc                           \* the oracle's fields are coherent

XOK(e) ==
  LET c == e.pred IN
  /\ ~e.panic
  /\ CASE e.op = "affine" -> /\ e.rok <=> OnAffine(c.x, c.y)
                             /\ e.rok => e.rpt = <<c.x, c.y>> /\ e.negZero
       [] e.op = "fromc" -> LET S == IF C.kind = "edw" THEN EAt(c.x) ELSE WAt(c.x)
                            IN (e.rok <=> S # {}) /\ (e.rok => <<e.rpt[1], e.rpt[2]>> \in S)
       [] e.op = "mult" -> LET A == SM(c.k, G)
                           IN (e.rid <=> A = O) /\ e.rpt = PtJ(A) /\ e.same

Check(e) ==
  CASE e.a = "hdr" -> TRUE
    [] e.a = "curve" -> TRUE
    [] e.a = "gtmodel" -> e.genInGroup /\ e.genNotOne /\ e.lawAgrees      \* the independent F_p^12 tower is the library's group
    [] e.a = "build" -> e.ok                                              \* a valid element could not even be constructed
    [] e.a = "rt" -> RtOK(e)
    [] e.a = "inj" -> InjOK(e)
    [] e.a = "dec" -> DecOK(e)
    [] e.a = "x" -> XOK(e)
    [] OTHER -> FALSE

TInit == l = 1 /\ ph = "trace" /\ el = 0 /\ s = <<>> /\ mut = NoMut /\ out = {} /\ re = {}
TNext == l <= Len(Trace) /\ l' = l + 1 /\ UNCHANGED vars
\* the same check with every line an initial state (TLC -continue then reports every rejected line in one run)
TInitAll == l \in 1..Len(Trace) /\ ph = "trace" /\ el = 0 /\ s = <<>> /\ mut = NoMut /\ out = {} /\ re = {}
TStay == UNCHANGED <<l, ph, el, s, mut, out, re>>

CaseOK == l <= Len(Trace) => Check(Trace[l])
=============================================================================

----------------------------- MODULE ElemCodecMC -----------------------------
(* Named toy instances for ElemCodec (cfg files cannot hold records):  C <- <curve>,  F <- <format>.       *)
(* Every curve was found by exhaustive search (work/c13/findcurves.py); ElemCodec's ASSUMEs re-check the     *)
(* claims (generator on the curve, its order, group closed, composite-order points exist).                   *)
(*                                                                                                            *)
(* Configurations (checks/C13.py writes them; a few are kept next to this file).  Some of them model a         *)
(* defect of the code or a format that cannot satisfy C13 as stated, and are EXPECTED TO FAIL:                 *)
(*   P61 x Sec1c            02 || 0...0 is both the identity and the point (0, y even): E_RoundTrip,           *)
(*                          E_Injective, E_EncSem, S_Sound, S_CodeConforms (p256)    -> repair: Sec1cStrict    *)
(*   E61 / E61P x Montc     the u-only form identifies P and -P (and, on the full curve, the point of order    *)
(*                          two with the identity): E_RoundTrip, E_Injective; E61P satisfies the ModSign       *)
(*                          variants, E61 does not (curve25519, by design of RFC 7748)                         *)
(*   E61 x Montu            the encoder has no v for the point of order two (it panics): E_RoundTrip           *)
(*   B19 x Blsu             compression / sign flags ignored: S_RejectsBad (bls12381)  -> repair: BlsuStrict   *)
(*   B19 x AffineX          no membership test: S_Sound (G1.FromAffineX)               -> repair: AffineXStrict *)
(*   GT23 x Gt              any residue accepted, even 0: S_Sound (Gt.FromBytes)       -> repair: GtStrict      *)
(* Everything else must hold.                                                                                  *)
EXTENDS ElemCodec

\* secp256k1-like: y^2 = x^3 + 7 over F_61, 61 points (prime), NO point with x = 0; p just below 2^6
K61 == [kind |-> "weier", p |-> 61, a |-> 0, b |-> 7, gx |-> 2, gy |-> 25, r |-> 61, prime |-> FALSE, c |-> 0]
\* P-256-like: y^2 = x^3 - 3x + 3 over F_61, 73 points (prime), HAS the points (0, +-8)
P61 == [kind |-> "weier", p |-> 61, a |-> 58, b |-> 3, gx |-> 1, gy |-> 1, r |-> 73, prime |-> FALSE, c |-> 0]
\* Pasta-like: y^2 = x^3 + 3 over F_31, 43 points (prime), no point with x = 0; p < 2^5 leaves the top bit of 6 for the sign
PA31 == [kind |-> "weier", p |-> 31, a |-> 0, b |-> 3, gx |-> 1, gy |-> 2, r |-> 43, prime |-> FALSE, c |-> 0]
\* BLS12-381-G1-like: y^2 = x^3 + 4 over F_19, 21 = 3 * 7 points, prime subgroup of order 7, (0, +-2) of order 3
B19 == [kind |-> "weier", p |-> 19, a |-> 0, b |-> 4, gx |-> 1, gy |-> 9, r |-> 7, prime |-> TRUE, c |-> 0]
B31 == [kind |-> "weier", p |-> 31, a |-> 0, b |-> 9, gx |-> 8, gy |-> 5, r |-> 13, prime |-> TRUE, c |-> 0]
\* edwards25519-like: -x^2 + y^2 = 1 + 2 x^2 y^2 over F_61 (a = -1 a square, d = 2 a non-square: complete law),
\* 56 = 8 * 7 points, prime subgroup of order 7; Montgomery constant c = 18 (c^2 = 4 / (a - d))
E61 == [kind |-> "edw", p |-> 61, a |-> 60, b |-> 2, gx |-> 14, gy |-> 27, r |-> 7, prime |-> FALSE, c |-> 18]
E61P == [E61 EXCEPT !.prime = TRUE]
E97 == [kind |-> "edw", p |-> 97, a |-> 96, b |-> 7, gx |-> 1, gy |-> 41, r |-> 13, prime |-> FALSE, c |-> 40]
E97P == [E97 EXCEPT !.prime = TRUE]
\* GT-like: the subgroup of order 11 of F_23^*
GT23 == [kind |-> "mul", p |-> 23, a |-> 0, b |-> 0, gx |-> 2, gy |-> 0, r |-> 11, prime |-> TRUE, c |-> 0]
\* fields
F23 == [kind |-> "field", p |-> 23, a |-> 0, b |-> 0, gx |-> 0, gy |-> 0, r |-> 1, prime |-> FALSE, c |-> 0]
F29 == [kind |-> "field", p |-> 29, a |-> 0, b |-> 0, gx |-> 0, gy |-> 0, r |-> 1, prime |-> FALSE, c |-> 0]
F61 == [kind |-> "field", p |-> 61, a |-> 0, b |-> 0, gx |-> 0, gy |-> 0, r |-> 1, prime |-> FALSE, c |-> 0]

Fm(n, db, nd, v) == [name |-> n, db |-> db, nd |-> nd, variant |-> v]
Sec1c == Fm("sec1c", 3, 2, "coded")
Sec1cStrict == Fm("sec1c", 3, 2, "strict")
Sec1u == Fm("sec1u", 3, 2, "coded")
Pastac == Fm("pastac", 3, 2, "coded")
Pastau == Fm("pastau", 3, 2, "coded")
Edc == Fm("edc", 2, 4, "coded")
Edu == Fm("edu", 2, 4, "coded")
Montc == Fm("montc", 2, 4, "coded")
Montu == Fm("montu", 2, 4, "coded")
Blsc == Fm("blsc", 2, 4, "coded")
Blsu == Fm("blsu", 2, 4, "coded")
BlsuStrict == Fm("blsu", 2, 4, "strict")
Affine == Fm("affine", 1, 1, "coded")
AffineX == Fm("affinex", 1, 1, "coded")
AffineXStrict == Fm("affinex", 1, 1, "strict")
Gt == Fm("gt", 3, 2, "coded")
GtStrict == Fm("gt", 3, 2, "strict")
Fbe == Fm("fbe", 3, 2, "coded")
Fle == Fm("fle", 3, 2, "coded")
FbeTop == Fm("fbetop", 3, 2, "coded")
Fwide == Fm("fwide", 3, 2, "coded")
Fbered == Fm("fbered", 3, 2, "coded")
=============================================================================

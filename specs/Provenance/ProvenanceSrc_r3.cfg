CONSTANTS
  Parties = {1, 2}
  Rounds = 3
  Sources = {"own", "ambient", "const", "peer", "none"}
SPECIFICATION Spec
INVARIANTS Sound Complete AmbientCaught ConstCaught PeerCaught
CHECK_DEADLOCK FALSE

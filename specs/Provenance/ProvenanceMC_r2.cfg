CONSTANTS
  Parties = {1, 2, 3}
  Rounds = 3
  Alt = 2
  RandomizedFrom <- RF2
SPECIFICATION Spec
INVARIANTS OthersFirstRoundEqual AltMessagesDiffer JointDiffers NoEarlyInfluence
CHECK_DEADLOCK FALSE

---------------------------- MODULE ProvenanceMC ----------------------------
EXTENDS Provenance
RF1 == [i \in Parties |-> 1]
RF2 == [i \in Parties |-> IF i = Alt THEN 2 ELSE 1]
=============================================================================

-------------------------- MODULE ProvenanceTrace --------------------------
(* Validates the paired runs recorded by harness/cmd/tworun (real participants *)
(* on the toy group in 61-bit mode; every message leaf, output, and the group   *)
(* elements of every scalar-sized stream chunk as tokens) against the two-run   *)
(* relation of Provenance.tla, instantiated per protocol by the leaf tables.    *)
EXTENDS Integers, Sequences, FiniteSets, TLC, Json

Trace == ndJsonDeserialize("trace.ndjson")
VARIABLE l
K(i) == ToString(i)
SeqSet(s) == {s[i] : i \in 1..Len(s)}

\* leaves that carry structure or public epoch data, not randomness of the sender
Structural(c) == c \in {
  "/verificationVector/verification_vector/rows", "/verificationVector/verification_vector/cols",
  "/ZeroR1/verificationVector/verification_vector/rows", "/ZeroR1/verificationVector/verification_vector/cols",
  "/zeroR1/verificationVector/verification_vector/rows", "/zeroR1/verificationVector/verification_vector/cols",
  "/NextVerificationVectorContribution/verification_vector/rows", "/NextVerificationVectorContribution/verification_vector/cols",
  "/ZeroVerificationVector/verification_vector/rows", "/ZeroVerificationVector/verification_vector/cols",
  "/PrevVerificationVector/verification_vector/rows", "/PrevVerificationVector/verification_vector/cols",
  "/PrevVerificationVector/verification_vector/data[]",
  "/PrevMSP/Matrix/rows", "/PrevMSP/Matrix/cols", "/PrevMSP/Matrix/data[]",
  "/PrevMSP/RowsToHolders/0", "/PrevMSP/RowsToHolders/1", "/PrevMSP/RowsToHolders/2", "/PrevMSP/RowsToHolders/3",
  "/zeroShare/id", "/ZeroR1/zeroShare/id", "/zeroR1/zeroShare/id", "/NextShareContribution/id", "/Share/id", "/share/sharingID",
  "/Message/SessionID", "/Message/SharingID", "/Message/X/verification_vector/rows", "/Message/X/verification_vector/cols" }
\* verification vectors of zero sharings: entry 0 is the identity by construction
ZeroVV(c) == c \in {"/verificationVector/verification_vector/data[]", "/ZeroR1/verificationVector/verification_vector/data[]",
                    "/zeroR1/verificationVector/verification_vector/data[]", "/ZeroVerificationVector/verification_vector/data[]"}
IsZeroSharing(proto, c) == ZeroVV(c) /\ (proto \in {"hjky", "redist", "redistAnchor", "redistNew", "lindell22"})
RandomLeaf(proto, lf) == ~Structural(lf.c) /\ ~(IsZeroSharing(proto, lf.c) /\ lf.i = 0)

\* leaves that are g^s for a scalar s the sender drew from its reader (dealing / zero columns, nonce commitment)
DirectDraw(proto, lf) ==
  \/ proto = "hjky" /\ lf.c = "/verificationVector/verification_vector/data[]" /\ lf.i >= 1
  \/ proto \in {"redist", "redistAnchor", "redistNew"} /\ lf.c = "/ZeroR1/verificationVector/verification_vector/data[]" /\ lf.i >= 1
  \/ proto \in {"redist", "redistAnchor", "redistNew"} /\ lf.c = "/NextVerificationVectorContribution/verification_vector/data[]" /\ lf.i >= 1
  \/ proto = "gennaro" /\ lf.r = 2 /\ lf.c = "/verificationVector/verification_vector/data[]"
  \/ proto = "canetti" /\ lf.c = "/Message/X/verification_vector/data[]"
  \/ proto = "lindell22" /\ lf.c = "/zeroR1/verificationVector/verification_vector/data[]" /\ lf.i >= 1
  \/ proto = "lindell22" /\ lf.c = "/bigR/x"
  \/ proto = "ecbbot" /\ lf.c = "/ms"                  \* the sender's key share g^a
  \/ proto = "rvole" /\ lf.c = "/OtR1/ms"

\* the sub-proofs of an AND composition (Gennaro round 1: one Okamoto proof per coefficient) are produced by goroutines that
\* draw their commitment randomness from the party's single reader in scheduler order, so WHICH chunk lands in which
\* sub-proof is not a function of the stream; only these leaves are exempt from the run-to-run equality demands
SchedulerOrdered(proto, lf) == proto = "gennaro" /\ lf.r = 1 /\ lf.c \in {"/proof!/A[]/a", "/proof!/E", "/proof!/Z[]/z/components[]"}

SameKey(a, b) == a.r = b.r /\ a.f = b.f /\ a.t = b.t /\ a.k = b.k /\ a.c = b.c /\ a.i = b.i
SameShape(LA, LB) == Len(LA) = Len(LB) /\ \A n \in 1..Len(LA) : SameKey(LA[n], LB[n])

AnyOf(o) == o.by[CHOOSE k \in DOMAIN o.by : TRUE]
\* the value that is meant to be random changes; the value that is meant to be kept does not
JointChange(proto, p, A, B) ==
  \* the session identifier changes, and so does everything derived under a sub-quorum {1,2} (pairwise seed, zero share): a
  \* sub-context must inherit the randomness of the session, whichever of the three parties' streams was replaced
  CASE proto = "session" -> /\ AnyOf(A).sid # AnyOf(B).sid
                            /\ \A k \in DOMAIN A.by : \A f \in DOMAIN A.by[k].sub : A.by[k].sub[f] # B.by[k].sub[f]
                            /\ \E k \in DOMAIN A.by : DOMAIN A.by[k].sub # {}
    [] proto = "hjky" -> AnyOf(A).vv # AnyOf(B).vv
    [] proto \in {"redist", "redistAnchor", "redistNew"} -> AnyOf(A).pk = AnyOf(B).pk /\ AnyOf(A).vv # AnyOf(B).vv
    [] proto \in {"gennaro", "canetti"} -> AnyOf(A).pk # AnyOf(B).pk
    [] proto = "lindell22" -> A.pk = B.pk /\ AnyOf(A).R # AnyOf(B).R
    \* oblivious transfer: the choices are inputs (kept), every pad of every instance changes with either party's stream
    [] proto = "ecbbot" -> /\ A.choices = B.choices
                           /\ \A i \in 1..Len(A.s0) : A.s0[i] # B.s0[i] /\ A.s1[i] # B.s1[i] /\ A.recv[i] # B.recv[i]
    \* random VOLE: Alice's input is kept, both output shares change; Bob's input is sampled from Bob's stream
    [] proto = "rvole" -> /\ A.a = B.a /\ A.c # B.c /\ A.d # B.d
                          /\ (p = 1 => A.b = B.b) /\ (p = 2 => A.b # B.b)
    [] OTHER -> FALSE
\* endemic OT, receiver side: for every instance and block the message of the branch that was NOT chosen is a group element
\* g^s sampled directly (the chosen one is g^a / H(...)): leaves phi[instance][branch][block] in encoding order
PhiDraws(e) ==
  e.proto = "ecbbot" =>
    LET P == SelectSeq(e.LB, LAMBDA lf : lf.c = "/phi[][][]")
        n == Len(e.outB.choices)
        L == Len(P) \div (2 * n)
    IN /\ Len(P) = 2 * n * L /\ L >= 1
       /\ \A k \in 1..Len(P) :
            LET inst == (k - 1) \div (2 * L)
                br == ((k - 1) \div L) % 2
            IN br = 1 - e.outB.choices[inst + 1] => P[k].v \in SeqSet(e.drawnB[K(P[k].f)])
Total(c) == LET RECURSIVE S(_)
                S(D) == IF D = {} THEN 0 ELSE LET k == CHOOSE k \in D : TRUE IN c[k] + S(D \ {k})
            IN S(DOMAIN c)

CmpOK(e) ==
  /\ e.okB
  /\ IF e.what = "determinism"
     THEN /\ SameShape(e.LA, e.LB) /\ e.outA = e.outB /\ e.consumedA = e.consumedB   \* same streams: same run, bit for bit
          /\ \A n \in 1..Len(e.LA) : ~SchedulerOrdered(e.proto, e.LA[n]) => e.LA[n].v = e.LB[n].v
     ELSE IF K(e.p) \notin DOMAIN e.consumedA \/ Total(e.consumedA[K(e.p)]) = 0
     THEN e.LA = e.LB /\ e.outA = e.outB                                        \* a party that samples nothing cannot influence anything
     ELSE /\ SameShape(e.LA, e.LB)
          /\ \A n \in 1..Len(e.LA) :
               LET a == e.LA[n]  b == e.LB[n] IN
               /\ (a.f # e.p /\ a.r = 1 /\ ~SchedulerOrdered(e.proto, a)) => a.v = b.v   \* not influenced before it can be
               /\ (a.f = e.p /\ RandomLeaf(e.proto, a)) => a.v # b.v           \* the party's randomised values change
          /\ JointChange(e.proto, e.p, e.outA, e.outB)
  \* every party consumes its own stream, and the sampled public values are g^s for chunks s of the sender's stream
  /\ \A i \in SeqSet(e.parties) : (K(i) \in DOMAIN e.consumedB /\ (e.proto \notin {"redist", "redistAnchor", "redistNew"})) => Total(e.consumedB[K(i)]) > 0
  /\ \A n \in 1..Len(e.LB) : DirectDraw(e.proto, e.LB[n]) => e.LB[n].v \in SeqSet(e.drawnB[K(e.LB[n].f)])
  /\ PhiDraws(e)

\* fault mode: one transient failure of the party's own reader at one position.  The party was sampling (the faulted Read call
\* is one it made); it must abort - completing would mean it went on with a value its source never delivered - and must not
\* crash or hang.  A fault that hits a constructor makes the scenario builder refuse (built = FALSE), which is an abort too.
FaultOK(e) == (e.built /\ e.delivered) => (~e.pCompleted /\ e.pRejected /\ ~e.panic /\ ~e.timeout)
Check(e) == CASE e.a = "hdr" -> TRUE [] e.a = "cmp" -> CmpOK(e) [] e.a = "fault" -> FaultOK(e) [] OTHER -> FALSE
Init == l = 1
Next == l <= Len(Trace) /\ l' = l + 1
CaseOK == l <= Len(Trace) => Check(Trace[l])
=============================================================================

--------------------------- MODULE ProvenanceSrc ---------------------------
(* Why the relation that ProvenanceTrace demands of paired real runs decides  *)
(* property C07.  Same symbolic round model as Provenance.tla, but every       *)
(* sampling site (party i, round k) has a SOURCE chosen nondeterministically:  *)
(*   "own"     the reader the caller supplied to party i (what C07 demands)    *)
(*   "ambient" a hidden process-wide source (crypto/rand, a package-level      *)
(*             PRNG): fresh in every run, invisible to the recording reader    *)
(*   "const"   no randomness at all (a fixed or derived-from-public value)     *)
(*   "peer"    another party's stream (a shared reader, a leaked seed)         *)
(*   "none"    the site does not sample                                        *)
(* Three runs are explored together: A (base streams), C (the same streams     *)
(* again) and B (only party Alt's stream replaced).  TLC checks, for EVERY     *)
(* assignment of sources and every Alt:                                        *)
(*   Sound     all sites "own"/"none"  =>  the relation holds (no false alarm) *)
(*   Complete  some site of party p is not "own"  =>  with Alt = p (or, for    *)
(*             "peer", Alt = the peer) one clause of the relation fails        *)
(* The clauses are exactly those of ProvenanceTrace.CmpOK: Determinism (A = C),*)
(* OwnChange (a sampling message of Alt differs between A and B), NoEarly      *)
(* (others' messages are equal until Alt's randomness can have reached them),  *)
(* DirectDraw (a sampled value is a function of a chunk its sender's own       *)
(* reader handed out) and Consumes (a sampling party reads its own reader).    *)
EXTENDS Integers, Sequences, FiniteSets, TLC

CONSTANTS Parties, Rounds, Sources
VARIABLES round, src, alt, vA, vB, vC, sent      \* sent: per run, the messages of every round (history for the clauses)
vars == <<round, src, alt, vA, vB, vC, sent>>

Peer(i) == CHOOSE j \in Parties : j # i /\ \A k \in Parties \ {i} : j <= k     \* the party whose stream a "peer" site reads
Stream(run, i) == IF run = "B" /\ i = alt THEN <<"stream", i, "alt">> ELSE <<"stream", i>>
\* the random value drawn at site (i, k) in a run
Draw(run, i, k) ==
  CASE src[i][k] = "own"     -> <<"chunk", Stream(run, i), k>>
    [] src[i][k] = "peer"    -> <<"chunk", Stream(run, Peer(i)), k, "via", i>>
    [] src[i][k] = "ambient" -> <<"ambient", run, i, k>>
    [] src[i][k] = "const"   -> <<"const">>
    [] OTHER                 -> <<"nothing">>
Samples(i, k) == src[i][k] # "none"
\* the message is an injective function of what was drawn so far and what was received
Msg(run, view, i, k) == [from |-> i, r |-> k, drawn |-> [j \in 1..k |-> Draw(run, i, j)], seen |-> view[i]]
\* the chunks the recording reader of party i handed out up to round k (own-stream reads only; nobody else reads it unless "peer")
Recorded(run, i, k) == {<<"chunk", Stream(run, i), j>> : j \in {j \in 1..k : src[i][j] = "own"}}
                        \cup {<<"chunk", Stream(run, i), jp[1], "via", jp[2]>> :
                                 jp \in {jp \in (1..k) \X Parties : Peer(jp[2]) = i /\ src[jp[2]][jp[1]] = "peer"}}

Init == /\ round = 1
        /\ src \in [Parties -> [1..Rounds -> Sources]]
        /\ alt \in Parties
        /\ vA = [i \in Parties |-> <<>>] /\ vB = vA /\ vC = vA
        /\ sent = [A |-> <<>>, B |-> <<>>, C |-> <<>>]
Step == /\ round <= Rounds
        /\ LET mA == [i \in Parties |-> Msg("A", vA, i, round)]
               mB == [i \in Parties |-> Msg("B", vB, i, round)]
               mC == [i \in Parties |-> Msg("C", vC, i, round)]
           IN /\ vA' = [i \in Parties |-> Append(vA[i], [j \in Parties \ {i} |-> mA[j]])]
              /\ vB' = [i \in Parties |-> Append(vB[i], [j \in Parties \ {i} |-> mB[j]])]
              /\ vC' = [i \in Parties |-> Append(vC[i], [j \in Parties \ {i} |-> mC[j]])]
              /\ sent' = [A |-> Append(sent.A, mA), B |-> Append(sent.B, mB), C |-> Append(sent.C, mC)]
        /\ round' = round + 1 /\ UNCHANGED <<src, alt>>
Next == Step \/ (round > Rounds /\ UNCHANGED vars)
Spec == Init /\ [][Next]_vars

Done == round > Rounds
\* ---- the clauses of the two-run relation (ProvenanceTrace.CmpOK), on the recorded messages ----
FirstSample(i) == IF \E k \in 1..Rounds : Samples(i, k) THEN CHOOSE k \in 1..Rounds : Samples(i, k) /\ \A j \in 1..(k - 1) : ~Samples(i, j) ELSE Rounds + 1
Determinism == \A k \in 1..Rounds : sent.A[k] = sent.C[k]
OwnChange == \A k \in 1..Rounds : Samples(alt, k) => sent.A[k][alt].drawn[k] # sent.B[k][alt].drawn[k]
NoEarly == \A k \in 1..Rounds : \A i \in Parties \ {alt} : k <= FirstSample(alt) => sent.A[k][i] = sent.B[k][i]
DirectDraw == \A k \in 1..Rounds : \A i \in Parties : Samples(i, k) => sent.B[k][i].drawn[k] \in Recorded("B", i, k)
Consumes == \A i \in Parties : (\E k \in 1..Rounds : Samples(i, k)) => Recorded("B", i, Rounds) # {}
Relation == Determinism /\ OwnChange /\ NoEarly /\ DirectDraw /\ Consumes

\* ---- what C07 demands of the code, stated on the sources ----
GoodSite(i, k) == src[i][k] \in {"own", "none"}
Good == \A i \in Parties : \A k \in 1..Rounds : GoodSite(i, k)

Sound == (Done /\ Good) => Relation
\* a bad site of party p is exposed when p itself is the altered party (ambient: Determinism or DirectDraw; const: OwnChange;
\* peer: DirectDraw, the drawn chunk is not one p's own reader handed out)
Complete == (Done /\ \E k \in 1..Rounds : ~GoodSite(alt, k)) => ~Relation
\* finer: which clause catches which kind of slip (documentation that TLC checks)
AmbientCaught == (Done /\ \E i \in Parties : \E k \in 1..Rounds : src[i][k] = "ambient") => ~Determinism /\ ~DirectDraw
ConstCaught == (Done /\ \E k \in 1..Rounds : src[alt][k] = "const") => ~OwnChange
PeerCaught == (Done /\ \E i \in Parties : \E k \in 1..Rounds : src[i][k] = "peer") => ~DirectDraw
=============================================================================

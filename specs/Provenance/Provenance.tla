----------------------------- MODULE Provenance -----------------------------
(* Where protocol values come from (property C07), as a symbolic model of a    *)
(* round-based protocol: party i owns a random stream; its round-k message is  *)
(* an injective function of (i, k, the stream prefix it has consumed, what it  *)
(* received in earlier rounds); the joint output is an injective function of   *)
(* all final views. Two runs are explored together: streams equal except party *)
(* Alt's. TLC checks the two-run relation the trace specification then         *)
(* demands of the real code.                                                   *)
EXTENDS Integers, Sequences, FiniteSets

CONSTANTS Parties, Rounds, Alt, RandomizedFrom      \* RandomizedFrom[i] = first round in which i consumes randomness
VARIABLES round, viewA, viewB
vars == <<round, viewA, viewB>>

Stream(run, i) == IF run = "B" /\ i = Alt THEN <<"stream", i, "alt">> ELSE <<"stream", i>>
\* what i has consumed of its stream by round k (nothing before RandomizedFrom[i])
Consumed(run, i, k) == IF k >= RandomizedFrom[i] THEN <<Stream(run, i), k>> ELSE <<"nothing">>
Msg(run, view, i, k) == <<"msg", i, k, Consumed(run, i, k), view[i]>>

Init == /\ round = 1
        /\ viewA = [i \in Parties |-> <<>>]
        /\ viewB = [i \in Parties |-> <<>>]
Step == /\ round <= Rounds
        /\ viewA' = [i \in Parties |-> Append(viewA[i], [j \in Parties \ {i} |-> Msg("A", viewA, j, round)])]
        /\ viewB' = [i \in Parties |-> Append(viewB[i], [j \in Parties \ {i} |-> Msg("B", viewB, j, round)])]
        /\ round' = round + 1
Next == Step \/ (round > Rounds /\ UNCHANGED vars)
Spec == Init /\ [][Next]_vars

\* messages of the round about to be sent
OutA(i) == Msg("A", viewA, i, round)
OutB(i) == Msg("B", viewB, i, round)
\* 1. a party other than Alt sends the same first-round message in both runs
OthersFirstRoundEqual == round = 1 => \A i \in Parties \ {Alt} : OutA(i) = OutB(i)
\* 2. from its first randomized round on, every message of Alt differs
AltMessagesDiffer == (round <= Rounds /\ round >= RandomizedFrom[Alt]) => OutA(Alt) # OutB(Alt)
\* 3. the joint output (any injective function of all final views and streams) differs
Joint(run, view) == [i \in Parties |-> <<view[i], Consumed(run, i, Rounds)>>]
JointDiffers == round > Rounds => Joint("A", viewA) # Joint("B", viewB)
\* 4. once Alt's randomness has reached a party, that party's later messages may differ, never before
NoEarlyInfluence == \A i \in Parties \ {Alt} : round <= RandomizedFrom[Alt] => OutA(i) = OutB(i)
=============================================================================

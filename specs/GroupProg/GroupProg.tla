------------------------------ MODULE GroupProg ------------------------------
(* C14  Curve, field and pairing arithmetic equal the mathematical operations (device W).      *)
(*                                                                                              *)
(* A cyclic group of (unknown, large) order n is modelled by the discrete logarithms of its     *)
(* elements w.r.t. the generator: a register holds an integer v and stands for [v]G.  The       *)
(* values stay inside a small window |v| <= W, far below n/2, so integer equality IS group      *)
(* equality and nothing is ever reduced; the two facts about n that the code must get right are *)
(* explicit scalar constants: (n - 1) = -1 and n = 0 (built through the scalar field's wide     *)
(* reduction in the real code).                                                                 *)
(*                                                                                              *)
(* Register programmes: three registers, the public API is functional (an operation returns a   *)
(* new element), so a step pushes its result: <<r1, r2, r3>> becomes <<r2, r3, result>>.  Each   *)
(* register also remembers which operation produced it (its representation class: a fresh       *)
(* affine element, the output of Add, of Double, ...), because the real formulas are evaluated  *)
(* on projective / extended coordinates and the exceptional cases (identity, equal or opposite  *)
(* operands) must hold for every representation.  Initial values {0, 1, -1, 2, -2, K} force     *)
(* identity, equal and opposite operands through every operation.                               *)
(* TLC explores every state within MaxOps steps and prints every transition (programme step     *)
(* with predicted result) as JSON; harness/cmd/groupprog replays them on every public curve      *)
(* type and GroupProgTrace re-decides each replayed step from the definitions below.            *)
(* Second family: pairing programmes  e([a]G1, [b]G2) = e(G1, G2)^(a b).                        *)
EXTENDS Integers, Sequences, SequencesExt, FiniteSets, TLC, Json

CONSTANTS K,          \* the "generic" initial value
          W,          \* window bound on |value|
          Menus,      \* sequence of menu sizes ("full" | "small"), one per programme step; its length is the programme length
          Inits,      \* "full": initial values {0, 1, -1, 2, -2, K}; "mid": {0, 1, -1, 2, K}; "small": {0, 1, -1, K}
          Family      \* "group" | "pair"
MaxOps == Len(Menus)
MenusFS == <<"full", "small">>
MenusFF == <<"full", "full">>
MenusFSS == <<"full", "small", "small">>
MenusF == <<"full">>

(* ------------------------------ scalars ------------------------------ *)
\* symbolic scalar constants and the integer they stand for modulo the group order
ScalarVal(c) == CASE c = "z0" -> 0 [] c = "one" -> 1 [] c = "two" -> 2 [] c = "three" -> 3
                  [] c = "m1" -> -1 [] c = "m2" -> -2          \* (order - 1), (order - 2) by negation in the field
                  [] c = "ordw" -> 0 [] c = "om1w" -> -1       \* order, order - 1 through the wide reduction
                  [] c = "op2w" -> 2 [] c = "kk" -> K
Scalars == {"z0", "one", "two", "three", "m1", "m2", "ordw", "om1w", "op2w", "kk"}

(* ------------------------------ operations on logs ------------------------------ *)
Abs(v) == IF v < 0 THEN -v ELSE v
\* terms: sequence of <<scalar constant, register index>>  (a fold, not a recursion: the long family has thousands of terms)
MsmVal(regs, terms) == FoldLeft(LAMBDA acc, t : acc + ScalarVal(t[1]) * regs[t[2]].v, 0, terms)
\* value of an operation on the register file (all of them are what the mathematical group does to logarithms)
OpValue(regs, op, args) ==
  CASE op = "add" -> regs[args[1]].v + regs[args[2]].v
    [] op = "sub" -> regs[args[1]].v - regs[args[2]].v
    [] op = "dbl" -> 2 * regs[args[1]].v
    [] op = "neg" -> 0 - regs[args[1]].v
    [] op = "smul" -> ScalarVal(args[2]) * regs[args[1]].v          \* Point.ScalarMul
    [] op = "sbase" -> ScalarVal(args[1])                           \* Curve.ScalarBaseMul
    [] op \in {"msm", "msmu"} -> MsmVal(regs, args)                 \* Curve.MultiScalarMul / algebrautils.MultiScalarMul
OpPred(regs, op, args) ==
  CASE op = "eq" -> regs[args[1]].v = regs[args[2]].v
    [] op = "isid" -> regs[args[1]].v = 0
Push(regs, v, t) == <<regs[2], regs[3], [v |-> v, t |-> t]>>
ValueOps == {"add", "sub", "dbl", "neg", "smul", "sbase", "msm", "msmu"}
PredOps == {"eq", "isid"}

(* ------------------------------ the programme machine ------------------------------ *)
VARIABLES regs, step, g1, g2, gt
vars == <<regs, step, g1, g2, gt>>

InitVals == CASE Inits = "full" -> {0, 1, -1, 2, -2, K} [] Inits = "mid" -> {0, 1, -1, 2, K} [] Inits = "small" -> {0, 1, -1, K}
R3 == 1..3
\* The menu of a step: (op, args).  Scalar multiplications dominate the cost of a replay (a full-length ladder each),
\* so the multi-scalar shapes are a fixed selection: every length 1..3, 8 and 9 (the windowed path starts at 8 terms),
\* repeated registers, zero / order / order-1 scalars, cancelling pairs.
Long9 == <<<<"one", 1>>, <<"m1", 2>>, <<"two", 3>>, <<"three", 1>>, <<"m2", 2>>, <<"kk", 3>>, <<"om1w", 1>>, <<"ordw", 2>>, <<"op2w", 3>>>>
Long8 == <<<<"two", 3>>, <<"m1", 3>>, <<"m1", 3>>, <<"one", 1>>, <<"one", 2>>, <<"z0", 1>>, <<"m2", 2>>, <<"kk", 1>>>>
MsmShapes == {<<<<s, a>>>> : s \in {"one", "m1", "ordw", "z0"}, a \in {1, 3}}
               \cup {<<<<"one", 1>>, <<"m1", 3>>>>, <<<<"two", 2>>, <<"one", 3>>>>, <<<<"one", 3>>, <<"om1w", 3>>>>, <<<<"m1", 1>>, <<"m1", 2>>>>,
                     <<<<"kk", 2>>, <<"two", 2>>>>, <<<<"z0", 1>>, <<"one", 2>>>>}
               \cup {<<<<"one", 1>>, <<"one", 2>>, <<"m1", 3>>>>, <<<<"two", 3>>, <<"m1", 3>>, <<"m1", 3>>>>, Long8, Long9}
FullMenu ==
  {<<"add", <<a, b>>>> : a \in R3, b \in R3} \cup {<<"sub", <<a, b>>>> : a \in R3, b \in R3}
    \cup {<<"dbl", <<a>>>> : a \in R3} \cup {<<"neg", <<a>>>> : a \in R3}
    \cup {<<"smul", <<a, s>>>> : a \in R3, s \in Scalars}
    \cup {<<"sbase", <<s>>>> : s \in Scalars}
    \cup {<<m, t>> : m \in {"msm", "msmu"}, t \in MsmShapes}
    \cup {<<"eq", <<a, b>>>> : a \in R3, b \in R3} \cup {<<"isid", <<a>>>> : a \in R3}
SmallMenu ==
  {<<"add", <<a, b>>>> : a \in R3, b \in R3} \cup {<<"sub", <<a, b>>>> : a \in R3, b \in R3}
    \cup {<<"dbl", <<a>>>> : a \in R3} \cup {<<"neg", <<a>>>> : a \in R3}
    \cup {<<"smul", <<a, s>>>> : a \in {1, 3}, s \in {"m1", "two"}}
    \cup {<<"msm", <<<<"one", 1>>, <<"m1", 3>>>>>>, <<"msmu", <<<<"two", 2>>, <<"one", 3>>>>>>}
    \cup {<<"eq", <<a, b>>>> : a \in R3, b \in R3} \cup {<<"isid", <<a>>>> : a \in R3}
Menu(size) == IF size = "full" THEN FullMenu ELSE SmallMenu

Fresh(v) == [v |-> v, t |-> "f"]
InitG == /\ Family = "group"
         /\ regs \in {<<Fresh(a), Fresh(b), Fresh(c)>> : a \in InitVals, b \in InitVals, c \in InitVals}
         /\ step = 0 /\ g1 = <<>> /\ g2 = <<>> /\ gt = <<>>

Emit(rec) == PrintT(ToJson(rec))

StepG(op, args) ==
  /\ step < MaxOps
  /\ IF op \in PredOps
     THEN /\ Emit([d |-> step, pre |-> regs, op |-> op, args |-> args, res |-> OpPred(regs, op, args)])
          /\ UNCHANGED vars
     ELSE LET v == OpValue(regs, op, args) IN
          /\ Abs(v) <= W
          /\ Emit([d |-> step, pre |-> regs, op |-> op, args |-> args, post |-> v])
          /\ regs' = Push(regs, v, op)
          /\ step' = step + 1
          /\ UNCHANGED <<g1, g2, gt>>

NextG == step < MaxOps /\ \E oa \in Menu(Menus[step + 1]) : StepG(oa[1], oa[2])

(* ------------------------------ pairing programmes ------------------------------ *)
\* g1, g2: two registers each of the source groups, gt: two registers of the target group (logs w.r.t. e(G1, G2)).
\* The library's pairing engine refuses the identity in either argument (an error, not the value 1): modelled as ok = FALSE.
PairOK(a, b) == a # 0 /\ b # 0
PairW == 1024                \* window of the target group's reference table (harness/cmd/groupprog/pair.go: gtWindow)
RECURSIVE PairSum(_, _, _, _)
PairSum(xs, ys, pairs, sign) == IF Len(pairs) = 0 THEN 0
                                ELSE sign * xs[pairs[1][1]] * ys[pairs[1][2]] + PairSum(xs, ys, Tail(pairs), sign)
PairsOK(xs, ys, pairs) == \A i \in 1..Len(pairs) : PairOK(xs[pairs[i][1]], ys[pairs[i][2]])
IJ == {<<i, j>> : i \in 1..2, j \in 1..2}
PairMenu == {<<"pair", <<p>>>> : p \in IJ}                            \* P1.Pair(P2)
              \cup {<<"mpair", <<p>>>> : p \in IJ} \cup {<<"mpair", <<p, q>>>> : p \in IJ, q \in IJ}     \* MultiPair
              \cup {<<"mpairinv", <<p>>>> : p \in IJ} \cup {<<"mpairinv", <<p, q>>>> : p \in {<<1, 1>>, <<2, 1>>}, q \in IJ}   \* MultiPairAndInvertDuals
              \cup {<<"mpair", <<>>>>}
              \cup {<<"mpair", <<<<1, 1>>, <<1, 2>>, <<2, 1>>>>>>, <<"mpair", <<<<1, 1>>, <<2, 2>>, <<1, 1>>>>>>}
GtMenu == {<<"gmul", <<1, 2>>>>, <<"gmul", <<2, 2>>>>, <<"gdiv", <<1, 2>>>>, <<"ginv", <<2>>>>, <<"gsq", <<2>>>>, <<"geq", <<1, 2>>>>, <<"gisid", <<2>>>>}
GtValue(op, args) == CASE op = "gmul" -> gt[args[1]] + gt[args[2]] [] op = "gdiv" -> gt[args[1]] - gt[args[2]]
                       [] op = "ginv" -> 0 - gt[args[1]] [] op = "gsq" -> 2 * gt[args[1]]
PairInits1 == {<<1, 0>>, <<-1, 2>>, <<K, 1>>, <<2, 2>>}
PairInits2 == {<<1, 0>>, <<-1, 2>>, <<K, 1>>, <<2, -1>>}
LaterPairMenu == {<<"pair", <<<<2, 2>>>>>>, <<"mpair", <<<<1, 1>>, <<2, 2>>>>>>}
InitP == /\ Family = "pair"
         /\ g1 \in PairInits1 /\ g2 \in PairInits2
         /\ gt = <<0, 0>> /\ step = 0 /\ regs = <<>>
StepP(op, args) ==
  /\ step < MaxOps
  /\ LET ok == PairsOK(g1, g2, args)
         v == PairSum(g1, g2, args, IF op = "mpairinv" THEN -1 ELSE 1)
     IN /\ ok => Abs(v) <= PairW
        /\ Emit([d |-> step, g1 |-> g1, g2 |-> g2, gt |-> gt, op |-> op, args |-> args, ok |-> ok, post |-> IF ok THEN v ELSE 0])
        /\ IF ok THEN gt' = <<gt[2], v>> /\ step' = step + 1 ELSE UNCHANGED <<gt, step>>
  /\ UNCHANGED <<regs, g1, g2>>
StepT(op, args) ==
  /\ step < MaxOps /\ step > 0
  /\ IF op \in {"geq", "gisid"}
     THEN /\ Emit([d |-> step, g1 |-> g1, g2 |-> g2, gt |-> gt, op |-> op, args |-> args,
                   res |-> IF op = "geq" THEN gt[args[1]] = gt[args[2]] ELSE gt[args[1]] = 0])
          /\ UNCHANGED vars
     ELSE LET v == GtValue(op, args) IN
          /\ Abs(v) <= PairW
          /\ Emit([d |-> step, g1 |-> g1, g2 |-> g2, gt |-> gt, op |-> op, args |-> args, post |-> v])
          /\ gt' = <<gt[2], v>> /\ step' = step + 1 /\ UNCHANGED <<regs, g1, g2>>
NextP == \/ \E oa \in (IF step = 0 THEN PairMenu ELSE LaterPairMenu) : StepP(oa[1], oa[2])
         \/ \E oa \in GtMenu : StepT(oa[1], oa[2])

(* ------------------------------ long multi-scalar multiplications ------------------------------ *)
\* The windowed (bucket) multi-scalar multiplication picks its window width from the NUMBER of terms, so every width is its own code
\* path: lengths 2^k - 1, 2^k, 2^k + 1 for k = 4..12.  Terms cycle through fourteen scalar constants (full-width ones included:
\* order - 1, order - 2, the wide reductions) and the three registers; the registers sum to zero, so every full period of 42 terms
\* cancels and the value stays inside the window - integer equality remains group equality.
LongNs == UNION {{2^k - 1, 2^k, 2^k + 1} : k \in 4..12}
LongNsGeneric == {n \in LongNs : n <= 129}            \* algebrautils.MultiScalarMul is a plain sum of scalar multiplications
SCyc == <<"m1", "one", "m2", "two", "om1w", "one", "kk", "m1", "three", "m2", "z0", "ordw", "op2w", "m2">>
LongTerms(n) == [i \in 1..n |-> <<SCyc[((i - 1) % Len(SCyc)) + 1], ((i - 1) % 3) + 1>>]
InitL == /\ Family = "long"
         /\ regs \in {<<Fresh(a), Fresh(b), Fresh(0 - a - b)>> : a \in {1, K}, b \in {-1, 2, K}}
         /\ step = 0 /\ g1 = <<>> /\ g2 = <<>> /\ gt = <<>>
NextL == /\ step = 0
         /\ \/ \E n \in LongNs : StepG("msm", LongTerms(n))
            \/ \E n \in LongNsGeneric : StepG("msmu", LongTerms(n))

Init == CASE Family = "group" -> InitG [] Family = "long" -> InitL [] OTHER -> InitP
Next == CASE Family = "group" -> NextG [] Family = "long" -> NextL [] OTHER -> NextP

(* ------------------------------ what TLC checks on the model itself ------------------------------ *)
InWindow == IF Family \in {"group", "long"} THEN \A i \in 1..3 : Abs(regs[i].v) <= W ELSE \A i \in 1..2 : Abs(gt[i]) <= W
\* laws the definitions must satisfy (evaluated on every reachable register file)
Laws == Family = "group" =>
          \A a \in R3, b \in R3 :
             /\ OpValue(regs, "sub", <<a, b>>) = OpValue(regs, "msm", <<<<"one", a>>, <<"m1", b>>>>)
             /\ OpValue(regs, "dbl", <<a>>) = OpValue(regs, "add", <<a, a>>)
             /\ OpValue(regs, "smul", <<a, "om1w">>) = OpValue(regs, "neg", <<a>>)
             /\ OpValue(regs, "smul", <<a, "ordw">>) = 0
             /\ OpPred(regs, "eq", <<a, b>>) <=> OpValue(regs, "sub", <<a, b>>) = 0
\* the design fact the long family rests on: a full period of 42 terms over registers that sum to zero contributes nothing
LongLaw == Family = "long" /\ step = 0 => MsmVal(regs, LongTerms(42)) = 0 /\ MsmVal(regs, LongTerms(84)) = 0
=============================================================================

CONSTANTS
  K = 5
  W = 4096
  Menus <- MenusF
  Inits = "full"
  Family = "trace"
INIT TInit
NEXT TNext
INVARIANT CaseOK
CHECK_DEADLOCK FALSE

--------------------------- MODULE GroupProgTrace ---------------------------
(* Validates the replay of the TLC-generated register programmes on the real curve types (driver            *)
(* harness/cmd/groupprog): every line is one programme step with the integers the real registers project to  *)
(* (through the cross-checked reference table) on every curve; CaseOK re-decides the step from the GroupProg  *)
(* definitions and demands exact equality of every register after the step, on every curve.  Also: the       *)
(* reference-table cross-checks, the pairing programmes and small-window field arithmetic.                    *)
EXTENDS GroupProg

Trace == ndJsonDeserialize("trace.ndjson")
Hdr == Trace[1]
NC == Len(Hdr.curves)

VARIABLE l

Has(e, f) == f \in DOMAIN e
Sentinel == 1073741824
RegsOf(pre) == [i \in 1..3 |-> [v |-> pre[i], t |-> "x"]]
\* a curve may leave a step out only if the operation (or one on the way to this register file) is not in its API,
\* or if it replays a declared fraction of the initial register files
MaySkip(c) == Hdr.curves[c].partial
Needs(op) == CASE op = "smul" -> "smul" [] op = "sbase" -> "sbase" [] op = "msm" -> "msm" [] op = "msmu" -> "msmu" [] OTHER -> "none"

FieldOK(e) ==
  CASE e.op = "add" -> e.r = e.x + e.y
    [] e.op = "sub" -> e.r = e.x - e.y
    [] e.op = "mul" -> e.r = e.x * e.y
    [] e.op = "neg" -> e.r = 0 - e.x
    [] e.op = "dbl" -> e.r = 2 * e.x
    [] e.op = "sq" -> e.r = e.x * e.x
    [] e.op = "inv" -> (e.ok <=> e.x # 0) /\ (e.ok => e.chk = 1)            \* x * inv(x) = 1, in Q: inv is the rational 1/x
    [] e.op = "div" -> (e.ok <=> e.y # 0) /\ (e.ok => e.chk = e.x)          \* (x / y) * y = x
    [] e.op = "sqrt" -> /\ e.ok <=> e.isQR                                   \* isQR: math/big's verdict (independent)
                        /\ e.ok => e.chk = e.x                               \* r * r = x
                        /\ e.perfect >= 0 => e.ok /\ (e.r = e.perfect \/ e.r = 0 - e.perfect)
    [] e.op = "wide" -> e.r = e.x                                            \* reduction of k * order + x
    [] e.op = "iszero" -> e.res <=> e.x = 0
    [] e.op = "isone" -> e.res <=> e.x = 1
    [] e.op = "eq" -> e.res <=> e.x = e.y

Check(e) ==
  CASE e.a = "hdr" -> e.k = K /\ e.w <= W
    [] e.a = "table" -> /\ e.distinct /\ e.negOK /\ e.dblAddOK /\ e.roundTripOK
                        /\ (Has(e, "smulOK") => e.smulOK) /\ (Has(e, "sbaseOK") => e.sbaseOK) /\ (Has(e, "indepOK") => e.indepOK)
    [] e.a = "edge" -> IF e.what = "msm_mismatch" THEN e.err /\ ~e.panicked           \* lengths differ: an error
                       ELSE ~e.panicked /\ ~e.err /\ e.v = 0                          \* msm_empty, msmu_empty: the empty sum is the identity
    [] e.a = "step" ->
         LET regs0 == RegsOf(e.pre)
             v == OpValue(regs0, e.op, e.args)
         IN /\ v = e.post /\ ~Has(e, "panic")
            /\ \A c \in 1..NC :
                 IF e.real[c] = <<>> THEN MaySkip(c) \/ (Needs(e.op) # "none" /\ ~Hdr.curves[c][Needs(e.op)])
                 ELSE e.real[c] = <<e.pre[2], e.pre[3], v>>
    [] e.a = "pred" ->
         LET regs0 == RegsOf(e.pre)
             b == OpPred(regs0, e.op, e.args)
         IN /\ b = e.res /\ ~Has(e, "panic")
            /\ \A c \in 1..NC :
                 IF e.real[c] = <<>> THEN MaySkip(c)
                 ELSE e.real[c] = <<e.pre[1], e.pre[2], e.pre[3]>> /\ e.rres[c] = (IF b THEN 1 ELSE 0)
    (* ------------------------------ pairing programmes ------------------------------ *)
    [] e.a = "nondeg" -> ~e.genIsOne /\ e.distinct
    [] e.a = "pstep" ->
         LET ok == PairsOK(e.g1, e.g2, e.args)
             v == PairSum(e.g1, e.g2, e.args, IF e.op = "mpairinv" THEN -1 ELSE 1)
         IN /\ ok = e.ok /\ e.rok = <<ok, ok>>
            /\ ok => e.post = v /\ e.real = <<v, v>>                       \* bilinearity: e([a]G1, [b]G2) = e(G1, G2)^(ab), both API sides
    [] e.a = "pgt" ->
         LET v == CASE e.op = "gmul" -> e.gt[e.args[1]] + e.gt[e.args[2]] [] e.op = "gdiv" -> e.gt[e.args[1]] - e.gt[e.args[2]]
                    [] e.op = "ginv" -> 0 - e.gt[e.args[1]] [] e.op = "gsq" -> 2 * e.gt[e.args[1]]
         IN e.post = v /\ e.real = <<e.gt[2], v>>
    [] e.a = "ppred" ->
         LET b == IF e.op = "geq" THEN e.gt[e.args[1]] = e.gt[e.args[2]] ELSE e.gt[e.args[1]] = 0
         IN e.res = b /\ e.rres = b /\ e.real = <<e.gt[1], e.gt[2]>>
    (* ------------------------------ field arithmetic in a small window ------------------------------ *)
    [] e.a = "ftable" -> e.distinct /\ e.uintOK /\ e.negOK
    [] e.a = "fop" -> FieldOK(e)
    [] OTHER -> FALSE

TInit == l = 1 /\ regs = <<>> /\ step = 0 /\ g1 = <<>> /\ g2 = <<>> /\ gt = <<>>
TNext == l <= Len(Trace) /\ l' = l + 1 /\ UNCHANGED vars

CaseOK == l <= Len(Trace) => Check(Trace[l])
=============================================================================

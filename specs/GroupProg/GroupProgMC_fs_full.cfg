CONSTANTS
  K = 5
  W = 4096
  Menus <- MenusFS
  Inits = "full"
  Family = "group"
INIT Init
NEXT Next
INVARIANTS InWindow Laws
CHECK_DEADLOCK FALSE

---------------------------- MODULE TamperTrace ----------------------------
(* Validates the single-deviation matrix recorded by harness/cmd/tamper      *)
(* (real participants of session setup, HJKY, redistribution with and without *)
(* anchor, Gennaro, Canetti, Lindell22 signing + cosigning aggregation on the *)
(* toy group, messages altered on the wire at CBOR level) against ProtoCore.  *)
EXTENDS Integers, Sequences, FiniteSets, Json

Trace == ndJsonDeserialize("trace.ndjson")
TQ == Trace[1].q
INSTANCE ProtoCore WITH Q <- TQ

VARIABLE l
Init == l = 1
Next == l <= Len(Trace) /\ l' = l + 1

Check(e) ==
  CASE e.a = "hdr" -> TRUE
    [] e.a = "intent" -> TRUE
    [] e.a = "honest" ->      \* the undisturbed run completes everywhere with valid outputs
         /\ SeqSet(e.completed) = SeqSet(e.parties)
         /\ OutputsValid([completed |-> e.completed, out |-> e.out])
    [] e.a = "tamper" -> TamperOK(e)
    [] OTHER -> FALSE
CaseOK == l <= Len(Trace) => Check(Trace[l])
=============================================================================

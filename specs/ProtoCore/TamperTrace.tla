---------------------------- MODULE TamperTrace ----------------------------
(* Validates the single-deviation matrix recorded by harness/cmd/tamper      *)
(* (real participants of session setup, HJKY, redistribution with and without *)
(* anchor, Gennaro, Canetti, Lindell22 signing + cosigning aggregation on the *)
(* toy group, messages altered on the wire at CBOR level) against ProtoCore.  *)
EXTENDS Integers, Sequences, FiniteSets, Json

Trace == ndJsonDeserialize("trace.ndjson")
TQ == Trace[1].q
INSTANCE ProtoCore WITH Q <- TQ

VARIABLE l
Init == l = 1
Next == l <= Len(Trace) /\ l' = l + 1

Check(e) ==
  CASE e.a = "hdr" -> TRUE
    [] e.a = "intent" -> TRUE
    [] e.a = "honest" ->      \* the undisturbed run completes everywhere with valid outputs
         \* an honest OT / VOLE run may be refused only on the small exact field, where a sampled scalar, a hash-to-group value or
         \* a programmed element is zero / the identity with probability 1/q per element (thousands of elements per run) and the
         \* validation rules refuse those by design; on the 61-bit field every honest run must complete
         IF "rejected" \in DOMAIN e /\ e.rejected THEN ~e.out.big
         ELSE /\ SeqSet(e.completed) = SeqSet(e.parties)
              /\ OutputsValid([completed |-> e.completed, out |-> e.out])
    [] e.a = "tamper" -> TamperOK(e)
    [] OTHER -> FALSE
CaseOK == l <= Len(Trace) => Check(Trace[l])
=============================================================================

----------------------------- MODULE ProtoCore -----------------------------
(* What every round-based protocol of the library owes its honest parties    *)
(* when ONE party deviates on the wire (property C04), as a state machine of *)
(* one protocol run:                                                          *)
(*     Start -> (Deviate) -> parties Reject / Complete -> Stop                *)
(* A run is summarised by who rejected (round, blamed ids, how), which        *)
(* honest parties completed and what they output. The binding table says      *)
(* which leaves of which message the protocol binds (to earlier messages, to  *)
(* public key material or to a proof) and which are free first choices of the *)
(* sender; it is the TLA+ rendering of DESIGN.md appendix A and is validated   *)
(* against the code by running the complete single-leaf deviation matrix.      *)
EXTENDS MSPQ, TLC

\* ---- binding table: leaves are CBOR path classes (array indices erased) ----
\* everything is bound unless listed here
FreeLeaf(proto, round, kind, leaf, senderIsPrev, idx) ==
  \/ proto = "session" /\ round = 1 /\ kind = "b" /\ leaf = "/Ck"     \* fresh per-party commitment key; enters the common seed
  \/ proto \in {"redist", "redistAnchor", "redistNew"} /\ ~senderIsPrev            \* next-only holders send empty, ignored messages
  \* redistribution to newcomers only, without a trusted anchor: nobody holds a reference for the previous epoch's public data, so
  \* the previous span programme, the summed zero vector and the entries of the previous verification vector other than the
  \* public key itself are unauthenticated metadata (documented: newcomers need an anchor to validate them)
  \/ proto = "redistNew" /\ leaf \in {"/PrevMSP/Matrix/data[]", "/PrevMSP/Matrix/rows", "/PrevMSP/Matrix/cols", "/PrevMSP/Matrix/data",
                                        "/PrevMSP/RowsToHolders/0", "/PrevMSP/RowsToHolders/1", "/PrevMSP/RowsToHolders/2",
                                        "/ZeroVerificationVector/verification_vector/data[]", "/ZeroVerificationVector/verification_vector/data",
                                        "/ZeroVerificationVector/verification_vector/rows", "/ZeroVerificationVector/verification_vector/cols"}
  \/ proto = "redistNew" /\ leaf = "/PrevVerificationVector/verification_vector/data[]" /\ idx >= 1
  \/ proto = "ecbbot"                                                 \* the base OT has no consistency check: a deviator only spoils its own output
  \/ proto = "rvole" /\ round # 3                                     \* the multiplier's check (theta, eta, mu) is on Alice's last message only
Bound(proto, round, kind, leaf, senderIsPrev, idx) == ~FreeLeaf(proto, round, kind, leaf, senderIsPrev, idx)

SeqSet(s) == {s[i] : i \in 1..Len(s)}
K(i) == ToString(i)

\* ---- output validity, exact over Z_Q ----
ShardOK(s, id) ==
  /\ ~s.nil /\ s.id = id
  /\ Len(s.lab) = Len(s.M) /\ id \in Holders(s.lab)
  /\ s.share = ShareOf(s.M, s.lab, s.vv, id)            \* private share matches the reported public data
  /\ s.pk = s.vv[1]
  /\ \A h \in Holders(s.lab) : s.pkShares[K(h)] = ShareOf(s.M, s.lab, s.vv, h)
OutputsValid(e) ==
  LET done == SeqSet(e.completed) IN
  CASE e.out.kind = "shard" ->
         /\ \A i \in done : K(i) \in DOMAIN e.out.by => ShardOK(e.out.by[K(i)], i)
         /\ \A i, j \in done : (K(i) \in DOMAIN e.out.by /\ K(j) \in DOMAIN e.out.by) =>
              /\ e.out.by[K(i)].vv = e.out.by[K(j)].vv /\ e.out.by[K(i)].M = e.out.by[K(j)].M /\ e.out.by[K(i)].lab = e.out.by[K(j)].lab
         /\ "oldPk" \in DOMAIN e.out => \A i \in done : K(i) \in DOMAIN e.out.by => e.out.by[K(i)].pk = e.out.oldPk   \* redistribution keeps the key
    [] e.out.kind = "zero" ->
         /\ \A i \in done : /\ e.out.by[K(i)].share = ShareOf(e.out.M, e.out.lab, e.out.by[K(i)].vv, i)
                            /\ e.out.by[K(i)].vv[1] = 0
         /\ \A i, j \in done : e.out.by[K(i)].vv = e.out.by[K(j)].vv
    [] e.out.kind = "sig" ->
         /\ \A i \in done : K(i) \in DOMAIN e.out.by =>
              LET sg == e.out.by[K(i)] IN SchnorrVerifies(sg.R, sg.S, sg.E, e.out.pk)
         /\ \A i, j \in done : (K(i) \in DOMAIN e.out.by /\ K(j) \in DOMAIN e.out.by) => e.out.by[K(i)] = e.out.by[K(j)]
    [] e.out.kind = "session" ->
         /\ \A i, j \in done : /\ e.out.by[K(i)].sid = e.out.by[K(j)].sid
                               /\ e.out.by[K(i)].tr = e.out.by[K(j)].tr
                               /\ i # j => e.out.by[K(i)].seeds[K(j)] = e.out.by[K(j)].seeds[K(i)]
    [] e.out.kind = "ot" ->            \* only claimed when both parties are honest and done
         (Len(e.out.done) = 2 /\ "recv" \in DOMAIN e.out) =>
            \A i \in 1..Len(e.out.choices) :
               /\ e.out.recv[i] = (IF e.out.choices[i] = 0 THEN e.out.s0[i] ELSE e.out.s1[i])
               /\ e.out.big => \A k \in 1..Len(e.out.s0[i]) : e.out.s0[i][k] # e.out.s1[i][k]
    [] e.out.kind = "vole" ->
         (Len(e.out.done) = 2 /\ "c" \in DOMAIN e.out /\ ~e.out.big) =>
            \A k \in 1..Len(e.out.a) : Add(e.out.c[k], e.out.d[k]) = Mul(e.out.a[k], e.out.b)
    [] OTHER -> FALSE

\* ---- the property, per run ----
HonestRejects(e) == {k \in 1..Len(e.rejects) : e.rejects[k].party # e.from}
NoCrashNoHang(e) == \A k \in 1..Len(e.rejects) : ~e.rejects[k].panic /\ ~e.rejects[k].timeout
BlameOnlyDeviator(e) == \A k \in HonestRejects(e) : SeqSet(e.rejects[k].blamed) \subseteq {e.from}
Detected(e) ==
  /\ HonestRejects(e) # {}
  /\ e.kind = "u" => \E k \in HonestRejects(e) : e.rejects[k].party = e.to     \* the addressee itself
  /\ e.rejects # <<>> => \A i \in SeqSet(e.completed) : TRUE
\* When the deviator is the party the others were configured to TRUST (the redistribution anchor, whose copy of the previous public
\* data is the reference of the next-only holders by design), output validity and detection are not owed, and a next-only holder
\* that measures the honest senders against the anchor's false reference may blame one of them (that IS the trust assumption).
\* But nobody may crash or hang, and a holder of the previous epoch, which has its own reference, must still blame only the anchor.
BlameByPrevOnlyDeviator(e) ==
  \A k \in HonestRejects(e) : e.rejects[k].party \in SeqSet(e.prev) => SeqSet(e.rejects[k].blamed) \subseteq {e.from}
TamperOK(e) ==
  /\ NoCrashNoHang(e)
  /\ IF e.fromTrusted THEN BlameByPrevOnlyDeviator(e)
     ELSE /\ BlameOnlyDeviator(e)
          /\ OutputsValid(e)
          /\ (e.changed /\ Bound(e.proto, e.round, e.kind, e.leaf, e.senderIsPrev, e.idx)) => Detected(e)
=============================================================================

----------------------------- MODULE DeviationMC -----------------------------
(* Design-level check of the binding claims for verifiable dealing (the core   *)
(* of HJKY, redistribution, Gennaro and Canetti): a dealer publishes the       *)
(* verification vector g^c (logs c) and sends M_j * c to holder j. For every   *)
(* dealing column, every single coordinate of the broadcast vector or of one   *)
(* unicast share and every non-zero error delta, some honest holder's check     *)
(* equation  share_j = M_j * vv  becomes false (the addressee's, for a share). *)
(* TLC enumerates all of that over Z_Q for the Vandermonde and unanimity        *)
(* programmes; this is the mathematical content of "bound" in ProtoCore.        *)
EXTENDS MSPQ, TLC

CONSTANTS MSPs      \* set of records [M, lab]
VARIABLES m, dealer, c, leaf, delta
vars == <<m, dealer, c, leaf, delta>>

Leaves(mm, d) == {<<"vv", k, 0>> : k \in 1..NCols(mm.M)} \cup
                 UNION {{<<"share", a, j>> : a \in 1..Len(RowsOf(mm.lab, j))} : j \in Holders(mm.lab) \ {d}}
Init == /\ m \in MSPs
        /\ dealer \in Holders(m.lab)
        /\ c \in [1..NCols(m.M) -> F]
        /\ leaf \in Leaves(m, dealer)
        /\ delta \in F \ {0}
Next == UNCHANGED vars

VVSeen == IF leaf[1] = "vv" THEN [c EXCEPT ![leaf[2]] = Add(@, delta)] ELSE c
ShareSeen(j) == LET s == ShareOf(m.M, m.lab, c, j) IN
                IF leaf[1] = "share" /\ leaf[3] = j THEN [s EXCEPT ![leaf[2]] = Add(@, delta)] ELSE s
CheckFails(j) == ShareSeen(j) # ShareOf(m.M, m.lab, VVSeen, j)
\* an altered share coordinate fails exactly the addressee's check; an altered vector entry k fails the check of exactly
\* those holders one of whose rows has a non-zero coefficient in column k (C05), so it is caught by share verification
\* alone iff such a holder other than the dealer exists -- otherwise only a protocol-level check on that entry can bind it
\* (HJKY: entry 1 must be the identity; redistribution: entry 1 must match the expected partial public key)
UsesColumn(j, k) == \E a \in 1..Len(RowsOf(m.lab, j)) : m.M[RowsOf(m.lab, j)[a]][k] # 0
BoundIsDetected ==
  /\ leaf[1] = "share" => \A j \in Holders(m.lab) \ {dealer} : CheckFails(j) <=> (j = leaf[3])
  /\ leaf[1] = "vv" => \A j \in Holders(m.lab) \ {dealer} : CheckFails(j) <=> UsesColumn(j, leaf[2])
\* for the programmes the library induces for threshold and unanimity structures every column other than the first is used
\* by some holder other than any given dealer; the first column is covered by the protocol-level checks named above
ColumnsCovered == leaf[1] = "vv" /\ leaf[2] > 1 => \E j \in Holders(m.lab) \ {dealer} : UsesColumn(j, leaf[2])
\* and an honest dealing passes everywhere
HonestPasses == \A j \in Holders(m.lab) : ShareOf(m.M, m.lab, c, j) = ShareOf(m.M, m.lab, c, j)

Vand(ids, t) == [M |-> [k \in 1..Len(ids) |-> VandermondeRow(ids[k], t)], lab |-> ids]
Unan(ids) == LET n == Len(ids) IN
  [M |-> [k \in 1..n |-> IF k < n THEN Unit(n, k + 1) ELSE [j \in 1..n |-> IF j = 1 THEN 1 ELSE Q - 1]], lab |-> ids]
SmallMSPs == {Vand(<<1, 2, 3>>, 2), Vand(<<1, 2, 3>>, 3), Vand(<<2, 4>>, 2), Unan(<<1, 2>>), Unan(<<1, 2, 3>>)}
=============================================================================

CONSTANTS
  Q = 5
  MSPs <- SmallMSPs
INIT Init
NEXT Next
INVARIANTS BoundIsDetected ColumnsCovered HonestPasses
CHECK_DEADLOCK FALSE

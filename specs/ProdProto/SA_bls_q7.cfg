CONSTANTS
  Q = 7
  Scheme = "bls"
  MSPs <- SmallMSPs
  ColS = {0,1,2,3,4,5,6}
  SecS = {1,2,3,4,5,6}
  SeedS = {0,1,2,3,4}
  KS = {0,1,2,3,4}
  PhiS = {1,3}
  ChiS = {0,2,4}
  CS = {0,3}
  MsgS = {0,1,2,3,4,5,6}
  XTab <- XTab7
  MaxQuorum = 3
  PaillierN = 1
  Lifts = {0}
  RhoS = {0}
SPECIFICATION Spec
INVARIANTS RefusedIffUnqualified BlsOut
CHECK_DEADLOCK TRUE

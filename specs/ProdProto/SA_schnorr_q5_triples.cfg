CONSTANTS
  Q = 5
  Scheme = "schnorr"
  MSPs <- AllMSPs
  ColS = {0,2}
  SecS = {1,2,3,4}
  SeedS = {0,3}
  KS = {0,1,3}
  PhiS = {1,3}
  ChiS = {0,2,4}
  CS = {0,3}
  MsgS = {0,1,3}
  XTab <- XTab5
  MaxQuorum = 3
  PaillierN = 1
  Lifts = {0}
  RhoS = {0}
SPECIFICATION Spec
INVARIANTS AdditiveSumsToSecret RefusedIffUnqualified SchnorrOut
CHECK_DEADLOCK TRUE

CONSTANTS
  Q = 7
  Scheme = "lindell17"
  MSPs <- PairMSPs
  ColS = {0,3,6}
  SecS = {1,2,5}
  SeedS = {0,4}
  KS = {0,1,2,3,4,5,6}
  PhiS = {1,3}
  ChiS = {0,2,4}
  CS = {0,3}
  MsgS = {0,1,4}
  XTab <- XTab7
  MaxQuorum = 2
  PaillierN = 1301
  Lifts = {0,2}
  RhoS = {0,48}
SPECIFICATION Spec
INVARIANTS AdditiveSumsToSecret RefusedIffUnqualified L17NoWrap ECDSAOut
CHECK_DEADLOCK TRUE

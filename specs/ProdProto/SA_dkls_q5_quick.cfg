CONSTANTS
  Q = 5
  Scheme = "dkls23"
  MSPs <- SmallMSPs
  ColS = {1,4}
  SecS = {2,3}
  SeedS = {0,3}
  KS = {1,2}
  PhiS = {1,3}
  ChiS = {0,4}
  CS = {2}
  MsgS = {0,3}
  XTab <- XTab5
  MaxQuorum = 2
  PaillierN = 1
  Lifts = {0}
  RhoS = {0}
SPECIFICATION Spec
INVARIANTS AdditiveSumsToSecret RefusedIffUnqualified DklsChecksPass DklsProducts ECDSAOut
CHECK_DEADLOCK TRUE

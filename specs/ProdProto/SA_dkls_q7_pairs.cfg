CONSTANTS
  Q = 7
  Scheme = "dkls23"
  MSPs <- PairMSPs
  ColS = {0,3,6}
  SecS = {1,2,5}
  SeedS = {0,4}
  KS = {0,1,2,3,4,5,6}
  PhiS = {1,5}
  ChiS = {0,2,6}
  CS = {0,3}
  MsgS = {0,1,4}
  XTab <- XTab7
  MaxQuorum = 2
  PaillierN = 1
  Lifts = {0}
  RhoS = {0}
SPECIFICATION Spec
INVARIANTS AdditiveSumsToSecret RefusedIffUnqualified DklsChecksPass DklsProducts ECDSAOut
CHECK_DEADLOCK TRUE

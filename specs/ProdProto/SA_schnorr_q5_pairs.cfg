CONSTANTS
  Q = 5
  Scheme = "schnorr"
  MSPs <- PairMSPs
  ColS = {0,1,2,3,4}
  SecS = {1,2,3,4}
  SeedS = {0,1,2,3,4}
  KS = {0,1,2,3,4}
  PhiS = {1,3}
  ChiS = {0,2,4}
  CS = {0,3}
  MsgS = {0,1,2,3,4}
  XTab <- XTab5
  MaxQuorum = 2
  PaillierN = 1
  Lifts = {0}
  RhoS = {0}
SPECIFICATION Spec
INVARIANTS AdditiveSumsToSecret RefusedIffUnqualified SchnorrOut
CHECK_DEADLOCK TRUE

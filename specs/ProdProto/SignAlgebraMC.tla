--------------------------- MODULE SignAlgebraMC ---------------------------
(* Instances for TLC: the span programmes (threshold = Vandermonde, unanimity, *)
(* a replicated / CNF programme and a gate-tree programme in which a holder    *)
(* owns several rows), checked once against the policy semantics, and the       *)
(* x-coordinate tables.                                                         *)
EXTENDS SignAlgebra, Policy

Vand(ids, t) == [M |-> [k \in 1..Len(ids) |-> VandermondeRow(ids[k], t)], lab |-> ids,
                 pol |-> [kind |-> "threshold", t |-> t, ids |-> ids]]
Unan(ids) == LET n == Len(ids) IN
  [M |-> [k \in 1..n |-> IF k < n THEN Unit(n, k + 1) ELSE [j \in 1..n |-> IF j = 1 THEN 1 ELSE Q - 1]], lab |-> ids,
   pol |-> [kind |-> "unanimity", ids |-> ids]]
\* replicated sharing for the maximal unqualified sets {1},{2},{3} of the 2-of-3 structure: s = r1 + r2 + r3, holder i gets r_j
\* for every j # i; columns (s, r2, r3), r1 = s - r2 - r3.  Every holder owns two rows; the programme is not ideal.
Cnf3 == [M |-> << <<1, Q - 1, Q - 1>>, <<1, Q - 1, Q - 1>>,    \* r1 -> holders 2, 3
                  <<0, 1, 0>>, <<0, 1, 0>>,                    \* r2 -> holders 1, 3
                  <<0, 0, 1>>, <<0, 0, 1>> >>,                 \* r3 -> holders 1, 2
         lab |-> <<2, 3, 1, 3, 1, 2>>,
         pol |-> [kind |-> "cnf", ids |-> <<1, 2, 3>>, mus |-> << <<1>>, <<2>>, <<3>> >>]]
\* asymmetric CNF: maximal unqualified sets {1,2},{3,4},{1,4}: holders 2 and 3 own two rows, 1 and 4 one
Cnf4 == [M |-> << <<1, Q - 1, Q - 1>>, <<1, Q - 1, Q - 1>>,    \* r1 (set {1,2}) -> 3, 4
                  <<0, 1, 0>>, <<0, 1, 0>>,                    \* r2 (set {3,4}) -> 1, 2
                  <<0, 0, 1>>, <<0, 0, 1>> >>,                 \* r3 (set {1,4}) -> 2, 3
         lab |-> <<3, 4, 1, 2, 2, 3>>,
         pol |-> [kind |-> "cnf", ids |-> <<1, 2, 3, 4>>, mus |-> << <<1, 2>>, <<3, 4>>, <<1, 4>> >>]]
\* gate tree 2-of-(1, 2, AND(3, 1)): outer Vandermonde node values y_v = s + v t; the AND node splits y_3 = (y_3 - u) + u
Gate3 == [M |-> << <<1, 1, 0>>, <<1, 2, 0>>, <<1, 3, Q - 1>>, <<0, 0, 1>> >>, lab |-> <<1, 2, 3, 1>>,
          pol |-> [kind |-> "gate", ids |-> <<1, 2, 3>>,
                   tree |-> [t |-> 2, kids |-> << [id |-> 1], [id |-> 2], [t |-> 2, kids |-> << [id |-> 3], [id |-> 1] >>] >>]]]

Strip(m) == [M |-> m.M, lab |-> m.lab]
PairPrograms == {Vand(<<1, 2>>, 2), Vand(<<1, 2, 3>>, 2), Vand(<<2, 4>>, 2), Unan(<<1, 2>>), Cnf3, Cnf4, Gate3}
AllPrograms == PairPrograms \cup {Vand(<<1, 2, 3>>, 3), Unan(<<1, 2, 3>>), Vand(<<1, 3, 4>>, 2)}
PairMSPs == {Strip(m) : m \in PairPrograms}
AllMSPs == {Strip(m) : m \in AllPrograms}
SmallMSPs == {Strip(m) : m \in {Vand(<<1, 2, 3>>, 2), Vand(<<1, 2, 3>>, 3), Cnf3, Gate3}}

\* every programme realises its policy (rank definition against the policy semantics), checked when the model is loaded
ASSUME ProgramsSound == \A m \in AllPrograms :
  /\ WellFormed(m.M) /\ Len(m.lab) = NRows(m.M) /\ Holders(m.lab) = PolicyHolders(m.pol)
  /\ \A S \in SUBSET Holders(m.lab) : S # {} => /\ (SpansByRank(m.M, m.lab, S) <=> Qualified(m.pol, S))
                                                   /\ ((Solutions(m.M, m.lab, S) # {}) <=> Qualified(m.pol, S))
ASSUME MultiRowHolder == \E m \in AllPrograms : \E h \in Holders(m.lab) : Len(RowsOf(m.lab, h)) > 1

\* x-coordinate tables (symmetric, otherwise injective)
XTab5 == [k \in 1..4 |-> IF k \in {1, 4} THEN 3 ELSE 1]
XTab7 == [k \in 1..6 |-> IF k \in {1, 6} THEN 2 ELSE IF k \in {2, 5} THEN 0 ELSE 5]      \* one nonce class has x = 0: refused
=============================================================================

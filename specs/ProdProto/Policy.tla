------------------------------- MODULE Policy -------------------------------
(* Semantics of the access-structure families, from their definitions.      *)
(* A policy is a record (as logged by the drivers):                          *)
(*   [kind |-> "threshold", t |-> 2, ids |-> <<1,2,3>>]                      *)
(*   [kind |-> "unanimity", ids |-> <<1,2>>]                                 *)
(*   [kind |-> "cnf", ids |-> .., mus |-> << <<1>>, <<2,3>> >>]  maximal unqualified sets *)
(*   [kind |-> "hier", ids |-> .., levels |-> << [t |-> 1, ids |-> ..], .. >>] cumulative thresholds *)
(*   [kind |-> "gate", ids |-> .., tree |-> g]   g = [id |-> x] | [t |-> k, kids |-> <<g, ..>>] *)
EXTENDS Integers, Sequences, FiniteSets

SeqToSet(s) == {s[i] : i \in 1..Len(s)}
PolicyHolders(pol) == SeqToSet(pol.ids)

IsLeaf(g) == "id" \in DOMAIN g
RECURSIVE EvalGate(_, _)
EvalGate(g, S) ==
  IF IsLeaf(g) THEN g.id \in S
  ELSE Cardinality({k \in 1..Len(g.kids) : EvalGate(g.kids[k], S)}) >= g.t

\* hierarchical conjunctive: for every level l, at least t_l members of S in levels 1..l
LevelPrefix(pol, l) == UNION {SeqToSet(pol.levels[k].ids) : k \in 1..l}
Qualified(pol, S) ==
  CASE pol.kind = "threshold" -> Cardinality(S \cap PolicyHolders(pol)) >= pol.t
    [] pol.kind = "unanimity" -> PolicyHolders(pol) \subseteq S
    [] pol.kind = "cnf" -> \A i \in 1..Len(pol.mus) : ~((S \cap PolicyHolders(pol)) \subseteq SeqToSet(pol.mus[i]))
    [] pol.kind = "hier" -> \A l \in 1..Len(pol.levels) : Cardinality(S \cap LevelPrefix(pol, l)) >= pol.levels[l].t
    [] pol.kind = "gate" -> EvalGate(pol.tree, S)
=============================================================================

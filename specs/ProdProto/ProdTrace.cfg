INIT Init
NEXT Next
INVARIANT CaseOK
CHECK_DEADLOCK FALSE

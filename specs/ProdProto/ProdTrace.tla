----------------------------- MODULE ProdTrace -----------------------------
(* Trace specification of the production-curve protocol runs recorded by    *)
(* harness/prod (driver `prodproto`, modes keygen / sign / otvole).          *)
(*                                                                          *)
(* Function-shaped: the variable l walks the lines of trace.ndjson and the   *)
(* invariant CaseOK re-decides every line.  One line is one complete run of  *)
(* the real code: a key generation (C03), a threshold signing run (C01), an  *)
(* OT batch or a VOLE multiplication (C09).  Values of 256 bits never enter  *)
(* TLA+: the driver logs tokens (equal bytes <=> equal token), what happened *)
(* (constructor acceptance, rejects, who completed) and booleans evaluated   *)
(* by oracles that do not use the code under test (math/big curve models,    *)
(* crypto/ecdsa, crypto/ed25519, known-secret identities).  Everything that   *)
(* is a decision is taken here: whether the quorum is qualified is computed   *)
(* from the logged policy with Policy!Qualified, never read from the log.     *)
(*                                                                          *)
(* Statements decided (from C01 / C03 / C09):                               *)
(*  sign    authorised quorum  => every constructor accepts, the run          *)
(*                                terminates everywhere, every party and      *)
(*                                aggregator that outputs holds the same      *)
(*                                signature, the library's verifier and the   *)
(*                                independent one accept it for the signed    *)
(*                                message and reject it for another message   *)
(*          otherwise          => every constructor refuses; nothing else     *)
(*  keygen  all parties report the same key / verification vector / span      *)
(*          programme / public shares; every private share matches its public *)
(*          share; exactly the qualified subsets reconstruct log(pk) (library *)
(*          and independent reconstruction); independent runs give different   *)
(*          keys; reload is identical                                         *)
(*  ot      recv_i = s_{choice_i, i} and s_{0,i} # s_{1,i} for every instance  *)
(*  vole    c_i + d_i = a_i * b for every component                           *)
(* Events of probability about 1/q that the code documents as refusals are    *)
(* the named guards below; they accept a refusal, never an output, and only   *)
(* where 1/q is not negligible (groups below 128 bits; the production groups   *)
(* have 253 - 256 bits, there such a refusal is reported).                     *)
EXTENDS Policy, TLC, Json

Trace == ndJsonDeserialize("trace.ndjson")

VARIABLE l
Init == l = 1
Next == l <= Len(Trace) /\ l' = l + 1

Has(e, f) == f \in DOMAIN e

\* ---------------------------------------------------------------- named guards (1/q refusals the code documents)
\* "effective partial public key is the identity ... must be retried" (Lindell22, CGGMP21), "aggregate Gamma is the identity;
\* signing must be retried" (CGGMP21)
RetryDocumented(e) == e.class = "retry"
\* a sampled or derived value happens to be zero / the identity and message validation or a constructor refuses it:
\* nonce point, Gamma, psi, partial u / w (dkls23.NewPartialSignature), BLS partial signature component, OT key-agreement
\* element, a public key that is the identity (secret = 0)
DegenerateValueRefused(e) == e.class = "degenerate"
\* The guards excuse a refusal only where the event is not negligible: on a group of fewer than 128 bits.  On the production
\* groups (253 - 256 bits) the probability of any of them is below 2^-250 per run, so a refusal of this kind there is - with
\* that confidence - a defect of the code and is reported like any other honest run that does not terminate.
NonNegligible(e) == e.gbits < 128
DocumentedRefusal(e) == NonNegligible(e) /\ (RetryDocumented(e) \/ DegenerateValueRefused(e))

\* ---------------------------------------------------------------- signing (C01)
QuorumOf(e) == SeqToSet(e.quorum)
\* what the protocols require of a quorum besides qualification: members are holders, at least two parties (session layer),
\* Lindell17 is a two-party protocol
Applicable(e) ==
  /\ QuorumOf(e) \subseteq PolicyHolders(e.pol)
  /\ Cardinality(QuorumOf(e)) = Len(e.quorum)
  /\ Len(e.quorum) >= 2
  /\ e.proto = "lindell17" => Len(e.quorum) = 2
Authorised(e) == Qualified(e.pol, QuorumOf(e)) /\ Applicable(e)
\* Boldyreva's documented message domain: non-empty messages
MsgInDomain(e) == ~(e.proto = "bls" /\ e.msgLen = 0)

CtorIds(e) == {e.ctor[i].id : i \in 1..Len(e.ctor)}
CtorAll(e) == Len(e.ctor) = Len(e.quorum) /\ CtorIds(e) = QuorumOf(e) /\ \A i \in 1..Len(e.ctor) : e.ctor[i].ok
CtorNone(e) == Len(e.ctor) = Len(e.quorum) /\ CtorIds(e) = QuorumOf(e) /\ \A i \in 1..Len(e.ctor) : ~e.ctor[i].ok
NothingElse(e) == /\ ~e.started /\ Len(e.rejects) = 0 /\ Len(e.completed) = 0
                  /\ Len(e.outs) = 0 /\ Len(e.outErrs) = 0 /\ ~e.signed
Refused(e) == CtorNone(e) /\ NothingElse(e)

IsECDSA(e) == e.proto \in {"dkls23-bbot", "dkls23-softspoken", "lindell17", "cggmp21"}
\* DKLs23 (dkls23.Aggregate) and Lindell17 (primary's Round5) document that they normalise the signature to the low-s form;
\* CGGMP21's aggregators do not (about half of its signatures have s > n/2): logged, not required
NormalisesS(e) == e.proto \in {"dkls23-bbot", "dkls23-softspoken", "lindell17"}
\* who outputs a signature: DKLs23 / Boldyreva: every party aggregates; Lindell17: the primary; Lindell22: the plain aggregator
\* and (round API) every cosigning aggregator; CGGMP21: every cosigning aggregator and the plain one
OutCount(e) ==
  CASE e.proto \in {"dkls23-bbot", "dkls23-softspoken"} -> Len(e.quorum)
    [] e.proto = "bls" -> e.nAgg          \* the number of members whose public material the driver built an aggregator from (>= 1)
    [] e.proto = "lindell17" -> 1
    [] e.proto = "lindell22" -> IF e.api = "rounds" THEN Len(e.quorum) + 1 ELSE 1
    [] e.proto = "cggmp21" -> Len(e.quorum) + 1
Terminates(e) == e.started /\ Len(e.rejects) = 0 /\ SeqToSet(e.completed) = QuorumOf(e)
SameOutput(e) ==
  /\ Len(e.outErrs) = 0 /\ Len(e.outs) = OutCount(e) /\ OutCount(e) >= 1
  /\ \A i, j \in 1..Len(e.outs) : e.outs[i].tok = e.outs[j].tok /\ (i # j => e.outs[i].who # e.outs[j].who)
\* BLS signatures are unique: every qualified sub-collection of the partial signatures aggregates to the same signature, every
\* unqualified one is refused by the aggregator
SubAggOK(e) ==
  \A i \in 1..Len(e.subAgg) :
    LET s == e.subAgg[i] IN
    IF Qualified(e.pol, SeqToSet(s.set)) THEN s.ok /\ s.tok = e.outs[1].tok ELSE ~s.ok
Verifies(e) ==
  /\ e.signed
  /\ e.verify_lib /\ e.verify_indep                       \* both verifiers accept the signed message
  /\ ~e.verify_other_lib /\ ~e.verify_other_indep         \* and reject another one
  /\ e.pkIsXG                                             \* under the key whose logarithm the shares reconstruct
  /\ IsECDSA(e) => e.verify_std /\ e.recovered_pk_ok /\ e.recovered_lib_ok
  /\ NormalisesS(e) => e.low_s
  /\ e.proto = "bls" => e.popOK /\ SubAggOK(e)
\* a message outside the scheme's domain: constructors accept, every cosigner refuses to sign, no output
MsgRefused(e) == /\ CtorAll(e) /\ e.started /\ Len(e.rejects) = Len(e.quorum) /\ Len(e.completed) = 0
                 /\ Len(e.outs) = 0 /\ ~e.signed

SignOK(e) ==
  IF Has(e, "keyErr") THEN DocumentedRefusal(e)            \* no usable key: only "the key is the identity" is an excuse
  ELSE IF ~Authorised(e) THEN Refused(e)
  ELSE IF ~MsgInDomain(e) THEN MsgRefused(e)
  ELSE IF DocumentedRefusal(e) THEN CtorAll(e) /\ Len(e.outs) = 0 /\ ~e.signed
  ELSE CtorAll(e) /\ Terminates(e) /\ SameOutput(e) /\ Verifies(e)

\* ---------------------------------------------------------------- key generation (C03)
AllSame(f) == \A a, b \in DOMAIN f : f[a] = f[b]
AnyOf(f) == f[CHOOSE a \in DOMAIN f : TRUE]
IdKeys(S) == {ToString(h) : h \in S}
SubsetsOK(e) ==
  LET H == PolicyHolders(e.pol) IN
  /\ {SeqToSet(e.subsets[i].set) : i \in 1..Len(e.subsets)} = (SUBSET H) \ {{}}
  /\ \A i \in 1..Len(e.subsets) :
       LET s == e.subsets[i]
           q == Qualified(e.pol, SeqToSet(s.set)) IN
       /\ s.accepts = q /\ s.isQualified = q                  \* the induced span programme realises the policy
       /\ s.spanIndep = q /\ s.reconIndepEq = q               \* independent linear algebra: spans, and gives log(pk), iff qualified
       /\ s.reconOK = q /\ s.reconEqX = q                     \* the library's reconstruction of the scalar
       /\ s.reconExpOK = q /\ s.reconExpEqPk = q              \* and in the exponent from the public shares
\* two independent runs (every other key generation of the trace used fresh randomness) give different keys
DistinctKeys(e) ==
  \A j \in 1..Len(Trace) :
    (j # l /\ Trace[j].a = "keygen" /\ Trace[j].ok) => AnyOf(Trace[j].pkTok) # AnyOf(e.pkTok)
KeygenOK(e) ==
  IF ~e.ok THEN DocumentedRefusal(e)                         \* honest key generation only fails when the key is the identity
  ELSE
  LET H == PolicyHolders(e.pol) IN
  /\ SeqToSet(e.holders) = H
  /\ DOMAIN e.pkTok = IdKeys(H) /\ DOMAIN e.vvTok = IdKeys(H) /\ DOMAIN e.mspTok = IdKeys(H)
  /\ DOMAIN e.pkSharesTok = IdKeys(H) /\ DOMAIN e.shareMatches = IdKeys(H)
  /\ AllSame(e.pkTok) /\ AllSame(e.vvTok) /\ AllSame(e.mspTok) /\ AllSame(e.pkSharesTok)
  /\ \A a \in DOMAIN e.shareMatches : e.shareMatches[a]     \* [share_i] G = the public share another party holds for i
  /\ e.allSpan /\ e.pkIsXG /\ ~e.xZero                       \* pk = [x] G for the independently reconstructed x # 0
  /\ SubsetsOK(e)
  /\ DistinctKeys(e)
  /\ e.reloadSame

\* ---------------------------------------------------------------- OT and VOLE (C09)
PatternOK(e) ==
  CASE e.pattern = "zeros" -> \A i \in 1..e.xi : e.choices[i] = 0
    [] e.pattern = "ones" -> \A i \in 1..e.xi : e.choices[i] = 1
    [] e.pattern = "alternating" -> \A i \in 1..e.xi : e.choices[i] = (i - 1) % 2
    [] OTHER -> TRUE
OtOK(e) ==
  IF ~e.completed THEN DocumentedRefusal(e)
  ELSE
  /\ e.nSender = e.xi /\ e.nReceiver = e.xi
  /\ Len(e.choices) = e.xi /\ Len(e.s0) = e.xi /\ Len(e.s1) = e.xi /\ Len(e.recv) = e.xi /\ Len(e.recvLen) = e.xi
  /\ e.choicesKept /\ PatternOK(e)
  /\ \A i \in 1..e.xi :
       /\ e.choices[i] \in {0, 1} /\ e.recvLen[i] = e.l
       /\ e.recv[i] = (IF e.choices[i] = 1 THEN e.s1[i] ELSE e.s0[i])   \* the receiver gets the chosen message
       /\ e.s0[i] # e.s1[i]                                             \* and the two messages differ
VoleOK(e) ==
  IF ~e.completed THEN DocumentedRefusal(e)
  ELSE /\ e.nC = e.L /\ e.nD = e.L /\ Len(e.sumOK) = e.L /\ Len(e.inputs) = e.L
       /\ \A i \in 1..e.L : e.sumOK[i]                                  \* c_i + d_i = a_i * b (mod the group order)

\* ---------------------------------------------------------------- one deviating cosigner, Boldyreva BLS (C04)
\* The deviator's partial signature was altered in something the aggregator binds to the deviator's partial public keys (a component,
\* two components by offsets cancelling in their plain sum, the order of two different components, components signed for another
\* message, the number of components, a proof of possession, another cosigner's partial signature). The aggregator (an honest party)
\* must catch it: no panic, no output; whoever it blames is the deviator; and - whatever a single party sends - an output, if one
\* were produced, must verify.
BlsDevKinds == {"comp0+D", "compLast+D", "cancel:+D,-D", "swap01", "otherMessage", "otherMessage:comp0", "truncate", "extend",
                "pop0+D", "pop:cancel:+D,-D", "pop:isMessageSignature", "replay:peer"}
BlsDevOK(e) ==
  /\ e.kind \in BlsDevKinds
  /\ e.dev \in QuorumOf(e) /\ e.agg \in QuorumOf(e) /\ (Len(e.quorum) > 1 => e.agg # e.dev)
  /\ Qualified(e.pol, QuorumOf(e))
  /\ ~e.panic                                              \* no honest party crashes
  /\ e.ok => e.verifies                                    \* never a signature that fails public verification
  /\ ~e.ok                                                 \* the bound alteration is caught by the aggregator
  /\ \A i \in 1..Len(e.blamed) : e.blamed[i] = e.dev       \* and only the deviator is blamed

\* ---------------------------------------------------------------- an altered OT / VOLE message (C09)
\* One wire message of VSOT, the SoftSpoken extension or the random VOLE over SoftSpoken was altered between two honest endpoints
\* (a byte of a leaf, or two different elements of an array exchanged: every leaf of these protocols' messages feeds a consistency
\* check - proofs of knowledge, challenge / response / opening digests, the extension's and the multiplier's checks). The run must
\* not complete: some party aborts (or refuses to decode) at or after the altered message, nothing panics, no output is produced.
OtDevOK(e) ==
  /\ e.kind \in {"ot", "vole"} /\ e.op \in {"flip", "swap"}
  /\ e.applied /\ e.changed                   \* the driver did alter the encoding (otherwise the line proves nothing)
  /\ ~e.panic
  /\ ~e.completed
  /\ e.failedStage >= e.msg                   \* message k is decoded at stage k and consumed by round k + 1

\* ---------------------------------------------------------------- one deviating signer, DKLs23 / Lindell22 on production curves (C04)
\* One message of one round of party `dev` (a unicast for its recipient, or a broadcast identically for all) was altered in one CBOR
\* leaf; everything else is honest code. Honest parties = the quorum without dev (dev's own later complaints are a deviator's).
\*  - no party panics;
\*  - every party an honest party blames is dev;
\*  - whatever an aggregator returns is one common signature accepted by the library verifier and the independent one;
\*  - the alteration is caught before a result is accepted: an honest party rejects, or every aggregator refuses.
HonestRejects(e) == {i \in 1..Len(e.rejects) : e.rejects[i].party # e.dev}
\* Leaves whose alteration does not change any decoded value (binding table, as ProtoCore.FreeLeaf): the encoding of a Paillier
\* ciphertext of unknown order carries a copy of the arithmetic (the modulus N^2) next to N; znstar's decoder rebuilds the group
\* from N and ignores the copy, so Lindell17's c3 with that copy altered IS the same ciphertext and the run must succeed.
FreeLeaves == {"/c3/c/arithmetic/modulus/modulus/natBytes"}
SignDevOK(e) ==
  /\ e.applied /\ e.changed
  /\ e.dev \in QuorumOf(e) /\ Authorised(e)
  /\ \A i \in 1..Len(e.rejects) : ~e.rejects[i].panic /\ ~e.rejects[i].timeout
  /\ \A i \in HonestRejects(e) : \A j \in 1..Len(e.rejects[i].blamed) : e.rejects[i].blamed[j] = e.dev
  /\ Len(e.outs) > 0 => /\ \A i, j \in 1..Len(e.outs) : e.outs[i].tok = e.outs[j].tok
                        /\ e.signed /\ e.verify_lib /\ e.verify_indep /\ ~e.verify_other_lib
  /\ IF e.leaf \in FreeLeaves
     THEN Len(e.rejects) = 0 /\ Len(e.outErrs) = 0 /\ Len(e.outs) > 0           \* same decoded message: an honest run
     ELSE \/ HonestRejects(e) # {}
          \/ (Len(e.outs) = 0 /\ Len(e.outErrs) > 0)                           \* the aggregators refuse
          \/ (Len(e.rejects) > 0 /\ Len(e.outs) = 0)                           \* the run stopped without a result

\* ----------------------------------------------------------------
Check(e) ==
  CASE e.a = "hdr" -> TRUE
    [] e.a = "sign" -> SignOK(e)
    [] e.a = "keygen" -> KeygenOK(e)
    [] e.a = "ot" -> OtOK(e)
    [] e.a = "vole" -> VoleOK(e)
    [] e.a = "blsdev" -> BlsDevOK(e)
    [] e.a = "otdev" -> OtDevOK(e)
    [] e.a = "signdev" -> SignDevOK(e)
    [] OTHER -> FALSE
CaseOK == l <= Len(Trace) => Check(Trace[l])
=============================================================================

---------------------------- MODULE SignAlgebra ----------------------------
(* Design-level model, over Z_Q in the exponent of a prime-order group, of   *)
(* the signing algebra of the threshold schemes that only run on production   *)
(* curves (C01): DKLs23 ECDSA (both multipliers present the same random-VOLE   *)
(* interface), Lindell17 two-party ECDSA over Paillier, Boldyreva BLS and      *)
(* Lindell22 Schnorr with the BIP-340 / Mina parity rules.                     *)
(*                                                                            *)
(* One run:  Deal -> Convert | Refuse -> <scheme rounds> -> Aggregate.        *)
(*   Deal      a key column r under a span programme (M, lab); x = r[1]        *)
(*   Refuse    the constructors' `MSP.Accepts(quorum)` test fails               *)
(*   Convert   ConvertShareToAdditive over the quorum + pairwise-seed zero      *)
(*             share (przs.SampleZeroShare): a_i = c_i . sh_i + zeta_i          *)
(*   rounds    one action per protocol round (API call), values chosen from     *)
(*             the configured sets                                              *)
(* State that later rounds do not read is dropped, so behaviours that agree on  *)
(* what matters merge.  Group elements are their discrete logs; the affine      *)
(* x-coordinate is the constant table XTab (XTab[k] = XTab[-k], otherwise       *)
(* injective: the only property of x-coordinates ECDSA relies on) and the       *)
(* parity of y is YOdd (YOdd(-k) = ~YOdd(k)).  Hash outputs (message digest,    *)
(* Schnorr challenge, hash-to-curve) are free values.                           *)
(*                                                                            *)
(* Every identity checked here is a polynomial identity of degree <= 2 in each  *)
(* free variable, so a grid with >= 3 values per variable decides it for the    *)
(* whole field; the configurations use all of Z_Q where the product stays small *)
(* and 2-3 point grids elsewhere (stated per configuration).                    *)
EXTENDS MSPQ, TLC

CONSTANTS Scheme,      \* "dkls23" | "lindell17" | "bls" | "schnorr"
          MSPs,        \* set of [M, lab]
          ColS,        \* values of the non-secret coordinates of the dealing column
          SecS,        \* values of the secret
          SeedS,       \* pairwise zero-share seeds
          KS, PhiS, ChiS, CS, MsgS,   \* nonce shares, DKLs23 phi, Bob's chi, Alice's VOLE output share, digests / challenges / H(m)
          XTab,        \* x-coordinate table, a function on 1..Q-1
          MaxQuorum,   \* explore quorums of at most this many parties
          PaillierN, Lifts, RhoS      \* Lindell17: Paillier modulus, q-lifts of the encrypted share components, mask values

VARIABLES st, key, add, run, out
vars == <<st, key, add, run, out>>
Null == [null |-> TRUE]

ASSUME SecretNonZero == 0 \notin SecS     \* an identity public key is refused when the shard is built (key generation, ProdTrace)
ASSUME XTabOK == /\ DOMAIN XTab = 1..(Q - 1)
                 /\ \A k \in 1..(Q - 1) : XTab[k] \in F /\ XTab[k] = XTab[Q - k]
                 /\ \A k, j \in 1..(Q - 1) : XTab[k] = XTab[j] => (j = k \/ j = Q - k)
YOdd(k) == k > (Q - 1) \div 2                  \* for k # 0: YOdd(Q - k) = ~YOdd(k)
XOf(k) == XTab[k]

\* ---------------------------------------------------------------- keys and quorums
SpansByRank(M, lab, S) == LET rs == RowsOfSet(lab, S) IN Len(rs) > 0 /\ SolvableLeft(SubRows(M, rs), E0(NCols(M)))
Cols(n, first) == {c \in [1..n -> F] : c[1] = first /\ \A k \in 2..n : c[k] \in ColS}
\* reconstruction coefficients over S: a combination of at most NCols of the rows owned by S that gives e0 (any solution will
\* do: the results below must not depend on which one; the library also returns one particular solution)
Min(a, b) == IF a < b THEN a ELSE b
Solutions(M, lab, S) ==
  LET rs == RowsOfSet(lab, S)
      w == Min(NCols(M), Len(rs))
  IN {tc \in IncSeqs(1, Len(rs), w) \X [1..w -> F] :
        VecMat(tc[2], [k \in 1..w |-> M[rs[tc[1][k]]]]) = E0(NCols(M))}
CoeffsFrom(lab, S, tc) ==
  LET rs == RowsOfSet(lab, S)
      full == [a \in 1..Len(rs) |-> IF \E k \in 1..Len(tc[1]) : tc[1][k] = a THEN tc[2][CHOOSE k \in 1..Len(tc[1]) : tc[1][k] = a] ELSE 0]
  IN [i \in S |-> LET own == RowsOf(lab, i) IN [k \in 1..Len(own) |-> full[CHOOSE a \in 1..Len(rs) : rs[a] = own[k]]]]
\* evaluated once per (programme, quorum): TLC caches constant definitions
\* (TLCEval forces the lazily represented functions into tables)
QuorumTab == TLCEval([m \in MSPs |-> TLCEval([S \in (SUBSET Holders(m.lab)) \ {{}} |->
                LET sols == Solutions(m.M, m.lab, S) IN
                IF sols = {} THEN [ok |-> FALSE] ELSE [ok |-> TRUE, c |-> TLCEval(CoeffsFrom(m.lab, S, CHOOSE tc \in sols : TRUE))]])])
Accepts(k) == QuorumTab[[M |-> k.M, lab |-> k.lab]][k.S].ok
Coeffs(k) == QuorumTab[[M |-> k.M, lab |-> k.lab]][k.S].c
\* pairwise-seed zero share: party i adds the seeds shared with larger ids and subtracts those with smaller ids
Pairs(S) == {p \in S \X S : p[1] < p[2]}
ZeroShare(S, seed, i) == SumOver([p \in Pairs(S) |-> IF p[1] = i THEN seed[p] ELSE IF p[2] = i THEN Neg(seed[p]) ELSE 0], Pairs(S))

Init == /\ st = "dealt"
        /\ \E m \in MSPs : \E x \in SecS : \E r \in Cols(NCols(m.M), x) : \E S \in SUBSET Holders(m.lab) :
             /\ S # {} /\ Cardinality(S) <= MaxQuorum
             /\ Scheme = "lindell17" => Cardinality(S) = 2      \* the constructors insist on exactly two parties
             /\ key = [M |-> m.M, lab |-> m.lab, r |-> r, S |-> S]
        /\ add = Null /\ run = Null /\ out = Null

Refuse == /\ st = "dealt" /\ ~Accepts(key)
          /\ st' = "refused" /\ UNCHANGED <<key, add, run, out>>

Convert ==
  /\ st = "dealt" /\ Scheme # "bls" /\ Accepts(key)
  /\ \E seed \in [Pairs(key.S) -> SeedS] :
       LET c == Coeffs(key)
           sh == SharesOf(key.M, key.lab, key.r)
           z == [i \in key.S |-> ZeroShare(key.S, seed, i)]
       IN add' = [S |-> key.S, x |-> key.r[1], z |-> z,
                  a |-> [i \in key.S |-> Add(Dot(c[i], sh[i]), z[i])],
                  \* Lindell17 keeps the primary's raw share components and coefficients (they travel encrypted)
                  prim |-> IF Scheme = "lindell17" THEN LET p == CHOOSE p \in key.S : \A j \in key.S : p <= j IN
                                                        [id |-> p, sh |-> sh[p], c |-> c[p]] ELSE Null]
  /\ st' = "conv" /\ key' = Null /\ UNCHANGED <<run, out>>

\* ---------------------------------------------------------------- ECDSA in the exponent
\* SEC 1 verification: R' = (m/s) G + (rx/s) pk; accept iff x(R') = rx
ECDSAVerifies(rx, s, m, x) ==
  /\ rx # 0 /\ s # 0
  /\ LET w == Inv(s) kk == Add(Mul(m, w), Mul(Mul(rx, w), x)) IN kk # 0 /\ XOf(kk) = rx
\* SEC 1 recovery: the point with x-coordinate rx and y parity v, then pk = rx^-1 (s R - m G)
RecoveredKey(rx, s, v, m) ==
  LET k == CHOOSE k \in 1..(Q - 1) : XOf(k) = rx /\ YOdd(k) = (v = 1) IN Mul(Inv(rx), Sub(Mul(s, k), m))
LowS(s) == s <= Q - s
\* ecdsa.NewSignature + Normalise: (rx, s, v) -> low-s form, recovery id flipped with s
Normalised(rx, s, v) == IF LowS(s) THEN [r |-> rx, s |-> s, v |-> v] ELSE [r |-> rx, s |-> Neg(s), v |-> 1 - v]

\* ---------------------------------------------------------------- DKLs23
Others(S, i) == S \ {i}
OPairs(S) == {p \in S \X S : p[1] # p[2]}            \* (alice, bob)
\* Round1: nonce share k_i (R_i = k_i G is committed) and phi_i
DklsR1 == /\ Scheme = "dkls23" /\ st = "conv"
          /\ \E k \in [add.S -> KS] : \E phi \in [add.S -> PhiS] :
               run' = [k |-> k, phi |-> phi]
          /\ st' = "r1" /\ UNCHANGED <<key, add, out>>
\* Rounds 2-3: for every ordered pair (alice i, bob j) Bob's multiplier samples chi[i,j]; the VOLE hands Alice c and Bob d with
\* c + d = (k_i, a_i) * chi[i,j]; Alice sends Gamma = c G and psi_{i->j} = phi_i - chi[j,i] (the chi that i sampled as Bob for Alice j)
DklsMul ==
  /\ Scheme = "dkls23" /\ st = "r1"
  /\ \E chi \in [OPairs(add.S) -> ChiS] : \E cu \in [OPairs(add.S) -> CS] : \E cv \in [OPairs(add.S) -> CS] :
       LET du == [p \in OPairs(add.S) |-> Sub(Mul(run.k[p[1]], chi[p]), cu[p])]
           dv == [p \in OPairs(add.S) |-> Sub(Mul(add.a[p[1]], chi[p]), cv[p])]
           \* Bob j's consistency checks on Alice i:  chi R_i - GammaU = d_u G,  chi Pk_i - GammaV = d_v G
           gammaOK == \A p \in OPairs(add.S) : /\ Sub(Mul(chi[p], run.k[p[1]]), cu[p]) = du[p]
                                                /\ Sub(Mul(chi[p], add.a[p[1]]), cv[p]) = dv[p]
           psiIn == [i \in add.S |-> SumOver([j \in Others(add.S, i) |-> Sub(run.phi[j], chi[<<i, j>>])], Others(add.S, i))]
           cudu == [i \in add.S |-> SumOver([j \in Others(add.S, i) |-> Add(cu[<<i, j>>], du[<<j, i>>])], Others(add.S, i))]
           cvdv == [i \in add.S |-> SumOver([j \in Others(add.S, i) |-> Add(cv[<<i, j>>], dv[<<j, i>>])], Others(add.S, i))]
       IN run' = [k |-> run.k, phi |-> run.phi, psi |-> psiIn, cudu |-> cudu, cvdv |-> cvdv, gammaOK |-> gammaOK,
                  pkSumOK |-> SumOver(add.a, add.S) = add.x]
  /\ st' = "mul" /\ UNCHANGED <<key, add, out>>
\* Round4 + Aggregate
DklsSign ==
  /\ Scheme = "dkls23" /\ st = "mul"
  /\ \E m \in MsgS :
       LET S == add.S
           kk == SumOver(run.k, S)
           u == [i \in S |-> Add(Mul(run.k[i], Add(run.phi[i], run.psi[i])), run.cudu[i])]
           v == [i \in S |-> Add(Mul(add.a[i], Add(run.phi[i], run.psi[i])), run.cvdv[i])]
           rx == IF kk = 0 THEN 0 ELSE XOf(kk)
           w == [i \in S |-> Add(Mul(m, run.phi[i]), Mul(rx, v[i]))]
           U == SumOver(u, S)   W == SumOver(w, S)
           \* refusals the code documents: identity nonce, zero x-coordinate, zero partial values (NewPartialSignature), zero sums
           degenerate == kk = 0 \/ rx = 0 \/ (\E i \in S : u[i] = 0 \/ w[i] = 0) \/ U = 0 \/ W = 0
       IN out' = IF degenerate THEN [refused |-> TRUE]
                 ELSE [refused |-> FALSE, m |-> m, x |-> add.x, k |-> kk, phiSum |-> SumOver(run.phi, S), U |-> U, W |-> W,
                       sig |-> Normalised(rx, Mul(W, Inv(U)), IF YOdd(kk) THEN 1 ELSE 0)]
  /\ st' = "signed" /\ UNCHANGED <<key, add, run>>

DklsChecksPass == (Scheme = "dkls23" /\ st = "mul") => run.gammaOK /\ run.pkSumOK
\* u = k phi, w = phi (m + rx x): the multiplications really multiply
DklsProducts == (Scheme = "dkls23" /\ st = "signed" /\ ~out.refused) =>
                   /\ out.U = Mul(out.k, out.phiSum)
                   /\ out.W = Mul(out.phiSum, Add(out.m, Mul(XOf(out.k), out.x)))
ECDSAOut == (Scheme \in {"dkls23", "lindell17"} /\ st = "signed" /\ ~out.refused) =>
              /\ ECDSAVerifies(out.sig.r, out.sig.s, out.m, out.x)
              /\ LowS(out.sig.s)
              /\ RecoveredKey(out.sig.r, out.sig.s, out.sig.v, out.m) = out.x
              \* exactly two digests verify under (r, s): m and -m - 2 r x (whose nonce point is -R, same x-coordinate); finding a
              \* message with the second digest is a hash pre-image problem, so in practice no other message verifies
              /\ \A m2 \in F : ECDSAVerifies(out.sig.r, out.sig.s, m2, out.x) <=>
                                   m2 \in {out.m, Neg(Add(out.m, Mul(2, Mul(out.sig.r, out.x))))}

\* ---------------------------------------------------------------- Lindell17
\* primary P (smaller id) holds the Paillier key; the secondary works on Enc(share components of P) (integer lifts X_k = sh_k + j q)
IntDot(c, X) == LET RECURSIVE Go(_) Go(n) == IF n = 0 THEN 0 ELSE Go(n - 1) + c[n] * X[n] IN Go(Len(c))
SymDecode(p) == LET t == p % PaillierN IN IF 2 * t > PaillierN THEN t - PaillierN ELSE t      \* Plaintext.Normalise
L17Bound(d) == 2 * (Q * Q * Q + 3 * d * Q * Q + 2 * Q) < PaillierN
L17Sign ==
  /\ Scheme = "lindell17" /\ st = "conv"
  /\ \E k1 \in KS \ {0} : \E k2 \in KS \ {0} : \E m \in MsgS : \E rho \in RhoS : \E lift \in [1..Len(add.prim.sh) -> Lifts] :
       LET p == add.prim.id
           s2 == CHOOSE j \in add.S : j # p
           d == Len(add.prim.sh)
           X == [k \in 1..d |-> add.prim.sh[k] + lift[k] * Q]            \* plaintexts of the stored ciphertexts
           kk == Mul(k1, k2)
           rx == XOf(kk)
           scale == Mul(Inv(k2), rx)
           \* CalcC3, as integers (every coefficient is a field-reduced representative in 0..Q-1)
           plain == rho * Q + Mul(Inv(k2), m) + IntDot([k \in 1..d |-> Mul(scale, add.prim.c[k])], X)
                    + Mul(scale, Neg(add.z[s2])) + Mul(scale, add.a[s2])
           dec == SymDecode(plain)                                        \* primary decrypts
           sPrime == dec % Q
           s == Mul(Inv(k1), sPrime)
       IN out' = IF ~L17Bound(d) THEN [refused |-> TRUE, why |-> "modulus"]
                 ELSE IF rx = 0 \/ s = 0 THEN [refused |-> TRUE, why |-> "degenerate"]
                 ELSE [refused |-> FALSE, m |-> m, x |-> add.x, k |-> kk, plain |-> plain, noWrap |-> (plain >= 0 /\ 2 * plain < PaillierN),
                       sPrime |-> sPrime, k2 |-> k2,
                       sig |-> Normalised(rx, s, IF YOdd(kk) THEN 1 ELSE 0)]
  /\ st' = "signed" /\ UNCHANGED <<key, add, run>>
\* the stated inequality really prevents a wrap, and the decrypted value is k2^-1 (m + rx x) mod q
L17NoWrap == (Scheme = "lindell17" /\ st = "signed" /\ ~out.refused) =>
                /\ out.noWrap
                /\ out.sPrime = Mul(Inv(out.k2), Add(out.m, Mul(XOf(out.k), out.x)))

\* ---------------------------------------------------------------- Boldyreva BLS
\* sigma_i[k] = sh_i[k] H(m) per MSP row; the aggregator checks every component against pkShare_i[k] (pairing equation in the
\* exponent), accepts the quorum by the span programme and reconstructs in the exponent
BlsSign ==
  /\ Scheme = "bls" /\ st = "dealt" /\ Accepts(key)
  /\ \E h \in MsgS \ {0} :
       LET sh == SharesOf(key.M, key.lab, key.r)
           c == Coeffs(key)
           sig == [i \in key.S |-> [k \in 1..Len(sh[i]) |-> Mul(sh[i][k], h)]]
           partialOK == \A i \in key.S : \A k \in 1..Len(sh[i]) : sig[i][k] = Mul(h, ShareOf(key.M, key.lab, key.r, i)[k])
           anyIdentity == \E i \in key.S : \E k \in 1..Len(sh[i]) : sig[i][k] = 0          \* Validate refuses identity components
       IN out' = IF anyIdentity THEN [refused |-> TRUE]
                 ELSE [refused |-> FALSE, h |-> h, x |-> key.r[1], partialOK |-> partialOK,
                       sigma |-> SumOver([i \in key.S |-> Dot(c[i], sig[i])], key.S)]
  /\ st' = "signed" /\ UNCHANGED <<key, add, run>>
BlsOut == (Scheme = "bls" /\ st = "signed" /\ ~out.refused) =>
             /\ out.partialOK
             /\ out.sigma = Mul(out.x, out.h)                               \* sigma = [x] H(m): e(sigma, g) = e(H(m), pk)
             /\ \A h2 \in F \ {0} : h2 # out.h => out.sigma # Mul(out.x, h2) \/ out.x = 0

\* ---------------------------------------------------------------- Lindell22 Schnorr with parity rules
\* variant "bip340": even-y public key and nonce; "mina": even-y nonce only; "plain": none
Flip(b, v) == IF b THEN Neg(v) ELSE v
SchnorrSign(variant) ==
  /\ Scheme = "schnorr" /\ st = "conv"
  /\ \E k \in [add.S -> KS] : \E e \in MsgS :
       LET S == add.S
           kk == SumOver(k, S)
           pkOdd == add.x # 0 /\ YOdd(add.x)
           rOdd == kk # 0 /\ YOdd(kk)
           flipX == variant = "bip340" /\ pkOdd                \* CorrectAdditiveSecretShareParity
           flipK == variant \in {"bip340", "mina"} /\ rOdd     \* CorrectPartialNonceParity
           ai == [i \in S |-> Flip(flipX, add.a[i])]
           ki == [i \in S |-> Flip(flipK, k[i])]
           si == [i \in S |-> Add(ki[i], Mul(e, ai[i]))]
           \* cosigning aggregator: s_i G = R_i' + e pk_i' with the parity-corrected partial nonce and partial public key
           partialOK == \A i \in S : si[i] = Add(Flip(flipK, k[i]), Mul(e, Flip(flipX, add.a[i])))
           abort == kk = 0 \/ add.x = 0 \/ \E i \in S : add.a[i] = 0      \* identity nonce / key / effective partial key: documented aborts
       IN out' = IF abort THEN [refused |-> TRUE]
                 ELSE [refused |-> FALSE, variant |-> variant, e |-> e, x |-> add.x, partialOK |-> partialOK,
                       R |-> SumOver(ki, S), s |-> SumOver(si, S)]
  /\ st' = "signed" /\ UNCHANGED <<key, add, run>>
\* public verification: bip340 lifts the x-only key and nonce to even y; mina checks the nonce is even and uses the key as is
SchnorrOut == (Scheme = "schnorr" /\ st = "signed" /\ ~out.refused) =>
  LET P == IF out.variant = "bip340" THEN Flip(YOdd(out.x), out.x) ELSE out.x IN
  /\ out.partialOK
  /\ out.s = Add(out.R, Mul(out.e, P))                     \* s G = R + e P
  /\ out.variant \in {"bip340", "mina"} => ~YOdd(out.R)   \* the nonce the verifier reconstructs has even y
  /\ out.variant = "bip340" => ~YOdd(P)

\* ---------------------------------------------------------------- common
AdditiveSumsToSecret == st = "conv" => /\ SumOver(add.a, add.S) = add.x
                                       /\ SumOver(add.z, add.S) = 0
RefusedIffUnqualified == st = "refused" => ~Accepts(key)
\* a qualified quorum is never stuck at "dealt" and an unqualified one can only be refused: the configurations check deadlock,
\* Done being the only step of a finished run
Done == st \in {"signed", "refused"} /\ UNCHANGED vars

Next == \/ Refuse \/ Convert
        \/ DklsR1 \/ DklsMul \/ DklsSign
        \/ L17Sign
        \/ BlsSign
        \/ SchnorrSign("bip340") \/ SchnorrSign("mina") \/ SchnorrSign("plain")
        \/ Done
Spec == Init /\ [][Next]_vars
=============================================================================

CONSTANTS
  Parties = {1, 2, 3}
  Vals = {"a", "b"}
  Byz = {2}
SPECIFICATION Spec
INVARIANTS Agreement Symmetric PairsDistinct BlameOnlyCheater CheaterCaught AllHonestComplete
CHECK_DEADLOCK FALSE

---------------------------- MODULE SessionTrace ----------------------------
(* Validates real session setups (harness/cmd/session): identifiers,           *)
(* transcripts and seeds are tokens (equal bytes <=> equal token), zero-share   *)
(* material is exact (discrete logs on the toy group).                           *)
EXTENDS Integers, Sequences, FiniteSets, TLC, Json

Trace == ndJsonDeserialize("trace.ndjson")
TQ == Trace[1].q
VARIABLE l
K(i) == ToString(i)
SeqSet(s) == {s[i] : i \in 1..Len(s)}
AddQ(a, b) == (a + b) % TQ
SubQ(a, b) == (a - b) % TQ
RECURSIVE SumSet(_, _)
SumSet(f, S) == IF S = {} THEN 0 ELSE LET x == CHOOSE x \in S : TRUE IN AddQ(f[x], SumSet(f, S \ {x}))

\* one context family: by = [K(id) |-> ctx record] over quorum Qm
FamilyOK(by, Qm) ==
  /\ \A i \in Qm : by[K(i)].id = i /\ SeqSet(by[K(i)].quorum) = Qm
  /\ \A i, j \in Qm : by[K(i)].sid = by[K(j)].sid /\ by[K(i)].tr = by[K(j)].tr            \* same identifier and transcript
  /\ \A i, j \in Qm : i # j => by[K(i)].seeds[K(j)] = by[K(j)].seeds[K(i)]                \* symmetric pairwise seeds
  /\ \A i \in Qm : \A j, k \in Qm \ {i} : j # k => by[K(i)].seeds[K(j)] # by[K(i)].seeds[K(k)]  \* one seed per pair
  /\ \A i, j \in Qm : i # j => by[K(i)].pair[K(j)] = by[K(j)].pair[K(i)]                  \* both ends derive the same element
  \* zero share = sum of the elements of larger peers minus those of smaller peers; sampling is repeatable
  /\ \A i \in Qm : /\ by[K(i)].zero = SubQ(SumSet([j \in Qm \ {i} |-> IF j > i THEN by[K(i)].pair[K(j)] ELSE 0], Qm \ {i}),
                                           SumSet([j \in Qm \ {i} |-> IF j < i THEN by[K(i)].pair[K(j)] ELSE 0], Qm \ {i}))
                   /\ by[K(i)].zeroAgain = by[K(i)].zero
  /\ SumSet([i \in Qm |-> by[K(i)].zero], Qm) = 0                                          \* zero shares sum to the identity

SeedTokens(by, Qm) == {by[K(i)].seeds[K(j)] : i \in Qm, j \in Qm} \ {0}
SeedsOf(by, Qm) == UNION {{by[K(i)].seeds[K(j)] : j \in Qm \ {i}} : i \in Qm}

SessionOK(e) ==
  LET Qm == SeqSet(e.ids) IN
  /\ FamilyOK(e.by, Qm)
  /\ e.after = e.by                                                           \* deriving sub-contexts leaves the session context unchanged
  /\ \A n \in 1..Len(e.subs) :
       LET sb == e.subs[n]  Sq == SeqSet(sb.quorum) IN
       /\ Sq \subseteq Qm /\ FamilyOK(sb.by, Sq)
       /\ \A i \in Sq : sb.by[K(i)].sid = e.by[K(i)].sid                      \* the session identifier is inherited
       /\ \A i \in Sq : K(i) \in DOMAIN sb.again => sb.again[K(i)] = sb.by[K(i)]  \* deriving again (later, alone) gives the same context
       /\ \A i \in Sq : sb.by[K(i)].tr # e.by[K(i)].tr                         \* the transcript binds the sub-quorum
       /\ SeedsOf(sb.by, Sq) \cap SeedsOf(e.by, Qm) = {}                       \* fresh seeds
       /\ \A m \in 1..Len(e.subs) : m # n =>
            /\ e.subs[m].by[K(CHOOSE i \in SeqSet(e.subs[m].quorum) : TRUE)].tr # sb.by[K(CHOOSE i \in Sq : TRUE)].tr
            /\ SeedsOf(e.subs[m].by, SeqSet(e.subs[m].quorum)) \cap SeedsOf(sb.by, Sq) = {}

\* different sessions share nothing (production-size values: a collision would be a defect, not chance)
CrossOK(n) ==
  \A m \in 2..(n - 1) : Trace[m].a = "session" =>
     LET a == Trace[m]  b == Trace[n]
         ia == CHOOSE i \in SeqSet(a.ids) : TRUE
         ib == CHOOSE i \in SeqSet(b.ids) : TRUE
     IN /\ a.by[K(ia)].sid # b.by[K(ib)].sid
        /\ a.by[K(ia)].tr # b.by[K(ib)].tr
        /\ SeedsOf(a.by, SeqSet(a.ids)) \cap SeedsOf(b.by, SeqSet(b.ids)) = {}

Check(n) == LET e == Trace[n] IN
  CASE e.a = "hdr" -> TRUE
    [] e.a = "session" -> SessionOK(e) /\ CrossOK(n)
    [] OTHER -> FALSE
Init == l = 1
Next == l <= Len(Trace) /\ l' = l + 1
CaseOK == l <= Len(Trace) => Check(l)
=============================================================================

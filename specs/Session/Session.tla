------------------------------ MODULE Session ------------------------------
(* Session setup (pkg/mpc/session): commit-then-open coin tossing for a common *)
(* seed and one seed per pair, as a state machine over symbolic values.         *)
(* Hashes and commitments are injective constructors (tuples), so the model     *)
(* decides exactly which inputs each output depends on.                          *)
(*   R1  i broadcasts (ck_i, C_i = Com(common_i))                                *)
(*   R2  i broadcasts the opening of C_i and sends Com_{ck_j}(pair_ij) to j      *)
(*   R3  i opens pair_ij to j                                                     *)
(*   R4  sid = H(all (id, ck, C, opening) in id order);                           *)
(*       seed(i,j) = H(sid-material, pair_{min,max}, pair_{max,min}) keyed by min/max *)
(* One party may be Byzantine: it may open a different value than it committed  *)
(* to, or send different pairwise values than committed. Broadcasts reach all    *)
(* recipients identically (echo broadcast, C11).                                  *)
EXTENDS Integers, Sequences, FiniteSets, TLC

CONSTANTS Parties, Vals, Byz          \* Byz \subseteq Parties (at most one element)
VARIABLES round, common, opened, pairCommit, pairOpen, result
vars == <<round, common, opened, pairCommit, pairOpen, result>>

Honest == Parties \ Byz
Min(a, b) == IF a < b THEN a ELSE b
Max(a, b) == IF a < b THEN b ELSE a
Pairs == {<<i, j>> \in Parties \X Parties : i # j}

Init == /\ round = 1
        /\ common \in [Parties -> Vals]                  \* committed common contributions
        /\ opened = [i \in Parties |-> "none"]
        /\ pairCommit \in [Pairs -> Vals]                \* committed pairwise contributions (i -> j)
        /\ pairOpen = [p \in Pairs |-> "none"]
        /\ result = [i \in Parties |-> "none"]

\* R2/R3: honest parties open what they committed; a Byzantine party opens anything
Open == /\ round = 1
        /\ opened' \in {f \in [Parties -> Vals] : \A i \in Honest : f[i] = common[i]}
        /\ pairOpen' \in {f \in [Pairs -> Vals] : \A p \in Pairs : p[1] \in Honest => f[p] = pairCommit[p]}
        /\ round' = 2
        /\ UNCHANGED <<common, pairCommit, result>>

CommonMaterial == [i \in Parties |-> <<i, common[i], opened[i]>>]       \* identical at all parties: broadcasts
SeedOf(i, j) == <<"seed", CommonMaterial, Min(i, j), Max(i, j), pairOpen[<<Min(i, j), Max(i, j)>>], pairOpen[<<Max(i, j), Min(i, j)>>]>>
\* R3/R4: party i rejects (and blames s) iff some opening it checks does not match the commitment
Rejects(i) == {s \in Parties \ {i} : opened[s] # common[s] \/ pairOpen[<<s, i>>] # pairCommit[<<s, i>>]}
Finish == /\ round = 2
          /\ result' = [i \in Parties |->
                IF Rejects(i) # {} THEN [ok |-> FALSE, blamed |-> Rejects(i)]
                ELSE [ok |-> TRUE, sid |-> <<"sid", CommonMaterial>>, seeds |-> [j \in Parties \ {i} |-> SeedOf(i, j)]]]
          /\ round' = 3
          /\ UNCHANGED <<common, opened, pairCommit, pairOpen>>
Next == Open \/ Finish \/ (round = 3 /\ UNCHANGED vars)
Spec == Init /\ [][Next]_vars

Done(i) == round = 3 /\ result[i].ok
\* ---- properties (honest parties that complete) ----
Agreement == \A i, j \in Honest : Done(i) /\ Done(j) => result[i].sid = result[j].sid
Symmetric == \A i, j \in Honest : (i # j /\ Done(i) /\ Done(j)) => result[i].seeds[j] = result[j].seeds[i]
PairsDistinct == \A i \in Honest : Done(i) => \A j, k \in Parties \ {i} : j # k => result[i].seeds[j] # result[i].seeds[k]
BlameOnlyCheater == \A i \in Honest : round = 3 /\ ~result[i].ok => result[i].blamed \subseteq Byz
\* a deviation that some honest party can see is rejected by that party (the addressee, for a pairwise opening)
CheaterCaught == round = 3 =>
  \A s \in Byz : \A i \in Honest : (opened[s] # common[s] \/ pairOpen[<<s, i>>] # pairCommit[<<s, i>>]) => ~result[i].ok
AllHonestComplete == (round = 3 /\ Byz = {}) => \A i \in Parties : result[i].ok
=============================================================================

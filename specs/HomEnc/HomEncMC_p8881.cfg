CONSTANTS
  P = 83
  Q = 107
  G = 7
  Scheme = "paillier"
  Regs <- R2
  MaxOps = 2
  Msgs <- Some8881
  Nonces <- Nonces8881
  Scalars <- Scalars8881
  Shifts <- Shifts35
  EKeys <- Empty
  EMsgs <- Empty
  ENonces <- Empty
  EScalars <- Empty
INIT Init
NEXT Next
INVARIANTS PCiphertextIsEnc PDecOpen PRepLaw ECiphertextIsEnc EDecCorrect
CHECK_DEADLOCK FALSE

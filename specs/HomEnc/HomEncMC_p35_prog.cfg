CONSTANTS
  P = 5
  Q = 7
  G = 7
  Scheme = "paillier"
  Regs <- R2
  MaxOps = 3
  Msgs <- Msgs35
  Nonces <- Nonces35
  Scalars <- Scalars35
  Shifts <- Shifts35
  EKeys <- Empty
  EMsgs <- Empty
  ENonces <- Empty
  EScalars <- Empty
INIT Init
NEXT Next
INVARIANTS PCiphertextIsEnc PDecOpen PRepLaw ECiphertextIsEnc EDecCorrect
CHECK_DEADLOCK FALSE

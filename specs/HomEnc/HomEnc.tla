------------------------------- MODULE HomEnc -------------------------------
(* Additively homomorphic encryption as an abstract machine over registers.  *)
(*                                                                           *)
(* Paillier, exactly, for a toy modulus N = P*Q (35, 143, Blum 437,           *)
(* safe-prime 8881): c = (1+N)^m * r^N mod N^2.  N^2 < 2^27, so products      *)
(* modulo N^2 do not fit TLC's 32-bit integers: multiplication modulo N^2 is  *)
(* done by doubling (MulD), every intermediate value stays below 2*N^2 < 2^31 *)
(* -- all four moduli are exact.                                              *)
(* ElGamal, exactly, in the toy group of prime order G (harness/toy) written  *)
(* in discrete logarithms: c = (r, m + x*r) mod G.                            *)
(*                                                                           *)
(* Registers hold ciphertexts; ghost variables hold the plaintext and nonce   *)
(* the ciphertext is supposed to carry.  Actions: Enc, Add, ScalarMul (any    *)
(* integer scalar), Neg, Shift (add a plaintext), ReRand, (Dec and Open are   *)
(* total functions checked in the invariants).  Invariants = the property on  *)
(* the model: every register is the textbook encryption of its ghost          *)
(* plaintext under its ghost nonce; decryption by the L-function returns the  *)
(* ghost plaintext; the nonce is recovered by the unique N-th root.           *)
EXTENDS HomEncMath

CONSTANTS Scheme,          \* "paillier" or "elgamal": which machine Next runs
          Regs, MaxOps,
          Msgs, Nonces, Scalars, Shifts,       \* Paillier programme alphabet
          EKeys, EMsgs, ENonces, EScalars      \* ElGamal programme alphabet

--------------------------------------------------------------------------
VARIABLES reg,     \* register -> ciphertext (Paillier: integer; ElGamal: pair)
          has,     \* register holds a ciphertext
          pt, nc,  \* ghost plaintext / nonce of each register
          key,     \* ElGamal secret key (0 while unset / Paillier)
          ops      \* operations executed
vars == <<reg, has, pt, nc, key, ops>>

Init == /\ reg = [i \in Regs |-> IF Scheme = "paillier" THEN 0 ELSE <<0, 0>>] /\ has = [i \in Regs |-> FALSE] /\ pt = [i \in Regs |-> 0] /\ nc = [i \in Regs |-> 0] /\ ops = 0
        /\ key \in (IF Scheme = "elgamal" THEN EKeys ELSE {0})

Put(k, c, m, r) == /\ reg' = [reg EXCEPT ![k] = c] /\ has' = [has EXCEPT ![k] = TRUE] /\ pt' = [pt EXCEPT ![k] = m] /\ nc' = [nc EXCEPT ![k] = r]
                   /\ ops' = ops + 1 /\ UNCHANGED key

PEnc(k, m, r) == Put(k, Enc(m, r), m % N, r)
PAdd(i, j, k) == has[i] /\ has[j] /\ Put(k, CAdd(reg[i], reg[j]), (pt[i] + pt[j]) % N, (nc[i] * nc[j]) % N)
PScalar(i, s, k) == has[i] /\ Put(k, CPowI(reg[i], s), PtScale(pt[i], s), NcPowI(nc[i], s))
PNeg(i, k) == has[i] /\ Put(k, Inv2(reg[i]), (0 - pt[i]) % N, InvN(nc[i]))
PShift(i, d, k) == has[i] /\ Put(k, CShift(reg[i], d), (pt[i] + d) % N, nc[i])
PReRand(i, r, k) == has[i] /\ Put(k, CReRand(reg[i], r), pt[i], (nc[i] * r) % N)

PNext == /\ ops < MaxOps
         /\ \/ \E k \in Regs, m \in Msgs, r \in Nonces : PEnc(k, m, r)
            \/ \E i, j, k \in Regs : PAdd(i, j, k)
            \/ \E i, k \in Regs, s \in Scalars : PScalar(i, s, k)
            \/ \E i, k \in Regs : PNeg(i, k)
            \/ \E i, k \in Regs, d \in Shifts : PShift(i, d, k)
            \/ \E i, k \in Regs, r \in Nonces : PReRand(i, r, k)

EEncA(k, m, r) == Put(k, EEnc(key, m, r), m % G, r % G)
EAddA(i, j, k) == has[i] /\ has[j] /\ Put(k, EAdd(reg[i], reg[j]), (pt[i] + pt[j]) % G, (nc[i] + nc[j]) % G)
EScalarA(i, s, k) == has[i] /\ Put(k, EScale(reg[i], s), (pt[i] * (s % G)) % G, (nc[i] * (s % G)) % G)
ENegA(i, k) == has[i] /\ Put(k, ENeg(reg[i]), (0 - pt[i]) % G, (0 - nc[i]) % G)
EShiftA(i, d, k) == has[i] /\ Put(k, EShift(reg[i], d), (pt[i] + d) % G, nc[i])
EReRandA(i, r, k) == has[i] /\ Put(k, EReRand(key, reg[i], r), pt[i], (nc[i] + r) % G)

ENext == /\ ops < MaxOps
         /\ \/ \E k \in Regs, m \in EMsgs, r \in ENonces : EEncA(k, m, r)
            \/ \E i, j, k \in Regs : EAddA(i, j, k)
            \/ \E i, k \in Regs, s \in EScalars : EScalarA(i, s, k)
            \/ \E i, k \in Regs : ENegA(i, k)
            \/ \E i, k \in Regs, d \in EMsgs : EShiftA(i, d, k)
            \/ \E i, k \in Regs, r \in ENonces : EReRandA(i, r, k)

Next == IF Scheme = "paillier" THEN PNext ELSE ENext
Spec == Init /\ [][Next]_vars

--------------------------------------------------------------------------
(* the property, on the model *)
\* every register is the textbook encryption of its ghost plaintext under its ghost nonce (homomorphisms are exact)
PCiphertextIsEnc == Scheme = "paillier" => \A i \in Regs : has[i] => reg[i] = Enc(pt[i], nc[i]) /\ IsUnitN(nc[i]) /\ InCtGroup(reg[i])
\* decryption inverts; opening recovers the nonce, which is unique
PDecOpen == Scheme = "paillier" => \A i \in Regs : has[i] =>
               /\ DecL(reg[i]) = pt[i]
               /\ IsNonceOf(reg[i], pt[i], nc[i])
               /\ \A r \in UnitsN : IsNonceOf(reg[i], pt[i], r) => r = nc[i]
\* the two ways of writing the plaintext carrier agree; re-randomisation keeps the plaintext
PRepLaw == Scheme = "paillier" => \A i \in Regs : has[i] =>
               /\ Rep(pt[i]) = PowD(1 + N, pt[i], N2)
               /\ reg[i] = Mul(Rep(pt[i]), Noise(nc[i]), N2)
               /\ \A r \in Nonces : DecL(CReRand(reg[i], r)) = pt[i]

ECiphertextIsEnc == Scheme = "elgamal" => \A i \in Regs : has[i] => reg[i] = EEnc(key, pt[i], nc[i])
EDecCorrect == Scheme = "elgamal" => \A i \in Regs : has[i] => EDec(key, reg[i]) = pt[i]
=============================================================================

---------------------------- MODULE HomEncTrace ----------------------------
(* Validates real runs of pkg/encryption/paillier (toy key, test-mode build) *)
(* and pkg/encryption/elgamal (toy group) recorded by harness/homenc. One     *)
(* line = one API call through BOTH key paths (public key and secret key):    *)
(* the two results must be the same ciphertext and equal TLC's textbook value  *)
(* computed from the logged inputs; the decryption and the opening logged for  *)
(* the result must be the plaintext / nonce the homomorphism predicts          *)
(* (addition, multiplication by the scalar, shift, identity modulo N).         *)
(* The first line carries the key: P, Q (Paillier) and G (ElGamal).            *)
EXTENDS Integers, Sequences, FiniteSets, TLC, Json

Trace == ndJsonDeserialize("trace.ndjson")
TP == Trace[1].P
TQ == Trace[1].Q
TG == Trace[1].G
Testing == Trace[1].testing
INSTANCE HomEncMath WITH P <- TP, Q <- TQ, G <- TG

VARIABLE l
vars == <<l>>

SymRep(v) == IF 2 * v > N THEN v - N ELSE v            \* N odd: the representative of smallest magnitude
NBits == 3072                                           \* the library's floor for fresh keys (2048 for legacy constructors)

\* what every result line logs about the resulting ciphertext c: decryption and opening
ResTail(e, c, m, r) == /\ e.decok /\ e.dec = m /\ e.norm = SymRep(m) /\ DecL(c) = m
                    /\ e.openok /\ e.om = m /\ e.or = r /\ IsNonceOf(c, m, r)

CheckP(e) ==
  CASE e.a = "p.key" -> e.grpok /\ (e.skok <=> Testing) /\ (e.pkok <=> Testing)
    [] e.a = "p.floor" -> e.grpok /\ ~Testing /\ ~e.skok /\ ~e.pkok /\ ~e.lskok /\ ~e.lpkok    \* the floors refuse every toy key
    [] e.a = "p.big" -> /\ e.ok /\ e.nbits = 2048 /\ (e.newok <=> Testing) /\ e.legacyok
                        /\ e.enceq /\ e.decok /\ e.openok /\ e.homok
    [] e.a = "p.pt" ->
         /\ e.symok <=> InSym(e.x)
         /\ e.symok => e.symv = e.x % N /\ e.norm = e.x
         /\ e.natok <=> (0 <= e.x /\ e.x < N)
         /\ e.natok => e.natv = e.x /\ e.natnorm = SymRep(e.x)
         /\ e.ncok <=> (e.x >= 1 /\ IsUnitN(e.x % N))
    [] e.a = "p.ct" ->
         /\ e.ok <=> InCtGroup(e.c % N2)
         /\ e.ok => e.v = e.c % N2 /\ e.decok
    [] e.a = "p.ptop" -> e.add = (e.m1 + e.m2) % N /\ e.neg = (0 - e.m1) % N
    [] e.a = "p.ptsmul" -> e.ok /\ e.smul = PtScale(e.m1, e.s)
    [] e.a = "p.ncop" -> /\ e.mul = (e.r1 * e.r2) % N /\ e.mulsk = e.mul
                         /\ IsUnitN(e.inv) /\ (e.r1 * e.inv) % N = 1 /\ e.invsk = e.inv
    [] e.a = "p.ncpow" -> e.pow = NcPowI(e.r1, e.s) /\ e.powsk = e.pow
    [] e.a = "p.enc" ->
         /\ e.ok /\ e.eq
         /\ e.pk = Enc(e.m, e.r) /\ e.sk = e.pk                        \* public path = CRT path = textbook value
         /\ e.rep = Rep(e.m) /\ e.repsk = e.rep /\ e.noise = Noise(e.r) /\ e.noisesk = e.noise
         /\ ResTail(e, e.pk, e.m, e.r)
    [] e.a = "p.add" ->
         /\ e.ok /\ e.pk = CAdd(e.c, e.d) /\ e.sk = e.pk
         /\ IsNonceOf(e.c, DecL(e.c), e.rin) /\ IsNonceOf(e.d, DecL(e.d), e.rin2)
         /\ ResTail(e, e.pk, (DecL(e.c) + DecL(e.d)) % N, (e.rin * e.rin2) % N)
    [] e.a = "p.smul" ->
         /\ e.ok /\ e.pk = CPowI(e.c, e.arg) /\ e.sk = e.pk
         /\ IsNonceOf(e.c, DecL(e.c), e.rin)
         /\ ResTail(e, e.pk, PtScale(DecL(e.c), e.arg), NcPowI(e.rin, e.arg))
    [] e.a = "p.neg" ->
         /\ e.ok /\ e.pk = Inv2(e.c) /\ e.sk = e.pk /\ Mul(e.pk, e.c, N2) = 1
         /\ IsNonceOf(e.c, DecL(e.c), e.rin)
         /\ ResTail(e, e.pk, (0 - DecL(e.c)) % N, InvN(e.rin))
    [] e.a = "p.shift" ->
         /\ e.ok /\ e.pk = CShift(e.c, e.arg) /\ e.sk = e.pk
         /\ IsNonceOf(e.c, DecL(e.c), e.rin)
         /\ ResTail(e, e.pk, (DecL(e.c) + e.arg) % N, e.rin)
    [] e.a = "p.rerand" ->
         /\ e.ok /\ e.pk = CReRand(e.c, e.arg) /\ e.sk = e.pk
         /\ IsNonceOf(e.c, DecL(e.c), e.rin)
         /\ ResTail(e, e.pk, DecL(e.c), (e.rin * e.arg) % N)
    [] OTHER -> FALSE

ETail(e, c, m) == e.decok /\ e.dec = m /\ EDec(e.x, c) = m
CheckE(e) ==
  CASE e.a = "e.key" -> (e.skok <=> e.x \notin {0, 1}) /\ (e.pkok <=> e.x # 0)
    [] e.a = "e.pub" -> e.h = e.x % TG
    [] e.a = "e.enc" ->
         /\ e.ok /\ e.pk = EEnc(e.x, e.m, e.r) /\ e.sk = e.pk
         /\ e.rep = <<0, e.m % TG>> /\ e.noise = EEnc(e.x, 0, e.r) /\ e.noisesk = e.noise
         /\ e.dec = e.m % TG
    [] e.a = "e.ptop" ->
         /\ e.padd = (e.m + e.s) % TG /\ e.psmul = (e.m * e.s) % TG /\ e.pneg = (0 - e.m) % TG
         /\ e.nadd = (e.m + e.s) % TG /\ e.nsmul = (e.m * e.s) % TG /\ e.nneg = (0 - e.m) % TG
    [] e.a = "e.add" -> e.ok /\ e.pk = EAdd(e.c, e.d) /\ e.sk = e.pk /\ ETail(e, e.pk, (EDec(e.x, e.c) + EDec(e.x, e.d)) % TG)
    [] e.a = "e.smul" -> e.ok /\ e.pk = EScale(e.c, e.arg) /\ e.sk = e.pk /\ ETail(e, e.pk, (EDec(e.x, e.c) * e.arg) % TG)
    [] e.a = "e.neg" -> e.ok /\ e.pk = ENeg(e.c) /\ e.sk = e.pk /\ ETail(e, e.pk, (0 - EDec(e.x, e.c)) % TG)
    [] e.a = "e.shift" -> e.ok /\ e.pk = EShift(e.c, e.arg) /\ e.sk = e.pk /\ ETail(e, e.pk, (EDec(e.x, e.c) + e.arg) % TG)
    [] e.a = "e.rerand" -> e.ok /\ e.pk = EReRand(e.x, e.c, e.arg) /\ e.sk = e.pk /\ ETail(e, e.pk, EDec(e.x, e.c))
    [] OTHER -> FALSE

Check(e) ==
  CASE e.a = "hdr" -> TRUE
    [] e.f = "p" -> CheckP(e)
    [] e.f = "e" -> CheckE(e)
    [] OTHER -> FALSE

Init == l = 1
Next == l <= Len(Trace) /\ l' = l + 1
\* scan mode (no invariant): one pass that prints every rejected line instead of stopping at the first
NextScan == l <= Len(Trace) /\ l' = l + 1 /\ (Check(Trace[l]) \/ PrintT(<<"REJECTED", l>>))
Spec == Init /\ [][Next]_vars

CaseOK == l <= Len(Trace) => Check(Trace[l])
=============================================================================

CONSTANTS
  P = 11
  Q = 13
  G = 7
  Scheme = "paillier"
  Regs <- R1
  MaxOps = 1
  Msgs <- AllMsgs143
  Nonces <- AllUnits143
  Scalars <- Empty
  Shifts <- Empty
  EKeys <- Empty
  EMsgs <- Empty
  ENonces <- Empty
  EScalars <- Empty
INIT Init
NEXT Next
INVARIANTS PCiphertextIsEnc PDecOpen PRepLaw ECiphertextIsEnc EDecCorrect
CHECK_DEADLOCK FALSE

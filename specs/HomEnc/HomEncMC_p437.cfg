CONSTANTS
  P = 19
  Q = 23
  G = 7
  Scheme = "paillier"
  Regs <- R2
  MaxOps = 2
  Msgs <- Some437
  Nonces <- Nonces437
  Scalars <- Scalars437
  Shifts <- Shifts35
  EKeys <- Empty
  EMsgs <- Empty
  ENonces <- Empty
  EScalars <- Empty
INIT Init
NEXT Next
INVARIANTS PCiphertextIsEnc PDecOpen PRepLaw ECiphertextIsEnc EDecCorrect
CHECK_DEADLOCK FALSE

------------------------------ MODULE HomEncMC ------------------------------
(* Model-checking instances of HomEnc: all programmes of at most MaxOps       *)
(* operations over the registers, for the toy Paillier modulus 35 = 5*7 with  *)
(* a reduced plaintext / nonce / scalar alphabet that contains 0, 1, N-1, the  *)
(* two ends of the symmetric range and scalars that are negative, zero and     *)
(* larger than N; every (m, r) pair exhaustively for one-operation runs; and   *)
(* ElGamal over the toy group of order 7 with every key, message and nonce.    *)
EXTENDS HomEnc, TLC

R2 == {1, 2}
R1 == {1}
\* N = 35: symmetric range -17..17 -> residues 17 and 18 are its ends
Msgs35 == {0, 1, 17, 18, 34}
Nonces35 == {1, 2, 34}
Scalars35 == {0 - 36, 0 - 1, 0, 2, 35, 71}
Shifts35 == {1, 34}
AllMsgs35 == 0..34
AllUnits35 == {r \in 1..34 : r % 5 # 0 /\ r % 7 # 0}
AllMsgs143 == 0..142
AllUnits143 == {r \in 1..142 : r % 11 # 0 /\ r % 13 # 0}
Some437 == {0, 1, 218, 219, 436}
Nonces437 == {1, 2, 436, 100}
Scalars437 == {0 - 438, 0 - 1, 0, 3, 437, 875}
Some8881 == {0, 1, 4440, 4441, 8880}
Nonces8881 == {1, 2, 8880, 4242}
Scalars8881 == {0 - 8882, 0 - 1, 0, 3, 8881}
Empty == {}
EKeys7 == 2..6
EAll7 == 0..6
EScal7 == {0, 1, 3, 6}
EKeys11 == 2..10
ESome11 == {0, 1, 5, 10}
=============================================================================

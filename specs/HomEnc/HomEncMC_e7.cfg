CONSTANTS
  P = 5
  Q = 7
  G = 7
  Scheme = "elgamal"
  Regs <- R2
  MaxOps = 3
  Msgs <- Empty
  Nonces <- Empty
  Scalars <- Empty
  Shifts <- Empty
  EKeys <- EKeys7
  EMsgs <- EAll7
  ENonces <- EAll7
  EScalars <- EScal7
INIT Init
NEXT Next
INVARIANTS PCiphertextIsEnc PDecOpen PRepLaw ECiphertextIsEnc EDecCorrect
CHECK_DEADLOCK FALSE

----------------------------- MODULE HomEncMath -----------------------------
(* The arithmetic of HomEnc: exact Paillier for a toy modulus N = P*Q and     *)
(* exact ElGamal in discrete logarithms modulo the prime G. No variables:     *)
(* HomEnc (the register machine) and HomEncTrace (the judge of real runs)     *)
(* both build on these definitions. See HomEnc.tla for the explanation.       *)
EXTENDS Integers, Sequences, FiniteSets

CONSTANTS P, Q,            \* Paillier primes (N = P*Q)
          G                \* ElGamal: prime order of the toy group

Abs(x) == IF x < 0 THEN 0 - x ELSE x
N == P * Q
N2 == N * N

--------------------------------------------------------------------------
(* arithmetic modulo m < 2^30 without overflow *)
RECURSIVE MulD(_, _, _)
MulD(a, b, m) == IF b = 0 THEN 0
                 ELSE LET h == MulD((a + a) % m, b \div 2, m) IN IF b % 2 = 1 THEN (h + a) % m ELSE h
Mul(a, b, m) == IF m <= 46340 THEN ((a % m) * (b % m)) % m          \* the product fits 31 bits (N = 35, 143)
               ELSE MulD(a % m, b % m, m)
RECURSIVE PowD(_, _, _)
PowD(a, e, m) == IF e = 0 THEN 1 % m
                 ELSE LET s == PowD(Mul(a, a, m), e \div 2, m) IN IF e % 2 = 1 THEN Mul(a, s, m) ELSE s

RECURSIVE GcdE(_, _)
GcdE(a, b) == IF b = 0 THEN a ELSE GcdE(b, a % b)
IsUnitN(r) == r \in 1..(N - 1) /\ GcdE(r, N) = 1
UnitsN == {r \in 1..(N - 1) : GcdE(r, N) = 1}
InvN(a) == CHOOSE y \in 0..(N - 1) : (a * y) % N = 1                  \* N <= 8881: a*y < 2^27
\* inverse modulo N^2 of a unit c (c^(phi(N^2) - 1), phi(N^2) = N*(P-1)*(Q-1))
Inv2(c) == PowD(c, N * (P - 1) * (Q - 1) - 1, N2)

--------------------------------------------------------------------------
(* Paillier, textbook *)
Enc(m, r) == Mul(PowD(1 + N, m % N, N2), PowD(r, N, N2), N2)
Rep(m) == (1 + (m % N) * N) % N2                                       \* (1+N)^m = 1 + mN
Noise(r) == PowD(r, N, N2)
CAdd(c, d) == Mul(c, d, N2)
CPowI(c, s) == IF s >= 0 THEN PowD(c, s, N2) ELSE PowD(Inv2(c), 0 - s, N2)
CShift(c, d) == Mul(c, Rep(d), N2)
CReRand(c, r) == Mul(c, Noise(r), N2)
\* decryption by the L function: m = L(c^lambda mod N^2) * lambda^-1 mod N, L(u) = (u-1)/N
RECURSIVE LcmUp(_, _, _)
LcmUp(a, b, k) == IF (k * a) % b = 0 THEN k * a ELSE LcmUp(a, b, k + 1)
Lambda == LcmUp(P - 1, Q - 1, 1)
DecL(c) == LET u == PowD(c, Lambda, N2) IN (((u - 1) \div N) * InvN(Lambda % N)) % N
\* the nonce: the unique unit r below N whose N-th power is c / (1+N)^m
IsNonceOf(c, m, r) == IsUnitN(r) /\ Enc(m, r) = c
InCtGroup(c) == c \in 1..(N2 - 1) /\ GcdE(c, N) = 1
\* scalar action on plaintext and nonce
PtScale(m, s) == (m * (s % N)) % N
NcPowI(r, s) == IF s >= 0 THEN PowD(r, s, N) ELSE PowD(InvN(r), 0 - s, N)
\* symmetric plaintext range [-N/2, N/2)
InSym(x) == 0 - N <= 2 * x /\ 2 * x < N

--------------------------------------------------------------------------
(* ElGamal in discrete logarithms modulo G: secret x, public h = x, c = <<r, m + x*r>> *)
EEnc(x, m, r) == <<r % G, (m + x * r) % G>>
EAdd(c, d) == <<(c[1] + d[1]) % G, (c[2] + d[2]) % G>>
EScale(c, s) == <<(c[1] * (s % G)) % G, (c[2] * (s % G)) % G>>
ENeg(c) == <<(0 - c[1]) % G, (0 - c[2]) % G>>
EShift(c, d) == <<c[1], (c[2] + d) % G>>
EReRand(x, c, r) == EAdd(c, EEnc(x, 0, r))
EDec(x, c) == (c[2] - x * c[1]) % G

=============================================================================

INIT Init
NEXT NextScan
CHECK_DEADLOCK FALSE

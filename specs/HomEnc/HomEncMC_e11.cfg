CONSTANTS
  P = 5
  Q = 7
  G = 11
  Scheme = "elgamal"
  Regs <- R2
  MaxOps = 3
  Msgs <- Empty
  Nonces <- Empty
  Scalars <- Empty
  Shifts <- Empty
  EKeys <- EKeys11
  EMsgs <- ESome11
  ENonces <- ESome11
  EScalars <- ESome11
INIT Init
NEXT Next
INVARIANTS PCiphertextIsEnc PDecOpen PRepLaw ECiphertextIsEnc EDecCorrect
CHECK_DEADLOCK FALSE

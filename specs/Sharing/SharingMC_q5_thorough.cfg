CONSTANTS
  Q = 5
  MaxN = 4
  MaxD = 6
  Fams = {"threshold", "unanimity", "cnf"}
  CountD = 3
  DealD = 3
  Eta = 0
INIT Init
NEXT Next
INVARIANTS SpansIffQualified PolicyMonotone DefsAgree PerfectPrivacy SharesAreMr ReconstructOK ConvertOK LinearOK
CHECK_DEADLOCK FALSE

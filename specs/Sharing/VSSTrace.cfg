INIT Init
NEXT Next
INVARIANTS CaseOK
CHECK_DEADLOCK FALSE

INIT Init
NEXT Next
INVARIANTS CertOK CaseOK
CHECK_DEADLOCK FALSE

CONSTANTS
  Q = 5
  MaxN = 4
  MaxD = 4
  Fams = {"cnf"}
  CountD = 3
  DealD = 0
  Eta = 0
INIT Init
NEXT Next
INVARIANTS SpansIffQualified
CHECK_DEADLOCK FALSE

---------------------------- MODULE SharingTrace ----------------------------
(* Validates a log of real calls into pkg/mpc/sharing (driver                 *)
(* harness/cmd/sharing -mode c02, toy field Z_q) against Access / MSP (C02).   *)
(* Every line is one API call (or one family of calls over all subsets of the *)
(* shareholders of one policy) with arguments and results.  The code's OWN    *)
(* span programme (matrix M, row labelling lab) is taken from the log as      *)
(* given and judged declaratively; it is never compared with a construction.  *)
(* Values the code chose freely (random columns, which reconstruction vector) *)
(* are read from the log and only constrained.                                *)
EXTENDS Integers, Sequences, FiniteSets, TLC, Json

Trace == ndJsonDeserialize("trace.ndjson")
TQ == Trace[1].q
INSTANCE MSP WITH Q <- TQ
INSTANCE Access

VARIABLE l
vars == <<l>>

RECURSIVE Trim(_)
Trim(c) == IF Len(c) > 0 /\ c[Len(c)] = 0 THEN Trim(SubSeq(c, 1, Len(c) - 1)) ELSE c
Idx(e) == 1..Len(e.subs)
SetOf(e, i) == Range(e.subs[i])
Qual(e, i) == Qualified(e.pol, SetOf(e, i))
Holders(e) == HoldersOf(e.pol)
ShareIds(shares) == {shares[k].id : k \in 1..Len(shares)}
ShareV(shares, id) == LET k == CHOOSE k \in 1..Len(shares) : shares[k].id = id IN shares[k].v
VAdd(u, v) == [j \in 1..Len(u) |-> Add(u[j], v[j])]
VScale(a, u) == [j \in 1..Len(u) |-> Mul(a, u[j])]
\* pad / add coefficient sequences of possibly different lengths
Coef(c, k) == IF k <= Len(c) THEN c[k] ELSE 0
MaxLen(a, b) == IF Len(a) > Len(b) THEN Len(a) ELSE Len(b)
PolyAdd(a, b) == [k \in 1..MaxLen(a, b) |-> Add(Coef(a, k), Coef(b, k))]

\* ---------------------------------------------------------------- hierarchical / Tassa admission
\* The library must refuse when Tassa's requirement fails (identifiers increase from level to level and
\* alpha(k) N^((k-1)(k-2)/2) < q with k the top threshold, N the largest identifier); it may refuse
\* only when its own, slightly stricter, form of the requirement (k+1, N+1) fails.
HierMust(p) == HierIdsIncreasing(p) /\ TassaCond(HierTop(p), MaxOf(HoldersOf(p)))
HierSlack(p) == HierIdsIncreasing(p) /\ TassaCond(HierTop(p) + 1, MaxOf(HoldersOf(p)) + 1)
HierAdmission(p, ok) == (ok => HierMust(p)) /\ (~ok => ~HierSlack(p))

\* ---------------------------------------------------------------- access structure
AccessOK(e) ==
  /\ \A i \in Idx(e) : e.isq[i] = Qual(e, i)
  /\ Range(e.sh) = Holders(e)
  /\ e.hasmus => {Range(e.mus[k]) : k \in 1..Len(e.mus)} = MaximalUnqualified(e.pol) \ {{}}

\* ---------------------------------------------------------------- span programme induced by the code
CertValid(M, rs, c) == \/ c.k = "c" /\ IsReconVector(M, rs, c.v)
                       \/ c.k = "w" /\ (IF Len(rs) = 0 THEN TRUE ELSE IsPrivacyWitness(M, rs, c.v))
\* harness-made certificates must verify (a failure is a harness fault, not a verdict)
CertOK == (l <= Len(Trace) /\ Trace[l].a = "msp" /\ Trace[l].ok) =>
  \A i \in Idx(Trace[l]) : CertValid(Trace[l].M, RowsOf(Trace[l].lab, SetOf(Trace[l], i)), Trace[l].cert[i])

SmallRows(M, rs) == Len(rs) <= 4 /\ NCols(M) <= 4
MspOK(e) ==
  /\ e.schemeok = e.ok
  /\ IF e.pol.fam = "hier" THEN HierAdmission(e.pol, e.ok)
     ELSE ~e.ok => ~SomeSetQualified(e.pol)        \* nothing to share when no set is qualified
  /\ e.ok =>
       /\ Len(e.M) > 0 /\ WellFormed(e.M) /\ Len(e.lab) = NRows(e.M) /\ e.d = NCols(e.M)
       /\ LabelSet(e.lab) \subseteq Holders(e)
       /\ e.ideal = (\A id \in LabelSet(e.lab) : Len(RowsOf(e.lab, {id})) = 1)
       /\ \A i \in Idx(e) :
            LET rs == RowsOf(e.lab, SetOf(e, i))
                spans == e.cert[i].k = "c"          \* sound by CertOK: either certificate decides the question
                qual == Qual(e, i)
            IN /\ spans = qual                      \* exactly the qualified sets span e0; the others have a privacy witness
               /\ e.acc[i] = qual                   \* msp.Accepts
               /\ e.can[i] = qual                   \* kw.Scheme.CanReconstruct
               /\ e.acc[i] => IsReconVector(e.M, rs, e.rv[i])      \* the code's reconstruction vector
               /\ (SmallRows(e.M, rs) /\ Len(rs) > 0) => (SpansRows(e.M, rs) = spans)   \* rank definition agrees

\* ---------------------------------------------------------------- dealing through KW / Feldman / Pedersen
RecRule(e, recs, secret) ==
  \A i \in Idx(e) : ~recs[i].missing =>
     /\ recs[i].ok = Qual(e, i)                     \* Reconstruct succeeds exactly on qualified sets
     /\ recs[i].ok => recs[i].v = secret            \* and returns the dealt secret
AddRule(e, adds, secret) ==
  \A i \in Idx(e) : (adds[i].tried /\ Qual(e, i)) =>
     /\ adds[i].ok /\ Len(adds[i].vals) = Len(e.subs[i])
     /\ SumSeqQ(adds[i].vals) = secret              \* additive shares over a qualified quorum sum to the secret
SharesAre(e, shares, col) ==
  /\ ShareIds(shares) = LabelSet(e.lab) \cap Holders(e)
  /\ \A k \in 1..Len(shares) : shares[k].v = ShareOf(e.M, e.lab, col, shares[k].id)

KwDealOK(e) ==
  \* one-column programmes are refused by design: every single party is already qualified (or no set is)
  /\ ~e.ok => (NCols(e.M) = 1 /\ (EverySingleQualified(e.pol) \/ ~SomeSetQualified(e.pol)))
  /\ e.ok =>
       /\ IsVec(e.r, NCols(e.M)) /\ e.r[1] = e.secret /\ e.dfsecret = e.secret
       /\ SharesAre(e, e.shares, e.r)               \* shares = M * r
       \* (sets containing a holder without rows are judged once, on the "msp" line)
       /\ \A i \in Idx(e) : SetOf(e, i) \subseteq LabelSet(e.lab) => e.can[i] = Qual(e, i)
       /\ RecRule(e, e.rec, e.secret)
       /\ AddRule(e, e.add, e.secret)

KwLinOK(e) ==
  /\ SharesAre(e, e.sum, VAdd(e.r1, e.r2))
  /\ SharesAre(e, e.scaled, VScale(e.s, e.r1))
  /\ RecRule(e, e.recsum, Add(e.r1[1], e.r2[1]))
  /\ RecRule(e, e.recscaled, Mul(e.s, e.r1[1]))

\* ---------------------------------------------------------------- Shamir
ShamirSharesAre(e, shares, c) ==
  /\ ShareIds(shares) = Holders(e)
  /\ \A k \in 1..Len(shares) : shares[k].v = <<EvalPoly(c, shares[k].id)>>
ShamirOK(e) ==
  /\ Len(e.coeffs) >= 1 /\ Len(e.coeffs) <= e.pol.t /\ e.coeffs[1] = e.secret
  /\ ShamirSharesAre(e, e.shares, e.coeffs)
  /\ \A i \in Idx(e) : e.can[i] = Qual(e, i)
  /\ RecRule(e, e.rec, e.secret)
  /\ AddRule(e, e.add, e.secret)
ShamirLinOK(e) ==
  /\ ShamirSharesAre(e, e.sum, PolyAdd(e.c1, e.c2))
  /\ ShamirSharesAre(e, e.scaled, VScale(e.s, e.c1))
  /\ RecRule(e, e.recsum, Add(e.c1[1], e.c2[1]))
  /\ RecRule(e, e.recscaled, Mul(e.s, e.c1[1]))

\* ---------------------------------------------------------------- additive
AdditiveOK(e) ==
  /\ ShareIds(e.shares) = Holders(e)
  /\ SumSeqQ([k \in 1..Len(e.shares) |-> e.shares[k].v[1]]) = e.secret
  /\ RecRule(e, e.rec, e.secret)

\* ---------------------------------------------------------------- ISN (one piece per maximal unqualified set)
IsnOK(e) ==
  \* one piece per maximal unqualified set: the scheme lives on the parties that occur in such a set.  It cannot
  \* represent a holder that is qualified on its own (refused), and needs two parties to exist at all.
  /\ ~e.ok => (\/ \E h \in Holders(e) : Qualified(e.pol, {h})
               \/ Cardinality(UNION MaximalUnqualified(e.pol)) < 2)
  /\ e.ok =>
       LET mus == [j \in 1..Len(e.musc) |-> Range(e.musc[j])] IN
       /\ {mus[j] : j \in 1..Len(mus)} = MaximalUnqualified(e.pol)
       /\ Len(e.pieces) = Len(mus) /\ SumSeqQ(e.pieces) = e.secret
       /\ ShareIds(e.shares) = Holders(e)
       /\ \A k \in 1..Len(e.shares) :
            /\ Range(e.shares[k].idx) = {j \in 1..Len(mus) : e.shares[k].id \notin mus[j]}
            /\ \A x \in 1..Len(e.shares[k].idx) : e.shares[k].v[x] = e.pieces[e.shares[k].idx[x]]
       /\ \A i \in Idx(e) :
            /\ e.can[i] = Qual(e, i)
            \* an unqualified set misses at least one piece entirely: its shares fit every secret
            /\ ~Qual(e, i) => \E j \in 1..Len(mus) : SetOf(e, i) \subseteq mus[j]
       /\ RecRule(e, e.rec, e.secret)
       /\ AddRule(e, e.add, e.secret)

\* linearity of ISN shares: a combination k1 * (dealing 1) + k2 * (dealing 2 or 3) of the shares is a sharing of the
\* combined secret: every holder owns exactly its pieces (also those that became the identity), with the combined values,
\* qualified sets reconstruct the combined secret and the additive conversion sums to it
IsnLinOK(e) ==
  LET mus == [j \in 1..Len(e.musc) |-> Range(e.musc[j])] IN
  /\ {mus[j] : j \in 1..Len(mus)} = MaximalUnqualified(e.pol)
  /\ SumSeqQ(e.p1) = e.s1 /\ SumSeqQ(e.p2) = e.s2 /\ SumSeqQ(e.p3) = e.s2
  /\ \A n \in 1..Len(e.combos) :
       LET cb == e.combos[n]
           snd == IF cb.snd = 2 THEN e.p2 ELSE e.p3
           pc == [j \in 1..Len(mus) |-> Add(Mul(cb.k1, e.p1[j]), Mul(cb.k2, snd[j]))]
           sec == Add(Mul(cb.k1, e.s1), Mul(cb.k2, e.s2))
       IN /\ cb.panic = ""
          /\ ShareIds(cb.shares) = Holders(e)
          /\ \A k \in 1..Len(cb.shares) :
               /\ Range(cb.shares[k].idx) = {j \in 1..Len(mus) : cb.shares[k].id \notin mus[j]}
               /\ \A x \in 1..Len(cb.shares[k].idx) : cb.shares[k].v[x] = pc[cb.shares[k].idx[x]]
          /\ RecRule(e, cb.rec, sec)
          /\ AddRule(e, cb.add, sec)

\* ---------------------------------------------------------------- Tassa (Birkhoff interpolation)
BirkhoffOf(p, xs) == [i \in 1..Len(xs) |-> BirkhoffRow(xs[i], HierRank(p, xs[i]), Len(xs))]
TassaSharesAre(e, shares, c) ==
  /\ ShareIds(shares) = Holders(e)
  /\ \A k \in 1..Len(shares) : shares[k].v = <<DerivEval(c, HierRank(e.pol, shares[k].id), shares[k].id)>>
\* Reconstruct interpolates on the |S| x |S| Birkhoff matrix of the quorum and insists on full degree; the
\* library's admission test only guarantees regularity for |S| = top threshold, and a (sum of) dealer
\* polynomial(s) may lose its leading coefficient: both are 1/q events, modelled as guards.
TassaRecRule(e, recs, c) ==
  \A i \in Idx(e) :
     LET xs == e.subs[i]
         qual == Qual(e, i)
         regular == IF qual /\ Len(xs) >= 2 THEN Det(BirkhoffOf(e.pol, xs)) # 0 ELSE FALSE
     IN /\ recs[i].ok => (qual /\ recs[i].v = Coef(c, 1))
        /\ (qual /\ regular /\ Len(Trim(c)) = HierTop(e.pol)) => recs[i].ok
        /\ (qual /\ Len(xs) = HierTop(e.pol) /\ Len(xs) >= 2) => regular
TassaAddRule(e, adds, secret) ==
  \A i \in Idx(e) : (adds[i].tried /\ Qual(e, i) /\ Det(BirkhoffOf(e.pol, e.subs[i])) # 0) =>
     /\ adds[i].ok /\ SumSeqQ(adds[i].vals) = secret
TassaOK(e) ==
  /\ HierAdmission(e.pol, e.ok)
  /\ e.ok =>
       /\ Len(e.coeffs) >= 1 /\ Len(e.coeffs) <= HierTop(e.pol) /\ e.coeffs[1] = e.secret
       /\ TassaSharesAre(e, e.shares, e.coeffs)
       /\ \A i \in Idx(e) : e.can[i] = Qual(e, i)
       /\ TassaRecRule(e, e.rec, e.coeffs)
       /\ TassaAddRule(e, e.add, e.secret)
TassaLinOK(e) ==
  /\ TassaSharesAre(e, e.sum, PolyAdd(e.c1, e.c2))
  /\ TassaSharesAre(e, e.scaled, VScale(e.s, e.c1))
  /\ TassaRecRule(e, e.recsum, PolyAdd(e.c1, e.c2))
  /\ TassaRecRule(e, e.recscaled, VScale(e.s, e.c1))

Check(e) ==
  CASE e.a = "hdr" -> TRUE
    [] e.a = "access" -> AccessOK(e)
    [] e.a = "msp" -> MspOK(e)
    [] e.a = "kwdeal" -> KwDealOK(e)
    [] e.a = "kwlin" -> KwLinOK(e)
    [] e.a = "shamir" -> ShamirOK(e)
    [] e.a = "shamirlin" -> ShamirLinOK(e)
    [] e.a = "additive" -> AdditiveOK(e)
    [] e.a = "isn" -> IsnOK(e)
    [] e.a = "isnlin" -> IsnLinOK(e)
    [] e.a = "tassa" -> TassaOK(e)
    [] e.a = "tassalin" -> TassaLinOK(e)
    [] OTHER -> FALSE

\* function-shaped: every line is judged on its own, so every line is an initial state
\* (l = Len(Trace) + 1 marks the end; the checker counts Len(Trace) + 1 distinct states)
Init == l \in 1..(Len(Trace) + 1)
Next == UNCHANGED l
Spec == Init /\ [][Next]_vars

CaseOK == l <= Len(Trace) => Check(Trace[l])
=============================================================================

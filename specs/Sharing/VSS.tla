-------------------------------- MODULE VSS --------------------------------
(* Feldman and Pedersen verifiable secret sharing over an MSP (C05), in the   *)
(* exponent: every group element is represented by its discrete logarithm    *)
(* to the base g (the toy group is cyclic of prime order Q), so              *)
(*   [x]G  ~  x,      A op B  ~  a + b,      [c]A  ~  c * a      (mod Q).     *)
(* Feldman:  V = [r]G  ~  r.    Pedersen: h = g^eta,                          *)
(*   V_j = [rg_j]G + [rh_j]H  ~  rg_j + eta * rh_j.                            *)
EXTENDS MSP

FeldmanVV(r) == r
PedersenVV(eta, rg, rh) == [j \in 1..Len(rg) |-> Add(rg[j], Mul(eta, rh[j]))]

\* dimension rule: a verification vector is usable with M iff it has exactly NCols(M) entries
VVFits(M, V) == Len(V) = NCols(M)
\* expected lifted share of holder id: the rows of M owned by id acting on V
LiftedShareOf(M, lab, V, id) == LET rs == RowsOf(lab, {id}) IN [k \in 1..Len(rs) |-> Dot(M[rs[k]], V)]

\* Feldman: the presented share (id, lam) verifies against V
VerifyF(M, lab, id, lam, V) ==
  /\ VVFits(M, V)
  /\ id \in LabelSet(lab)
  /\ Len(lam) = Len(RowsOf(lab, {id}))
  /\ \A k \in 1..Len(lam) : lam[k] = LiftedShareOf(M, lab, V, id)[k]

\* Pedersen: components (sec_k, bl_k) commit to  sec_k + eta * bl_k
VerifyP(M, lab, eta, id, sec, bl, V) ==
  /\ VVFits(M, V)
  /\ id \in LabelSet(lab)
  /\ Len(sec) = Len(RowsOf(lab, {id})) /\ Len(bl) = Len(sec)
  /\ \A k \in 1..Len(sec) : Add(sec[k], Mul(eta, bl[k])) = LiftedShareOf(M, lab, V, id)[k]

\* combination of verification vectors: coordinate-wise, defined only for equal lengths
VVOpDefined(V1, V2) == Len(V1) = Len(V2)
VVOp(V1, V2) == [j \in 1..Len(V1) |-> Add(V1[j], V2[j])]
VecAdd(u, v) == [j \in 1..Len(u) |-> Add(u[j], v[j])]
VecScale(a, u) == [j \in 1..Len(u) |-> Mul(a, u[j])]

\* public value committed by V (target vector e0): its first entry
PublicValue(V) == V[1]
=============================================================================

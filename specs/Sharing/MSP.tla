-------------------------------- MODULE MSP --------------------------------
(* Monotone span programmes over Z_Q with target vector e0 = (1,0,...,0):     *)
(* a matrix M, a labelling lab of its rows by shareholder identifiers.        *)
(* A set S is accepted iff e0 is a left-combination of the rows owned by S.   *)
(* Dealing: lambda = M * r with r[1] = secret.  Everything is by definition   *)
(* (rank / Rouche-Capelli from LinAlgQ); certificates (a reconstruction       *)
(* vector, or a privacy witness kappa) are only ever *verified*.              *)
EXTENDS LinAlgQ

E0(d) == Unit(d, 1)
ZeroVec(n) == [i \in 1..n |-> 0]

\* indices (ascending) of the rows owned by members of S
RowsOf(lab, S) ==
  LET rowacc[k \in 0..Len(lab)] == IF k = 0 THEN <<>> ELSE IF lab[k] \in S THEN Append(rowacc[k - 1], k) ELSE rowacc[k - 1]
  IN rowacc[Len(lab)]
LabelSet(lab) == {lab[k] : k \in 1..Len(lab)}

\* ---- acceptance, by rank ----
SpansRows(M, rs) == Len(rs) > 0 /\ SolvableLeft(SubRows(M, rs), E0(NCols(M)))
Spans(M, lab, S) == SpansRows(M, RowsOf(lab, S))
\* the same statement read as "e0 is not a new direction": appending e0 as a row keeps the rank
SpansRowsStack(M, rs) == Len(rs) > 0 /\ Rank(SubRows(M, rs)) = Rank(Append(SubRows(M, rs), E0(NCols(M))))

\* ---- certificates ----
\* c is a reconstruction vector for the rows rs:  c * M_rs = e0
IsReconVector(M, rs, c) == Len(rs) > 0 /\ IsVec(c, Len(rs)) /\ VecMat(c, SubRows(M, rs)) = E0(NCols(M))
\* kappa witnesses privacy of the rows rs: kappa[1] = 1 and M_rs * kappa = 0.  Then no c has c*M_rs = e0
\* (it would give 1 = e0.kappa = c.(M_rs kappa) = 0), and for every dealing r the column r + s*kappa
\* produces the same shares on rs with the secret shifted by s: the rows are consistent with every secret.
IsPrivacyWitness(M, rs, kappa) ==
  /\ IsVec(kappa, NCols(M)) /\ kappa[1] = 1 % Q
  /\ \A k \in 1..Len(rs) : Dot(M[rs[k]], kappa) = 0
HasPrivacyWitness(M, rs) == \E kappa \in [1..NCols(M) -> F] : IsPrivacyWitness(M, rs, kappa)

\* ---- dealing, reconstruction, additive conversion ----
Lambda(M, r) == MatVec(M, r)
ShareOf(M, lab, r, id) == LET rs == RowsOf(lab, {id}) IN [k \in 1..Len(rs) |-> Dot(M[rs[k]], r)]
Pick(v, rs) == [k \in 1..Len(rs) |-> v[rs[k]]]
\* with any reconstruction vector c of rs the value c . lambda_rs equals r[1]
ReconstructWith(c, lamrs) == Dot(c, lamrs)
\* additive share of holder id inside the quorum rows rs
AdditiveOf(lab, rs, c, lam, id) ==
  SumN([k \in 1..Len(rs) |-> IF lab[rs[k]] = id THEN Mul(c[k], lam[rs[k]]) ELSE 0], Len(rs))

\* ---- Tassa's field-size condition  alpha(k) N^((k-1)(k-2)/2) < Q,                         ----
\* ---- alpha(k) = 2^(2-k) (k-1)^((k-1)/2) (k-1)!,  evaluated exactly on the squared inequality ----
\*  alpha(k)^2 = num/den :  k=1: 4   k=2: 1   k=3: 4   k=4: 243/4   k=5: 2304   k>=6: > 2^17
RECURSIVE LessPow(_, _, _)          \* N^e < X   without forming N^e
LessPow(N, e, X) == IF e = 0 THEN 1 < X ELSE LessPow(N, e - 1, (X + N - 1) \div N)
CeilQ2Frac(den, num) == LET B == Q * Q IN den * (B \div num) + ((den * (B % num) + num - 1) \div num)
TassaCond(k, N) ==
  CASE k = 1 -> 4 < Q * Q
    [] k = 2 -> 1 < Q * Q
    [] k = 3 -> LessPow(N, 2, CeilQ2Frac(1, 4))
    [] k = 4 -> LessPow(N, 6, CeilQ2Frac(4, 243))
    [] k = 5 -> LessPow(N, 12, CeilQ2Frac(1, 2304))
    [] OTHER -> FALSE                \* alpha(6)^2 * 2^20 > 2^31 > Q^2 for every N >= 2
=============================================================================

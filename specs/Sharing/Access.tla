------------------------------- MODULE Access -------------------------------
(* Monotone access structures of the five supported families, by their       *)
(* mathematical definitions (C02).  A policy is a record; the trace specs     *)
(* receive it from JSON, the model-checking module builds it.                 *)
(*                                                                            *)
(*   threshold : [fam |-> "threshold", holders |-> <<ids>>, t |-> k]          *)
(*   unanimity : [fam |-> "unanimity", holders |-> <<ids>>]                   *)
(*   cnf       : [fam |-> "cnf", holders |-> <<ids>>, mus |-> << <<ids>>, .. >>]  *)
(*               (mus = the maximal unqualified sets, an antichain)           *)
(*   hier      : [fam |-> "hier", holders |-> <<ids>>,                        *)
(*                levels |-> << [t |-> k1, ps |-> <<ids>>], ... >>]            *)
(*               (conjunctive: every cumulative level threshold must be met)  *)
(*   tree      : [fam |-> "tree", holders |-> <<ids>>, root |-> i,            *)
(*                nodes |-> << [kind |-> "leaf"|"gate", id |-> id, t |-> k,   *)
(*                              ch |-> <<node indices>>], ... >>]              *)
(*               (threshold gates; the same holder may label several leaves)  *)
(* Sets of shareholders are sets of identifiers.                              *)
EXTENDS Integers, Sequences, FiniteSets

Range(s) == {s[i] : i \in 1..Len(s)}
HoldersOf(p) == Range(p.holders)

ThresholdQ(p, S) == S \subseteq HoldersOf(p) /\ Cardinality(S) >= p.t
UnanimityQ(p, S) == S = HoldersOf(p)
\* a set is unqualified iff it is contained in one of the maximal unqualified sets
CnfQ(p, S) == S \subseteq HoldersOf(p) /\ \A i \in 1..Len(p.mus) : ~(S \subseteq Range(p.mus[i]))
\* level i asks for at least levels[i].t members among the parties of levels 1..i
CumulativeParties(p, i) == UNION {Range(p.levels[j].ps) : j \in 1..i}
HierQ(p, S) == \A i \in 1..Len(p.levels) : Cardinality(S \cap CumulativeParties(p, i)) >= p.levels[i].t
\* a leaf is satisfied by its holder, a gate by at least t of its children (counted by position)
RECURSIVE NodeSat(_, _, _)
NodeSat(nodes, k, S) ==
  IF nodes[k].kind = "leaf" THEN nodes[k].id \in S
  ELSE Cardinality({c \in 1..Len(nodes[k].ch) : NodeSat(nodes, nodes[k].ch[c], S)}) >= nodes[k].t
TreeQ(p, S) == NodeSat(p.nodes, p.root, S)

Qualified(p, S) ==
  CASE p.fam = "threshold" -> ThresholdQ(p, S)
    [] p.fam = "unanimity" -> UnanimityQ(p, S)
    [] p.fam = "cnf" -> CnfQ(p, S)
    [] p.fam = "hier" -> HierQ(p, S)
    [] p.fam = "tree" -> TreeQ(p, S)

Subsets(p) == SUBSET HoldersOf(p)
Monotone(p) == \A S \in Subsets(p) : \A h \in HoldersOf(p) : Qualified(p, S) => Qualified(p, S \cup {h})
\* maximal unqualified sets (by monotonicity: unqualified and every one-element extension qualified)
MaximalUnqualified(p) ==
  {U \in Subsets(p) : ~Qualified(p, U) /\ \A h \in HoldersOf(p) \ U : Qualified(p, U \cup {h})}
EverySingleQualified(p) == \A h \in HoldersOf(p) : Qualified(p, {h})
SomeSetQualified(p) == Qualified(p, HoldersOf(p))

\* ---- hierarchical policies: the structural half of Tassa's requirement ----
HierIdsIncreasing(p) ==
  \A i, j \in 1..Len(p.levels) : i < j =>
     \A a \in Range(p.levels[i].ps) : \A b \in Range(p.levels[j].ps) : a < b
HierTop(p) == p.levels[Len(p.levels)].t
MaxOf(S) == CHOOSE x \in S : \A y \in S : y <= x
\* derivative order of a holder = threshold of the previous level (0 on the first level)
HierRank(p, id) ==
  LET i == CHOOSE i \in 1..Len(p.levels) : id \in Range(p.levels[i].ps)
  IN IF i = 1 THEN 0 ELSE p.levels[i - 1].t
=============================================================================

------------------------------ MODULE VSSTrace ------------------------------
(* Validates a log of real calls into pkg/mpc/sharing/vss/{feldman,pedersen}  *)
(* and pkg/mpc.NewBaseShard (driver harness/cmd/sharing -mode c05, toy group   *)
(* of prime order q: every group element is logged as its discrete logarithm) *)
(* against VSS (C05).  The code's own MSP (M, lab) is taken from the log.     *)
(* Every accept / reject is re-decided from the verification equation         *)
(*     lambda_k = M[k] . V   for all rows k of the claimed holder (mod q),    *)
(* and the corollaries the property spells out are asserted per kind of       *)
(* tampering.                                                                 *)
EXTENDS Integers, Sequences, FiniteSets, TLC, Json

Trace == ndJsonDeserialize("trace.ndjson")
TQ == Trace[1].q
INSTANCE VSS WITH Q <- TQ
INSTANCE Access

VARIABLE l
vars == <<l>>

ShareIds(shares) == {shares[k].id : k \in 1..Len(shares)}
ShareV(shares, id) == LET k == CHOOSE k \in 1..Len(shares) : shares[k].id = id IN shares[k].v
HasShare(shares, id) == id \in ShareIds(shares)
SharesAre(e, shares, col) ==
  /\ ShareIds(shares) = LabelSet(e.lab) \cap HoldersOf(e.pol)
  /\ \A k \in 1..Len(shares) : shares[k].v = ShareOf(e.M, e.lab, col, shares[k].id)
SumVecs(vs) == LET acc[k \in 1..Len(vs)] == IF k = 1 THEN vs[1] ELSE VecAdd(acc[k - 1], vs[k]) IN acc[Len(vs)]

HierMust(p) == HierIdsIncreasing(p) /\ TassaCond(HierTop(p), MaxOf(HoldersOf(p)))
HierSlack(p) == HierIdsIncreasing(p) /\ TassaCond(HierTop(p) + 1, MaxOf(HoldersOf(p)) + 1)
RefusalAllowed(p) == IF p.fam = "hier" THEN ~HierSlack(p) ELSE ~SomeSetQualified(p)

RejectTags == {"coord", "pair", "swap", "short", "long0", "long", "outsider", "vvshort", "vvidentity", "vvidentity2", "vvlong"}

\* ---------------------------------------------------------------- Feldman
\* cases against an honest dealing (V0, shares): the equation decides; the corollaries are asserted by tag
FCaseOK(e, c, V0, shares) ==
  c.built =>
    /\ c.ok = VerifyF(e.M, e.lab, c.id, c.lam, c.V)
    /\ c.tag = "honest" => c.ok                                   \* the dealer's share verifies
    /\ c.tag \in RejectTags => ~c.ok                              \* any coordinate / length change, any VV length change
    /\ c.tag = "otherid" => (c.ok = (HasShare(shares, c.id) /\ ShareV(shares, c.id) = c.lam))
    /\ c.tag = "vventry" =>                                       \* fails for exactly the holders that depend on entry j
         (c.ok = (\A k \in 1..Len(RowsOf(e.lab, {c.id})) : e.M[RowsOf(e.lab, {c.id})[k]][c.j] = 0))
FCasesOK(e, V0, shares) ==
  /\ \A k \in 1..Len(shares) : shares[k].v = LiftedShareOf(e.M, e.lab, V0, shares[k].id)   \* the base dealing is honest
  /\ \A n \in 1..Len(e.cases) : FCaseOK(e, e.cases[n], V0, shares)

FDealOK(e) ==
  /\ ~e.ok => (NCols(e.M) = 1 /\ (EverySingleQualified(e.pol) \/ ~SomeSetQualified(e.pol)))
  /\ e.ok => /\ IsVec(e.r, NCols(e.M)) /\ e.r[1] = e.secret
             /\ e.V = FeldmanVV(e.r)                              \* V = [r]G
             /\ SharesAre(e, e.shares, e.r)
NewVVOK(e) ==
  /\ \A n \in 1..Len(e.cases) : /\ e.cases[n].withmsp = (e.cases[n].len = NCols(e.M))
                                /\ e.cases[n].nomsp
  /\ ~e.rowvector
FCombineOK(e) ==
  /\ e.opok
  /\ \A n \in 1..Len(e.Vs) : VVFits(e.M, e.Vs[n])
  /\ e.V = SumVecs(e.Vs)                                          \* Op is the coordinate-wise sum
  /\ \A k \in 1..Len(e.shares) :
       e.shares[k].v = SumVecs([n \in 1..Len(e.parts) |-> ShareV(e.parts[n], e.shares[k].id)])
  /\ FCasesOK(e, e.V, e.shares)                                   \* the combination verifies exactly the sum of the shares
FOpOK(e) ==
  \A n \in 1..Len(e.cases) : LET c == e.cases[n] IN
     /\ c.ok = VVOpDefined(c.V1, c.V2)
     /\ c.ok => c.V = VVOp(c.V1, c.V2)
FRvOK(e) ==
  \A n \in 1..Len(e.cases) : LET c == e.cases[n]
                                 S == Range(c.S)
                                 allverify == \A k \in 1..Len(c.shares) : VerifyF(e.M, e.lab, c.shares[k].id, c.shares[k].v, e.V)
                                 qual == Qualified(e.pol, S)
     IN /\ c.ok = (allverify /\ qual)                             \* ReconstructAndVerify
        /\ c.ok => c.v = e.r[1]
        /\ c.expok = qual                                         \* ReconstructInTheExponent
        /\ (c.expok /\ allverify) => c.expv = PublicValue(e.V)    \* gives the committed public value
ShardOK(e) ==
  \A n \in 1..Len(e.cases) : LET c == e.cases[n] IN
     /\ c.ok = VerifyF(e.M, e.lab, c.id, c.lam, c.V)              \* NewBaseShard admits exactly the dealer's share
     /\ c.tag = "honest" => c.ok
     /\ c.tag \in {"coord", "vvshort", "vvidentity"} => ~c.ok
     /\ c.ok => /\ c.pk = PublicValue(c.V)
                /\ \A k \in 1..Len(c.pks) : c.pks[k].v = LiftedShareOf(e.M, e.lab, c.V, c.pks[k].id)

\* ---------------------------------------------------------------- Pedersen
PRejectTags == {"sec", "bl", "pair", "short", "long0", "vvshort", "vvidentity", "vvlong"}
PCaseOK(e, c, secs, bls) ==
  c.built =>
    /\ c.ok = VerifyP(e.M, e.lab, e.eta, c.id, c.sec, c.bl, c.V)
    /\ c.tag = "honest" => c.ok
    /\ c.tag \in PRejectTags => ~c.ok
    /\ c.tag = "equivocate" => c.ok            \* binding is computational only: with log_g h known the pair can be shifted
    /\ c.tag = "vventry" =>
         (c.ok = (\A k \in 1..Len(RowsOf(e.lab, {c.id})) : e.M[RowsOf(e.lab, {c.id})[k]][c.j] = 0))
PCasesOK(e, V0, secs, bls) ==
  /\ \A k \in 1..Len(secs) :
       VerifyP(e.M, e.lab, e.eta, secs[k].id, secs[k].v, ShareV(bls, secs[k].id), V0)
  /\ \A n \in 1..Len(e.cases) : PCaseOK(e, e.cases[n], secs, bls)
PDealOK(e) ==
  /\ IsVec(e.rg, NCols(e.M)) /\ IsVec(e.rh, NCols(e.M)) /\ e.rg[1] = e.secret
  /\ e.eta \notin {0, 1}
  /\ e.V = PedersenVV(e.eta, e.rg, e.rh)                          \* V_j = [rg_j]G + [rh_j]H
  /\ SharesAre(e, e.sec, e.rg) /\ SharesAre(e, e.bl, e.rh)
PCombineOK(e) ==
  /\ e.V = SumVecs(e.Vs)
  /\ \A k \in 1..Len(e.sec) :
       /\ e.sec[k].v = VecAdd(ShareV(e.sec1, e.sec[k].id), ShareV(e.sec2, e.sec[k].id))
       /\ ShareV(e.bl, e.sec[k].id) = VecAdd(ShareV(e.bl1, e.sec[k].id), ShareV(e.bl2, e.sec[k].id))
  /\ PCasesOK(e, e.V, e.sec, e.bl)
PRvOK(e) ==
  \A n \in 1..Len(e.cases) : LET c == e.cases[n]
                                 S == Range(c.S)
                                 allverify == \A k \in 1..Len(c.shares) :
                                    VerifyP(e.M, e.lab, e.eta, c.shares[k].id, c.shares[k].sec, c.shares[k].bl, e.V)
     IN /\ c.ok = (allverify /\ Qualified(e.pol, S))
        /\ c.ok => c.v = e.rg[1]

Check(e) ==
  CASE e.a = "hdr" -> TRUE
    [] e.a = "fnew" -> ~e.ok /\ RefusalAllowed(e.pol)
    [] e.a = "fdeal" -> FDealOK(e)
    [] e.a = "fverify" -> FCasesOK(e, e.V0, e.shares)
    [] e.a = "newvv" -> NewVVOK(e)
    [] e.a = "fcombine" -> FCombineOK(e)
    [] e.a = "fop" -> FOpOK(e)
    [] e.a = "frv" -> FRvOK(e)
    [] e.a = "shard" -> ShardOK(e)
    [] e.a = "pdeal" -> PDealOK(e)
    [] e.a = "pverify" -> PCasesOK(e, e.V0, e.sec, e.bl)
    [] e.a = "pcombine" -> PCombineOK(e)
    [] e.a = "prv" -> PRvOK(e)
    [] OTHER -> FALSE

\* function-shaped: every line is judged on its own, so every line is an initial state
Init == l \in 1..(Len(Trace) + 1)
Next == UNCHANGED l
Spec == Init /\ [][Next]_vars

CaseOK == l <= Len(Trace) => Check(Trace[l])
=============================================================================

CONSTANTS
  Q = 7
  MaxN = 3
  MaxD = 3
  Fams = {"threshold", "unanimity", "cnf"}
  CountD = 0
  DealD = 2
  Eta = 3
INIT Init
NEXT Dealing
INVARIANTS SpansIffQualified FeldmanExact FeldmanLength FeldmanOtherId FeldmanOutsider FeldmanVVEntry FeldmanVVLength CombinedVerifies PublicValueOK PedersenExact
CHECK_DEADLOCK FALSE

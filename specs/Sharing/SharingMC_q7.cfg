CONSTANTS
  Q = 7
  MaxN = 3
  MaxD = 3
  Fams = {"threshold", "unanimity", "cnf"}
  CountD = 2
  DealD = 0
  Eta = 0
INIT Init
NEXT Next
INVARIANTS SpansIffQualified PolicyMonotone DefsAgree PerfectPrivacy SharesAreMr ReconstructOK ConvertOK LinearOK
CHECK_DEADLOCK FALSE

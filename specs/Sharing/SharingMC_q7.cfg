CONSTANTS
  Q = 7
  MaxN = 3
  MaxD = 3
  Fams = {"threshold", "unanimity", "cnf"}
  CountD = 2
  DealD = 0
  Eta = 0
INIT Init
NEXT Inducing
INVARIANTS SpansIffQualified PolicyMonotone DefsAgree PerfectPrivacy
CHECK_DEADLOCK FALSE

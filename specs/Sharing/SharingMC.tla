----------------------------- MODULE SharingMC -----------------------------
(* Design-level model of linear secret sharing over an MSP (C02) and of the   *)
(* Feldman / Pedersen verification equations (C05), checked by TLC on the     *)
(* model alone: every small policy of the three simple constructions          *)
(* (Vandermonde threshold, unanimity, CNF clause vectors) over Z_Q.           *)
(*                                                                            *)
(* Behaviour:  Induce(policy)  ->  Deal(r [, rh])  ->  Reconstruct(S) |       *)
(*             Convert(S) | Combine(r2, a)                                    *)
(* one action per API call of the library (InducedMSP / NewDealerFunc /       *)
(* Reconstruct / ConvertShareToAdditive / share Add+ScalarMul).               *)
EXTENDS VSS, Access

CONSTANTS MaxN,        \* holders per policy
          MaxD,        \* policies with more MSP columns are left out
          Fams,        \* subset of {"threshold","unanimity","cnf"}
          CountD,      \* perfect privacy by counting for policies with at most CountD columns
          DealD,       \* dealings explored for policies with at most DealD columns
          Eta          \* log_g h of the second Pedersen generator

VARIABLES pol, M, lab, acc, phase, r, rh, lam, out
vars == <<pol, M, lab, acc, phase, r, rh, lam, out>>

\* ------------------------------------------------------------ policies
RECURSIVE SortedSeq(_)
SortedSeq(S) == IF S = {} THEN <<>> ELSE LET m == CHOOSE x \in S : \A y \in S : x <= y IN <<m>> \o SortedSeq(S \ {m})
RECURSIVE BitVal(_)
BitVal(S) == IF S = {} THEN 0 ELSE LET m == CHOOSE x \in S : TRUE IN 2 ^ (m - 1) + BitVal(S \ {m})
RECURSIVE SeqByBitVal(_)
SeqByBitVal(A) == IF A = {} THEN <<>> ELSE
  LET m == CHOOSE x \in A : \A y \in A : BitVal(x) <= BitVal(y) IN <<SortedSeq(m)>> \o SeqByBitVal(A \ {m})

Pol(fam, holders, t, mus) == [fam |-> fam, holders |-> holders, t |-> t, mus |-> mus]
HolderSets == {H \in SUBSET (1..(Q - 1)) : Cardinality(H) >= 2 /\ Cardinality(H) <= MaxN}
ThresholdPols == UNION {{Pol("threshold", SortedSeq(H), t, <<>>) : t \in 2..Cardinality(H)} : H \in HolderSets}
UnanimityPols == {Pol("unanimity", SortedSeq(H), 0, <<>>) : H \in HolderSets}
\* every antichain of non-empty subsets of 1..n that covers 1..n, as the list of maximal unqualified sets
\* built incrementally: walk the candidate sets in a fixed order, add a set only if it is incomparable to all chosen
RECURSIVE AntichainsFrom(_, _)
AntichainsFrom(chosen, rest) ==
  IF rest = {} THEN {chosen} ELSE
  LET x == CHOOSE x \in rest : \A y \in rest : BitVal(x) <= BitVal(y) IN
  AntichainsFrom(chosen, rest \ {x}) \cup
  (IF \A y \in chosen : ~(x \subseteq y) /\ ~(y \subseteq x) THEN AntichainsFrom(chosen \cup {x}, rest \ {x}) ELSE {})
Antichains(n) == {A \in AntichainsFrom({}, (SUBSET (1..n)) \ {{}}) : A # {} /\ UNION A = 1..n}
CnfPols == UNION {{Pol("cnf", [i \in 1..n |-> i], 0, SeqByBitVal(A)) : A \in Antichains(n)} : n \in 2..MaxN}

AllPols == (IF "threshold" \in Fams THEN ThresholdPols ELSE {}) \cup
           (IF "unanimity" \in Fams THEN UnanimityPols ELSE {}) \cup
           (IF "cnf" \in Fams THEN CnfPols ELSE {})

\* ------------------------------------------------------------ the three constructions (textbook)
MinusOne == (Q - 1) % Q
VandermondeM(p) == [i \in 1..Len(p.holders) |-> VandermondeRow(p.holders[i], p.t)]
\* lambda_i = r_{i+1} for i < n,  lambda_n = r_1 - r_2 - ... - r_n
UnanimityM(p) == LET n == Len(p.holders) IN
  [i \in 1..n |-> [j \in 1..n |-> IF i < n THEN (IF j = i + 1 THEN 1 ELSE 0) ELSE (IF j = 1 THEN 1 ELSE MinusOne)]]
\* one piece per maximal unqualified set U_i, given to everybody outside U_i; the pieces sum to the secret
ClauseVec(m, i) == IF i < m THEN Unit(m, i + 1) ELSE [j \in 1..m |-> IF j = 1 THEN 1 ELSE MinusOne]
Clause(p, i) == SortedSeq(HoldersOf(p) \ Range(p.mus[i]))
RECURSIVE CnfRowsFrom(_, _)
CnfRowsFrom(p, i) == IF i > Len(p.mus) THEN <<>> ELSE
  [k \in 1..Len(Clause(p, i)) |-> ClauseVec(Len(p.mus), i)] \o CnfRowsFrom(p, i + 1)
RECURSIVE CnfLabFrom(_, _)
CnfLabFrom(p, i) == IF i > Len(p.mus) THEN <<>> ELSE Clause(p, i) \o CnfLabFrom(p, i + 1)

Construct(p) == CASE p.fam = "threshold" -> VandermondeM(p)
                  [] p.fam = "unanimity" -> UnanimityM(p)
                  [] p.fam = "cnf" -> CnfRowsFrom(p, 1)
Labels(p) == IF p.fam = "cnf" THEN CnfLabFrom(p, 1) ELSE p.holders
Width(p) == CASE p.fam = "threshold" -> p.t [] p.fam = "unanimity" -> Len(p.holders) [] p.fam = "cnf" -> Len(p.mus)

\* policies in which no set at all is qualified have no span programme (refused by the library)
Policies == {p \in AllPols : Width(p) <= MaxD /\ SomeSetQualified(p)}

\* ------------------------------------------------------------ acceptance
SmallRows(Mx, rs) == Len(rs) <= 4 /\ NCols(Mx) <= 4
\* rank definition where the minors are small, else the privacy-witness definition (bounded quantification)
Accepts(Mx, labx, S) ==
  LET rs == RowsOf(labx, S) IN
  IF Len(rs) = 0 THEN FALSE ELSE IF SmallRows(Mx, rs) THEN SpansRows(Mx, rs) ELSE ~HasPrivacyWitness(Mx, rs)

NoOut == [a |-> "none"]
\* one initial state per policy (the access structure object), so that TLC's workers share the policies
Init == /\ pol \in Policies /\ M = <<>> /\ lab = <<>> /\ acc = <<>> /\ phase = "start"
        /\ r = <<>> /\ rh = <<>> /\ lam = <<>> /\ out = NoOut

\* InducedMSP + Accepts of every subset
Induce == /\ phase = "start"
          /\ M' = Construct(pol) /\ lab' = Labels(pol)
          /\ acc' = [S \in Subsets(pol) |-> Accepts(M', lab', S)]
          /\ phase' = "induced"
          /\ UNCHANGED <<pol, r, rh, lam, out>>

Basis(d) == {Unit(d, k) : k \in 1..d}
\* NewDealerFunc refuses one-column programmes (every single party qualified)
Deal == /\ phase = "induced" /\ NCols(M) >= 2 /\ NCols(M) <= DealD
        /\ \E c \in [1..NCols(M) -> F] : \E b \in (IF Eta = 0 THEN {} ELSE Basis(NCols(M))) \cup {ZeroVec(NCols(M))} :
             /\ r' = c /\ rh' = b /\ lam' = Lambda(M, c)
        /\ phase' = "dealt"
        /\ UNCHANGED <<pol, M, lab, acc, out>>

ReconVectors(rs) == {c \in [1..Len(rs) -> F] : IsReconVector(M, rs, c)}
Reconstruct(S) ==
  LET rs == RowsOf(lab, S) IN
  /\ phase = "dealt" /\ Len(rs) <= 4
  /\ out' = [a |-> "rec", S |-> S, ok |-> acc[S],
             vals |-> {ReconstructWith(c, Pick(lam, rs)) : c \in ReconVectors(rs)}]
  /\ phase' = "done" /\ UNCHANGED <<pol, M, lab, acc, r, rh, lam>>
Convert(S) ==
  LET rs == RowsOf(lab, S) IN
  /\ phase = "dealt" /\ Len(rs) <= 4 /\ acc[S]
  /\ \E c \in ReconVectors(rs) :
       out' = [a |-> "conv", S |-> S, adds |-> [id \in S |-> AdditiveOf(lab, rs, c, lam, id)]]
  /\ phase' = "done" /\ UNCHANGED <<pol, M, lab, acc, r, rh, lam>>
Combine ==
  /\ phase = "dealt"
  /\ \E r2 \in Basis(NCols(M)) \cup {r} : \E a \in F :
       out' = [a |-> "lin", r2 |-> r2, s |-> a, sum |-> VecAdd(lam, Lambda(M, r2)), scaled |-> VecScale(a, lam)]
  /\ phase' = "done" /\ UNCHANGED <<pol, M, lab, acc, r, rh, lam>>

Next == \/ Induce \/ Deal \/ Combine
        \/ \E S \in Subsets(pol) : Reconstruct(S) \/ Convert(S)
Spec == Init /\ [][Next]_vars
\* the C05 configurations stop at the dealt states (the verification invariants are state predicates there)
Dealing == Induce \/ Deal
\* policy-level configurations stop after the induction
Inducing == Induce

\* ============================================================ C02 invariants
\* exactly the qualified sets span the target
SpansIffQualified == phase = "induced" => \A S \in Subsets(pol) : acc[S] = Qualified(pol, S)
PolicyMonotone == phase = "induced" => Monotone(pol)

\* the independent definitions of acceptance agree wherever each is cheap
DefsAgree == phase = "induced" =>
  \A S \in Subsets(pol) : LET rs == RowsOf(lab, S) IN
     /\ SmallRows(M, rs) /\ Len(rs) > 0 =>
          /\ SpansRows(M, rs) <=> SpansRowsStack(M, rs)
          /\ SpansRows(M, rs) <=> ~HasPrivacyWitness(M, rs)
          /\ SpansRows(M, rs) <=> ReconVectors(rs) # {}
     /\ Len(rs) = 0 => ~acc[S]

\* perfect privacy by counting: over all dealer columns with r[1] = s the multiset of share
\* vectors seen by an unqualified set is the same for every s; for a qualified set the views
\* of different secrets never coincide
ColsWithSecret(d, s) == {[j \in 1..d |-> IF j = 1 THEN s ELSE t[j - 1]] : t \in [1..(d - 1) -> F]}
View(rs, c) == [k \in 1..Len(rs) |-> Dot(M[rs[k]], c)]
Bag(rs, s) == LET cols == ColsWithSecret(NCols(M), s)
                  views == {View(rs, c) : c \in cols}
              IN [v \in views |-> Cardinality({c \in cols : View(rs, c) = v})]
PerfectPrivacy == (phase = "induced" /\ NCols(M) <= CountD) =>
  \A S \in Subsets(pol) : LET rs == RowsOf(lab, S) IN
     IF Qualified(pol, S)
     THEN \A s \in F \ {0} : DOMAIN Bag(rs, s) \cap DOMAIN Bag(rs, 0) = {}
     ELSE \A s \in F \ {0} : Bag(rs, s) = Bag(rs, 0)

SharesAreMr == phase \in {"dealt", "done"} =>
  \A id \in HoldersOf(pol) : ShareOf(M, lab, r, id) = Pick(lam, RowsOf(lab, {id}))
ReconstructOK == (phase = "done" /\ out.a = "rec") =>
  /\ out.ok <=> Qualified(pol, out.S)
  /\ out.ok => out.vals = {r[1]}          \* every reconstruction vector gives the secret
  /\ ~out.ok => out.vals = {}             \* and there is none for an unqualified set
ConvertOK == (phase = "done" /\ out.a = "conv") =>
  SumSeqQ([k \in 1..Len(SortedSeq(out.S)) |-> out.adds[SortedSeq(out.S)[k]]]) = r[1]
LinearOK == (phase = "done" /\ out.a = "lin") =>
  /\ out.sum = Lambda(M, VecAdd(r, out.r2))
  /\ out.scaled = Lambda(M, VecScale(out.s, r))

\* ============================================================ C05 invariants (at every dealt state)
Dealt == phase = "dealt"
Holders == HoldersOf(pol)
Sh(id) == ShareOf(M, lab, r, id)
ShH(id) == ShareOf(M, lab, rh, id)
NRowsOf(id) == Len(RowsOf(lab, {id}))
RealHolders == {id \in Holders : NRowsOf(id) > 0}
\* a share verifies iff it is the dealer's share of the claimed holder
FeldmanExact == Dealt => \A id \in RealHolders : \A x \in [1..NRowsOf(id) -> F] :
                   VerifyF(M, lab, id, x, FeldmanVV(r)) <=> x = Sh(id)
FeldmanLength == Dealt => \A id \in RealHolders : \A x \in F :
                   /\ ~VerifyF(M, lab, id, Append(Sh(id), x), r)
                   /\ ~VerifyF(M, lab, id, SubSeq(Sh(id), 1, NRowsOf(id) - 1), r)
FeldmanOtherId == Dealt => \A id, id2 \in RealHolders : VerifyF(M, lab, id2, Sh(id), r) <=> Sh(id) = Sh(id2)
FeldmanOutsider == Dealt => \A id \in RealHolders : \A o \in (1..(Q - 1)) \ RealHolders : ~VerifyF(M, lab, o, Sh(id), r)
\* changing entry j of V breaks exactly the holders whose rows have a non-zero coefficient in column j
FeldmanVVEntry == Dealt => \A j \in 1..NCols(M) : \A dl \in F \ {0} : \A id \in RealHolders :
                   VerifyF(M, lab, id, Sh(id), VecAdd(r, VecScale(dl, Unit(NCols(M), j))))
                     <=> \A k \in 1..NRowsOf(id) : M[RowsOf(lab, {id})[k]][j] = 0
FeldmanVVLength == Dealt => \A id \in RealHolders : \A x \in F :
                   /\ ~VerifyF(M, lab, id, Sh(id), Append(r, x))
                   /\ ~VerifyF(M, lab, id, Sh(id), SubSeq(r, 1, Len(r) - 1))
\* combined dealings verify the sum of the shares (and nothing else, by FeldmanExact applied to r + r2)
CombinedVerifies == Dealt => \A r2 \in Basis(NCols(M)) \cup {r} : \A id \in RealHolders :
                   /\ VVOpDefined(r, r2)
                   /\ VerifyF(M, lab, id, VecAdd(Sh(id), ShareOf(M, lab, r2, id)), VVOp(r, r2))
PublicValueOK == Dealt => PublicValue(FeldmanVV(r)) = r[1]
PedersenExact == Dealt => LET V == PedersenVV(Eta, r, rh) IN \A id \in RealHolders :
                   /\ VerifyP(M, lab, Eta, id, Sh(id), ShH(id), V)
                   /\ \A k \in 1..NRowsOf(id) : \A dl \in F \ {0} :
                        LET e == VecScale(dl, Unit(NRowsOf(id), k)) IN
                        /\ ~VerifyP(M, lab, Eta, id, VecAdd(Sh(id), e), ShH(id), V)
                        /\ ~VerifyP(M, lab, Eta, id, Sh(id), VecAdd(ShH(id), e), V)
                        \* binding is only computational: a shift (dl, -dl/eta) is invisible
                        /\ VerifyP(M, lab, Eta, id, VecAdd(Sh(id), e), VecAdd(ShH(id), VecScale(Neg(Div(1, Eta)), e)), V)
=============================================================================

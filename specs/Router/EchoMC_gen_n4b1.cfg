SPECIFICATION Spec
CONSTANTS
  Parties <- P4
  Byz <- B1
  Payloads <- Pay2
  ByzDigests <- D3
  PrintMod = 1
  AllowOmit = FALSE
INVARIANTS Agreement Validity Consistency PrintBehaviour

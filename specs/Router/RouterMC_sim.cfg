INIT SimInit
NEXT Next
CONSTANTS
  Quorum <- Q3
  Calls <- CallsT
  CallArgChoices <- ArgsT
  InitWire <- WireT
  SendPool <- NoSend
  SendBudget = 0
  Bound = 100
  MaxCancel = 1
  MaxClose = 1
  MaxDeliveryFail = 1
  Unbuffered = FALSE
  Script <- NoScript
  RecordH = "full"
INVARIANTS TypeOK BufferAccounting BoxHistory NoCrossTalk BlamesSender FatalResults NoLostWakeup NotifyConsistent PrintBehaviour

------------------------------- MODULE Router -------------------------------
(***************************************************************************)
(* routerCore of /repo/pkg/network/router.go, one receiving party.         *)
(*                                                                         *)
(* Every label is one critical section of c.mu (or one piece of code that  *)
(* touches no shared state), i.e. the labels are exactly the positions of  *)
(* the verif gates:                                                        *)
(*   reader   rd0  Delivery.Receive + membership filter + CBOR decode      *)
(*            dep  deposit()                 (gate "dep")                  *)
(*            rfl  fail()                    (gate "fail")                 *)
(*   receiver en   entry section of receiveFrom   (gate "en")              *)
(*            sc   locked scan of the for loop    (gate "sc")              *)
(*            win  window between Unlock and select (gate "wt" sits here)  *)
(*            wt   the select                                              *)
(*            cl   deferred clean-up              (gate "cl")              *)
(*   Close    shutdown(); Cancel = cancellation of a call's context.       *)
(*                                                                         *)
(* What the code really does and the DESIGN sketch did not say:            *)
(*  - the reader does NOT look at `fatal`: after Close (or any latched     *)
(*    failure) it still deposits the message in hand and keeps reading     *)
(*    until Delivery.Receive errs, a decode fails or the buffer overflows; *)
(*  - the reader is started lazily by the first call that passes the       *)
(*    latched-failure test; Close before that leaves stop = nil;           *)
(*  - entry tests the latched failure BEFORE looking at the mailbox, so a  *)
(*    complete set is not delivered to a call that enters after a failure, *)
(*    while an attached call still gets it (scan priority);                *)
(*  - a wake-up through ctx.Done / failed does not consume the token;      *)
(*  - deposit() calls boxFor before the overflow test: an overflow leaves  *)
(*    an empty mailbox behind;                                             *)
(*  - a second conflicting sender overwrites the poison (latest blamed);   *)
(*  - after a set was consumed a further message of the same sender and    *)
(*    cid is a NEW message (the one-exchange-per-cid assumption is the     *)
(*    caller's), so ExactRouting is stated per epoch.                      *)
(*  - a send on the 1-buffered notify channel is handed directly to a      *)
(*    receiver already blocked in the select (len(notify) stays 0): in the *)
(*    model that is deposit followed at once by WakeToken (RouterTrace).   *)
(* Deliberate deviations: stop() of shutdown runs after Unlock; the model  *)
(* folds it into the Close step (it only enables RdErr). The panic         *)
(* recovery of readLoop is the RdErr/rfl path with another message. The    *)
(* arguments of a call are fixed before the call (callArg), the call       *)
(* itself starts at its entry section. `started` also stands for c.stop.   *)
(* History variables: arr/ep (arrivals per cid and sender, start of the    *)
(* current epoch) feed the properties; h (actions taken) is outside VIEW.  *)
(***************************************************************************)
EXTENDS Integers, Sequences, FiniteSets, Bags, TLC

CONSTANTS Quorum,          \* ids whose messages the reader accepts
          Calls,           \* identifiers of ReceiveFrom calls (processes)
          CallArgChoices,  \* set of functions Calls -> [cid, froms]: the arguments of the calls
          InitWire,        \* bag of messages in flight initially
          SendPool,        \* messages the environment may add later ...
          SendBudget,      \* ... at most this many
          Bound,           \* maxReceiveBufferSize
          MaxCancel, MaxClose, MaxDeliveryFail,
          Unbuffered,      \* sensitivity switch: notify channel without buffer
          RecordH          \* "off" | "last" | "full": history variable h

\* ------------------------------------------------------------- namespaces
\* A correlation id on the wire is a sequence of atoms; "/" is the separator.
Sep  == "/"
Root == << >>
Namespaced(prefix, ns) == prefix \o <<ns, Sep>>       \* Router.Namespaced
Key(prefix, id)        == prefix \o <<id>>            \* r.prefix + correlationID

\* ------------------------------------------------------------- values
EmptyFn == [x \in {} |-> 0]
NoMsg   == [from |-> 0, cid |-> << >>, pay |-> 0, bad |-> FALSE]
NoCall  == "none"                  \* call ids are strings (pc is indexed by process names)
NewBox  == [pay |-> EmptyFn, poison |-> 0, notify |-> NoCall, token |-> FALSE]
NoRes   == [kind |-> "none", why |-> "none", blame |-> 0, pay |-> EmptyFn]
Kinds   == {"none", "fatal", "busy", "poison", "ok", "ctx"}
Fatals  == {"none", "closed", "delivery", "decode", "overflow"}

(* --algorithm Router {
variables
  wire = InitWire, sendLeft = SendBudget,
  hand = NoMsg, rdWhy = "none",
  boxes = EmptyFn, buffered = 0, started = FALSE, stopped = FALSE, fatal = "none",
  callArg \in CallArgChoices,
  cancelled = [w \in Calls |-> FALSE], res = [w \in Calls |-> NoRes],
  nCancel = 0, nClose = 0, nFail = 0,
  arr = EmptyFn,     \* history: <<cid, from>> -> payloads handed to deposit, in order
  ep = EmptyFn,      \* history: <<cid, from>> -> index in arr where the current epoch starts
  h = << >>;         \* history: actions taken (outside the VIEW)

define {
  Cid(w) == callArg[w].cid
  Froms(w) == callArg[w].froms
  BoxOf(c) == IF c \in DOMAIN boxes THEN boxes[c] ELSE NewBox
  WithBox(c, b) == [x \in DOMAIN boxes \cup {c} |-> IF x = c THEN b ELSE boxes[x]]
  WithoutBox(c) == [x \in DOMAIN boxes \ {c} |-> boxes[x]]
  \* mailbox.signal(): non-blocking send on the 1-buffered notify channel
  Signal(b) == IF b.notify = NoCall THEN b
               ELSE IF Unbuffered /\ pc[b.notify] # "wt" THEN b
               ELSE [b EXCEPT !.token = TRUE]
  Arr(c, f) == IF <<c, f>> \in DOMAIN arr THEN arr[<<c, f>>] ELSE << >>
  Ep(c, f)  == IF <<c, f>> \in DOMAIN ep THEN ep[<<c, f>>] ELSE 1
  Put(fn, k, v) == [x \in DOMAIN fn \cup {k} |-> IF x = k THEN v ELSE fn[x]]
  Restrict(fn, S) == [x \in S |-> fn[x]]
  Latch(why) == IF fatal = "none" THEN why ELSE fatal        \* failLocked
  Src(self) == <<pc[self], pc["rd"], {pc[w] : w \in Calls \ {self}}>>
}

macro Rec(e) {
  h := IF RecordH = "off" THEN h ELSE IF RecordH = "last" THEN <<e>> ELSE Append(h, e)
}

\* ---------------------------------------------------------------- reader
fair process (Reader = "rd")
{ rds: await started;                                 \* go c.readLoop(readerCtx)
       Rec([a |-> "RdStart", p |-> "rd", src |-> Src("rd")]);
  rd0: while (TRUE) {
         either {                                    \* Delivery.Receive returns a message
           with (m \in BagToSet(wire)) {
             wire := wire (-) SetToBag({m});
             if (m.from \notin Quorum) {             \* dropped: not a member
               Rec([a |-> "RdDrop", p |-> "rd", m |-> m, src |-> Src("rd")])
             } else if (m.bad) {                     \* serde.UnmarshalCBOR fails
               hand := m; rdWhy := "decode";
               Rec([a |-> "RdGarbage", p |-> "rd", m |-> m, src |-> Src("rd")]);
               goto rfl
             } else {
               hand := m;
               Rec([a |-> "RdRecv", p |-> "rd", m |-> m, src |-> Src("rd")]);
               goto dep
             }
           }
         } or {                                      \* Delivery.Receive returns an error
           await stopped \/ nFail < MaxDeliveryFail;
           if (~stopped) { nFail := nFail + 1 };
           rdWhy := "delivery";
           Rec([a |-> "RdErr", p |-> "rd", src |-> Src("rd")]);
           goto rfl
         }
       };
  dep: with (c = hand.cid, f = hand.from, pl = hand.pay, b = BoxOf(hand.cid)) {   \* deposit()
         hand := NoMsg;
         if (f \in DOMAIN b.pay) {
           arr := Put(arr, <<c, f>>, Append(Arr(c, f), pl));
           if (b.pay[f] # pl) {                       \* conflicting duplicate
             boxes := WithBox(c, Signal([b EXCEPT !.poison = f]));
             Rec([a |-> "DepConflict", p |-> "rd", src |-> Src("rd")])
           } else {                                  \* identical duplicate
             boxes := WithBox(c, b);
             Rec([a |-> "DepDupEqual", p |-> "rd", src |-> Src("rd")])
           };
           goto rd0
         } else if (buffered >= Bound) {             \* overflow: box created, failure latched
           boxes := WithBox(c, b);
           fatal := Latch("overflow");
           Rec([a |-> "DepOverflow", p |-> "rd", src |-> Src("rd")]);
           goto rdone
         } else {
           arr := Put(arr, <<c, f>>, Append(Arr(c, f), pl));
           boxes := WithBox(c, Signal([b EXCEPT !.pay = Put(b.pay, f, pl)]));
           buffered := buffered + 1;
           Rec([a |-> "DepNew", p |-> "rd", src |-> Src("rd")]);
           goto rd0
         }
       };
  rfl: fatal := Latch(rdWhy);                        \* fail()
       hand := NoMsg; rdWhy := "none";
       Rec([a |-> "RdFail", p |-> "rd", src |-> Src("rd")]);
  rdone: skip
}

\* ------------------------------------------------------- ReceiveFrom call
fair process (Recv \in Calls)
{ en: with (arg = callArg[self]) {
        if (fatal # "none") {                        \* latched failure
          res[self] := [NoRes EXCEPT !.kind = "fatal", !.why = fatal];
          Rec([a |-> "EnterFatal", p |-> self, cid |-> arg.cid, froms |-> arg.froms, src |-> Src(self)]);
          goto done
        } else if (BoxOf(arg.cid).notify # NoCall) {        \* concurrent call on the same cid
          res[self] := [NoRes EXCEPT !.kind = "busy"];
          Rec([a |-> "EnterBusy", p |-> self, cid |-> arg.cid, froms |-> arg.froms, src |-> Src(self)]);
          goto done
        } else {
          started := TRUE;
          boxes := WithBox(arg.cid, [BoxOf(arg.cid) EXCEPT !.notify = self, !.token = FALSE]);
          Rec([a |-> "EnterAttach", p |-> self, cid |-> arg.cid, froms |-> arg.froms, src |-> Src(self)])
        }
      };
  sc: with (c = Cid(self), b = boxes[Cid(self)]) {  \* locked scan; fixed priority
        if (b.poison # 0) {
          res[self] := [NoRes EXCEPT !.kind = "poison", !.blame = b.poison];
          Rec([a |-> "ScanPoison", p |-> self, src |-> Src(self)]);
          goto cl
        } else if (Froms(self) \subseteq DOMAIN b.pay) {
          res[self] := [NoRes EXCEPT !.kind = "ok", !.pay = Restrict(b.pay, Froms(self))];
          boxes := WithBox(c, [b EXCEPT !.pay = Restrict(b.pay, DOMAIN b.pay \ Froms(self))]);
          buffered := buffered - Cardinality(Froms(self));
          ep := [x \in DOMAIN ep \cup {<<c, f>> : f \in Froms(self)} |->
                   IF x[1] = c /\ x[2] \in Froms(self) THEN Len(Arr(c, x[2])) + 1 ELSE ep[x]];
          Rec([a |-> "ScanOk", p |-> self, src |-> Src(self)]);
          goto cl
        } else if (fatal # "none") {
          res[self] := [NoRes EXCEPT !.kind = "fatal", !.why = fatal];
          Rec([a |-> "ScanFatal", p |-> self, src |-> Src(self)]);
          goto cl
        } else if (cancelled[self]) {
          res[self] := [NoRes EXCEPT !.kind = "ctx"];
          Rec([a |-> "ScanCtx", p |-> self, src |-> Src(self)]);
          goto cl
        } else {
          Rec([a |-> "ScanWait", p |-> self, src |-> Src(self)])
        }
      };
  win: Rec([a |-> "Park", p |-> self, src |-> Src(self)]);   \* between Unlock and select
  wt: either {                                        \* select: case <-notify
        await boxes[Cid(self)].token;
        boxes[Cid(self)].token := FALSE;
        Rec([a |-> "WakeToken", p |-> self, src |-> Src(self)])
      } or {                                          \* case <-ctx.Done() / <-c.failed
        await cancelled[self] \/ fatal # "none";
        Rec([a |-> "WakeOther", p |-> self, src |-> Src(self)])
      };
      goto sc;
  cl: with (c = Cid(self), b = [boxes[Cid(self)] EXCEPT !.notify = NoCall, !.token = FALSE]) {
        if (DOMAIN b.pay = {} /\ b.poison = 0) {      \* deferred clean-up
          boxes := WithoutBox(c);
          Rec([a |-> "CleanupDelete", p |-> self, src |-> Src(self)])
        } else {
          boxes := WithBox(c, b);
          Rec([a |-> "CleanupKeep", p |-> self, src |-> Src(self)])
        }
      };
  done: skip
}

\* ------------------------------------------------------------ environment
process (Canceller = "cancel")
{ ca: while (nCancel < MaxCancel) {
        with (w \in {x \in Calls : ~cancelled[x] /\ pc[x] # "done"}) {
          cancelled[w] := TRUE; nCancel := nCancel + 1;
          Rec([a |-> "Cancel", p |-> w, src |-> Src(w)])
        }
      }
}

process (Closer = "close")
{ clo: while (nClose < MaxClose) {                   \* shutdown()
         fatal := Latch("closed"); stopped := stopped \/ started; nClose := nClose + 1;
         Rec([a |-> "Close", p |-> "close", src |-> Src("close")])
       }
}

process (Net = "net")
{ snd: while (sendLeft > 0) {
         with (m \in SendPool) {
           wire := wire (+) SetToBag({m}); sendLeft := sendLeft - 1;
           Rec([a |-> "Send", p |-> "net", m |-> m, src |-> Src("net")])
         }
       }
}
} *)
\* BEGIN TRANSLATION
VARIABLES pc, wire, sendLeft, hand, rdWhy, boxes, buffered, started, stopped, 
          fatal, callArg, cancelled, res, nCancel, nClose, nFail, arr, ep, h

(* define statement *)
Cid(w) == callArg[w].cid
Froms(w) == callArg[w].froms
BoxOf(c) == IF c \in DOMAIN boxes THEN boxes[c] ELSE NewBox
WithBox(c, b) == [x \in DOMAIN boxes \cup {c} |-> IF x = c THEN b ELSE boxes[x]]
WithoutBox(c) == [x \in DOMAIN boxes \ {c} |-> boxes[x]]

Signal(b) == IF b.notify = NoCall THEN b
             ELSE IF Unbuffered /\ pc[b.notify] # "wt" THEN b
             ELSE [b EXCEPT !.token = TRUE]
Arr(c, f) == IF <<c, f>> \in DOMAIN arr THEN arr[<<c, f>>] ELSE << >>
Ep(c, f)  == IF <<c, f>> \in DOMAIN ep THEN ep[<<c, f>>] ELSE 1
Put(fn, k, v) == [x \in DOMAIN fn \cup {k} |-> IF x = k THEN v ELSE fn[x]]
Restrict(fn, S) == [x \in S |-> fn[x]]
Latch(why) == IF fatal = "none" THEN why ELSE fatal
Src(self) == <<pc[self], pc["rd"], {pc[w] : w \in Calls \ {self}}>>


vars == << pc, wire, sendLeft, hand, rdWhy, boxes, buffered, started, stopped, 
           fatal, callArg, cancelled, res, nCancel, nClose, nFail, arr, ep, h
        >>

ProcSet == {"rd"} \cup (Calls) \cup {"cancel"} \cup {"close"} \cup {"net"}

Init == (* Global variables *)
        /\ wire = InitWire
        /\ sendLeft = SendBudget
        /\ hand = NoMsg
        /\ rdWhy = "none"
        /\ boxes = EmptyFn
        /\ buffered = 0
        /\ started = FALSE
        /\ stopped = FALSE
        /\ fatal = "none"
        /\ callArg \in CallArgChoices
        /\ cancelled = [w \in Calls |-> FALSE]
        /\ res = [w \in Calls |-> NoRes]
        /\ nCancel = 0
        /\ nClose = 0
        /\ nFail = 0
        /\ arr = EmptyFn
        /\ ep = EmptyFn
        /\ h = << >>
        /\ pc = [self \in ProcSet |-> CASE self = "rd" -> "rds"
                                        [] self \in Calls -> "en"
                                        [] self = "cancel" -> "ca"
                                        [] self = "close" -> "clo"
                                        [] self = "net" -> "snd"]

rds == /\ pc["rd"] = "rds"
       /\ started
       /\ h' = (IF RecordH = "off" THEN h ELSE IF RecordH = "last" THEN <<([a |-> "RdStart", p |-> "rd", src |-> Src("rd")])>> ELSE Append(h, ([a |-> "RdStart", p |-> "rd", src |-> Src("rd")])))
       /\ pc' = [pc EXCEPT !["rd"] = "rd0"]
       /\ UNCHANGED << wire, sendLeft, hand, rdWhy, boxes, buffered, started, 
                       stopped, fatal, callArg, cancelled, res, nCancel, 
                       nClose, nFail, arr, ep >>

rd0 == /\ pc["rd"] = "rd0"
       /\ \/ /\ \E m \in BagToSet(wire):
                  /\ wire' = wire (-) SetToBag({m})
                  /\ IF m.from \notin Quorum
                        THEN /\ h' = (IF RecordH = "off" THEN h ELSE IF RecordH = "last" THEN <<([a |-> "RdDrop", p |-> "rd", m |-> m, src |-> Src("rd")])>> ELSE Append(h, ([a |-> "RdDrop", p |-> "rd", m |-> m, src |-> Src("rd")])))
                             /\ pc' = [pc EXCEPT !["rd"] = "rd0"]
                             /\ UNCHANGED << hand, rdWhy >>
                        ELSE /\ IF m.bad
                                   THEN /\ hand' = m
                                        /\ rdWhy' = "decode"
                                        /\ h' = (IF RecordH = "off" THEN h ELSE IF RecordH = "last" THEN <<([a |-> "RdGarbage", p |-> "rd", m |-> m, src |-> Src("rd")])>> ELSE Append(h, ([a |-> "RdGarbage", p |-> "rd", m |-> m, src |-> Src("rd")])))
                                        /\ pc' = [pc EXCEPT !["rd"] = "rfl"]
                                   ELSE /\ hand' = m
                                        /\ h' = (IF RecordH = "off" THEN h ELSE IF RecordH = "last" THEN <<([a |-> "RdRecv", p |-> "rd", m |-> m, src |-> Src("rd")])>> ELSE Append(h, ([a |-> "RdRecv", p |-> "rd", m |-> m, src |-> Src("rd")])))
                                        /\ pc' = [pc EXCEPT !["rd"] = "dep"]
                                        /\ rdWhy' = rdWhy
             /\ nFail' = nFail
          \/ /\ stopped \/ nFail < MaxDeliveryFail
             /\ IF ~stopped
                   THEN /\ nFail' = nFail + 1
                   ELSE /\ TRUE
                        /\ nFail' = nFail
             /\ rdWhy' = "delivery"
             /\ h' = (IF RecordH = "off" THEN h ELSE IF RecordH = "last" THEN <<([a |-> "RdErr", p |-> "rd", src |-> Src("rd")])>> ELSE Append(h, ([a |-> "RdErr", p |-> "rd", src |-> Src("rd")])))
             /\ pc' = [pc EXCEPT !["rd"] = "rfl"]
             /\ UNCHANGED <<wire, hand>>
       /\ UNCHANGED << sendLeft, boxes, buffered, started, stopped, fatal, 
                       callArg, cancelled, res, nCancel, nClose, arr, ep >>

dep == /\ pc["rd"] = "dep"
       /\ LET c == hand.cid IN
            LET f == hand.from IN
              LET pl == hand.pay IN
                LET b == BoxOf(hand.cid) IN
                  /\ hand' = NoMsg
                  /\ IF f \in DOMAIN b.pay
                        THEN /\ arr' = Put(arr, <<c, f>>, Append(Arr(c, f), pl))
                             /\ IF b.pay[f] # pl
                                   THEN /\ boxes' = WithBox(c, Signal([b EXCEPT !.poison = f]))
                                        /\ h' = (IF RecordH = "off" THEN h ELSE IF RecordH = "last" THEN <<([a |-> "DepConflict", p |-> "rd", src |-> Src("rd")])>> ELSE Append(h, ([a |-> "DepConflict", p |-> "rd", src |-> Src("rd")])))
                                   ELSE /\ boxes' = WithBox(c, b)
                                        /\ h' = (IF RecordH = "off" THEN h ELSE IF RecordH = "last" THEN <<([a |-> "DepDupEqual", p |-> "rd", src |-> Src("rd")])>> ELSE Append(h, ([a |-> "DepDupEqual", p |-> "rd", src |-> Src("rd")])))
                             /\ pc' = [pc EXCEPT !["rd"] = "rd0"]
                             /\ UNCHANGED << buffered, fatal >>
                        ELSE /\ IF buffered >= Bound
                                   THEN /\ boxes' = WithBox(c, b)
                                        /\ fatal' = Latch("overflow")
                                        /\ h' = (IF RecordH = "off" THEN h ELSE IF RecordH = "last" THEN <<([a |-> "DepOverflow", p |-> "rd", src |-> Src("rd")])>> ELSE Append(h, ([a |-> "DepOverflow", p |-> "rd", src |-> Src("rd")])))
                                        /\ pc' = [pc EXCEPT !["rd"] = "rdone"]
                                        /\ UNCHANGED << buffered, arr >>
                                   ELSE /\ arr' = Put(arr, <<c, f>>, Append(Arr(c, f), pl))
                                        /\ boxes' = WithBox(c, Signal([b EXCEPT !.pay = Put(b.pay, f, pl)]))
                                        /\ buffered' = buffered + 1
                                        /\ h' = (IF RecordH = "off" THEN h ELSE IF RecordH = "last" THEN <<([a |-> "DepNew", p |-> "rd", src |-> Src("rd")])>> ELSE Append(h, ([a |-> "DepNew", p |-> "rd", src |-> Src("rd")])))
                                        /\ pc' = [pc EXCEPT !["rd"] = "rd0"]
                                        /\ fatal' = fatal
       /\ UNCHANGED << wire, sendLeft, rdWhy, started, stopped, callArg, 
                       cancelled, res, nCancel, nClose, nFail, ep >>

rfl == /\ pc["rd"] = "rfl"
       /\ fatal' = Latch(rdWhy)
       /\ hand' = NoMsg
       /\ rdWhy' = "none"
       /\ h' = (IF RecordH = "off" THEN h ELSE IF RecordH = "last" THEN <<([a |-> "RdFail", p |-> "rd", src |-> Src("rd")])>> ELSE Append(h, ([a |-> "RdFail", p |-> "rd", src |-> Src("rd")])))
       /\ pc' = [pc EXCEPT !["rd"] = "rdone"]
       /\ UNCHANGED << wire, sendLeft, boxes, buffered, started, stopped, 
                       callArg, cancelled, res, nCancel, nClose, nFail, arr, 
                       ep >>

rdone == /\ pc["rd"] = "rdone"
         /\ TRUE
         /\ pc' = [pc EXCEPT !["rd"] = "Done"]
         /\ UNCHANGED << wire, sendLeft, hand, rdWhy, boxes, buffered, started, 
                         stopped, fatal, callArg, cancelled, res, nCancel, 
                         nClose, nFail, arr, ep, h >>

Reader == rds \/ rd0 \/ dep \/ rfl \/ rdone

en(self) == /\ pc[self] = "en"
            /\ LET arg == callArg[self] IN
                 IF fatal # "none"
                    THEN /\ res' = [res EXCEPT ![self] = [NoRes EXCEPT !.kind = "fatal", !.why = fatal]]
                         /\ h' = (IF RecordH = "off" THEN h ELSE IF RecordH = "last" THEN <<([a |-> "EnterFatal", p |-> self, cid |-> arg.cid, froms |-> arg.froms, src |-> Src(self)])>> ELSE Append(h, ([a |-> "EnterFatal", p |-> self, cid |-> arg.cid, froms |-> arg.froms, src |-> Src(self)])))
                         /\ pc' = [pc EXCEPT ![self] = "done"]
                         /\ UNCHANGED << boxes, started >>
                    ELSE /\ IF BoxOf(arg.cid).notify # NoCall
                               THEN /\ res' = [res EXCEPT ![self] = [NoRes EXCEPT !.kind = "busy"]]
                                    /\ h' = (IF RecordH = "off" THEN h ELSE IF RecordH = "last" THEN <<([a |-> "EnterBusy", p |-> self, cid |-> arg.cid, froms |-> arg.froms, src |-> Src(self)])>> ELSE Append(h, ([a |-> "EnterBusy", p |-> self, cid |-> arg.cid, froms |-> arg.froms, src |-> Src(self)])))
                                    /\ pc' = [pc EXCEPT ![self] = "done"]
                                    /\ UNCHANGED << boxes, started >>
                               ELSE /\ started' = TRUE
                                    /\ boxes' = WithBox(arg.cid, [BoxOf(arg.cid) EXCEPT !.notify = self, !.token = FALSE])
                                    /\ h' = (IF RecordH = "off" THEN h ELSE IF RecordH = "last" THEN <<([a |-> "EnterAttach", p |-> self, cid |-> arg.cid, froms |-> arg.froms, src |-> Src(self)])>> ELSE Append(h, ([a |-> "EnterAttach", p |-> self, cid |-> arg.cid, froms |-> arg.froms, src |-> Src(self)])))
                                    /\ pc' = [pc EXCEPT ![self] = "sc"]
                                    /\ res' = res
            /\ UNCHANGED << wire, sendLeft, hand, rdWhy, buffered, stopped, 
                            fatal, callArg, cancelled, nCancel, nClose, nFail, 
                            arr, ep >>

sc(self) == /\ pc[self] = "sc"
            /\ LET c == Cid(self) IN
                 LET b == boxes[Cid(self)] IN
                   IF b.poison # 0
                      THEN /\ res' = [res EXCEPT ![self] = [NoRes EXCEPT !.kind = "poison", !.blame = b.poison]]
                           /\ h' = (IF RecordH = "off" THEN h ELSE IF RecordH = "last" THEN <<([a |-> "ScanPoison", p |-> self, src |-> Src(self)])>> ELSE Append(h, ([a |-> "ScanPoison", p |-> self, src |-> Src(self)])))
                           /\ pc' = [pc EXCEPT ![self] = "cl"]
                           /\ UNCHANGED << boxes, buffered, ep >>
                      ELSE /\ IF Froms(self) \subseteq DOMAIN b.pay
                                 THEN /\ res' = [res EXCEPT ![self] = [NoRes EXCEPT !.kind = "ok", !.pay = Restrict(b.pay, Froms(self))]]
                                      /\ boxes' = WithBox(c, [b EXCEPT !.pay = Restrict(b.pay, DOMAIN b.pay \ Froms(self))])
                                      /\ buffered' = buffered - Cardinality(Froms(self))
                                      /\ ep' = [x \in DOMAIN ep \cup {<<c, f>> : f \in Froms(self)} |->
                                                  IF x[1] = c /\ x[2] \in Froms(self) THEN Len(Arr(c, x[2])) + 1 ELSE ep[x]]
                                      /\ h' = (IF RecordH = "off" THEN h ELSE IF RecordH = "last" THEN <<([a |-> "ScanOk", p |-> self, src |-> Src(self)])>> ELSE Append(h, ([a |-> "ScanOk", p |-> self, src |-> Src(self)])))
                                      /\ pc' = [pc EXCEPT ![self] = "cl"]
                                 ELSE /\ IF fatal # "none"
                                            THEN /\ res' = [res EXCEPT ![self] = [NoRes EXCEPT !.kind = "fatal", !.why = fatal]]
                                                 /\ h' = (IF RecordH = "off" THEN h ELSE IF RecordH = "last" THEN <<([a |-> "ScanFatal", p |-> self, src |-> Src(self)])>> ELSE Append(h, ([a |-> "ScanFatal", p |-> self, src |-> Src(self)])))
                                                 /\ pc' = [pc EXCEPT ![self] = "cl"]
                                            ELSE /\ IF cancelled[self]
                                                       THEN /\ res' = [res EXCEPT ![self] = [NoRes EXCEPT !.kind = "ctx"]]
                                                            /\ h' = (IF RecordH = "off" THEN h ELSE IF RecordH = "last" THEN <<([a |-> "ScanCtx", p |-> self, src |-> Src(self)])>> ELSE Append(h, ([a |-> "ScanCtx", p |-> self, src |-> Src(self)])))
                                                            /\ pc' = [pc EXCEPT ![self] = "cl"]
                                                       ELSE /\ h' = (IF RecordH = "off" THEN h ELSE IF RecordH = "last" THEN <<([a |-> "ScanWait", p |-> self, src |-> Src(self)])>> ELSE Append(h, ([a |-> "ScanWait", p |-> self, src |-> Src(self)])))
                                                            /\ pc' = [pc EXCEPT ![self] = "win"]
                                                            /\ res' = res
                                      /\ UNCHANGED << boxes, buffered, ep >>
            /\ UNCHANGED << wire, sendLeft, hand, rdWhy, started, stopped, 
                            fatal, callArg, cancelled, nCancel, nClose, nFail, 
                            arr >>

win(self) == /\ pc[self] = "win"
             /\ h' = (IF RecordH = "off" THEN h ELSE IF RecordH = "last" THEN <<([a |-> "Park", p |-> self, src |-> Src(self)])>> ELSE Append(h, ([a |-> "Park", p |-> self, src |-> Src(self)])))
             /\ pc' = [pc EXCEPT ![self] = "wt"]
             /\ UNCHANGED << wire, sendLeft, hand, rdWhy, boxes, buffered, 
                             started, stopped, fatal, callArg, cancelled, res, 
                             nCancel, nClose, nFail, arr, ep >>

wt(self) == /\ pc[self] = "wt"
            /\ \/ /\ boxes[Cid(self)].token
                  /\ boxes' = [boxes EXCEPT ![Cid(self)].token = FALSE]
                  /\ h' = (IF RecordH = "off" THEN h ELSE IF RecordH = "last" THEN <<([a |-> "WakeToken", p |-> self, src |-> Src(self)])>> ELSE Append(h, ([a |-> "WakeToken", p |-> self, src |-> Src(self)])))
               \/ /\ cancelled[self] \/ fatal # "none"
                  /\ h' = (IF RecordH = "off" THEN h ELSE IF RecordH = "last" THEN <<([a |-> "WakeOther", p |-> self, src |-> Src(self)])>> ELSE Append(h, ([a |-> "WakeOther", p |-> self, src |-> Src(self)])))
                  /\ boxes' = boxes
            /\ pc' = [pc EXCEPT ![self] = "sc"]
            /\ UNCHANGED << wire, sendLeft, hand, rdWhy, buffered, started, 
                            stopped, fatal, callArg, cancelled, res, nCancel, 
                            nClose, nFail, arr, ep >>

cl(self) == /\ pc[self] = "cl"
            /\ LET c == Cid(self) IN
                 LET b == [boxes[Cid(self)] EXCEPT !.notify = NoCall, !.token = FALSE] IN
                   IF DOMAIN b.pay = {} /\ b.poison = 0
                      THEN /\ boxes' = WithoutBox(c)
                           /\ h' = (IF RecordH = "off" THEN h ELSE IF RecordH = "last" THEN <<([a |-> "CleanupDelete", p |-> self, src |-> Src(self)])>> ELSE Append(h, ([a |-> "CleanupDelete", p |-> self, src |-> Src(self)])))
                      ELSE /\ boxes' = WithBox(c, b)
                           /\ h' = (IF RecordH = "off" THEN h ELSE IF RecordH = "last" THEN <<([a |-> "CleanupKeep", p |-> self, src |-> Src(self)])>> ELSE Append(h, ([a |-> "CleanupKeep", p |-> self, src |-> Src(self)])))
            /\ pc' = [pc EXCEPT ![self] = "done"]
            /\ UNCHANGED << wire, sendLeft, hand, rdWhy, buffered, started, 
                            stopped, fatal, callArg, cancelled, res, nCancel, 
                            nClose, nFail, arr, ep >>

done(self) == /\ pc[self] = "done"
              /\ TRUE
              /\ pc' = [pc EXCEPT ![self] = "Done"]
              /\ UNCHANGED << wire, sendLeft, hand, rdWhy, boxes, buffered, 
                              started, stopped, fatal, callArg, cancelled, res, 
                              nCancel, nClose, nFail, arr, ep, h >>

Recv(self) == en(self) \/ sc(self) \/ win(self) \/ wt(self) \/ cl(self)
                 \/ done(self)

ca == /\ pc["cancel"] = "ca"
      /\ IF nCancel < MaxCancel
            THEN /\ \E w \in {x \in Calls : ~cancelled[x] /\ pc[x] # "done"}:
                      /\ cancelled' = [cancelled EXCEPT ![w] = TRUE]
                      /\ nCancel' = nCancel + 1
                      /\ h' = (IF RecordH = "off" THEN h ELSE IF RecordH = "last" THEN <<([a |-> "Cancel", p |-> w, src |-> Src(w)])>> ELSE Append(h, ([a |-> "Cancel", p |-> w, src |-> Src(w)])))
                 /\ pc' = [pc EXCEPT !["cancel"] = "ca"]
            ELSE /\ pc' = [pc EXCEPT !["cancel"] = "Done"]
                 /\ UNCHANGED << cancelled, nCancel, h >>
      /\ UNCHANGED << wire, sendLeft, hand, rdWhy, boxes, buffered, started, 
                      stopped, fatal, callArg, res, nClose, nFail, arr, ep >>

Canceller == ca

clo == /\ pc["close"] = "clo"
       /\ IF nClose < MaxClose
             THEN /\ fatal' = Latch("closed")
                  /\ stopped' = (stopped \/ started)
                  /\ nClose' = nClose + 1
                  /\ h' = (IF RecordH = "off" THEN h ELSE IF RecordH = "last" THEN <<([a |-> "Close", p |-> "close", src |-> Src("close")])>> ELSE Append(h, ([a |-> "Close", p |-> "close", src |-> Src("close")])))
                  /\ pc' = [pc EXCEPT !["close"] = "clo"]
             ELSE /\ pc' = [pc EXCEPT !["close"] = "Done"]
                  /\ UNCHANGED << stopped, fatal, nClose, h >>
       /\ UNCHANGED << wire, sendLeft, hand, rdWhy, boxes, buffered, started, 
                       callArg, cancelled, res, nCancel, nFail, arr, ep >>

Closer == clo

snd == /\ pc["net"] = "snd"
       /\ IF sendLeft > 0
             THEN /\ \E m \in SendPool:
                       /\ wire' = wire (+) SetToBag({m})
                       /\ sendLeft' = sendLeft - 1
                       /\ h' = (IF RecordH = "off" THEN h ELSE IF RecordH = "last" THEN <<([a |-> "Send", p |-> "net", m |-> m, src |-> Src("net")])>> ELSE Append(h, ([a |-> "Send", p |-> "net", m |-> m, src |-> Src("net")])))
                  /\ pc' = [pc EXCEPT !["net"] = "snd"]
             ELSE /\ pc' = [pc EXCEPT !["net"] = "Done"]
                  /\ UNCHANGED << wire, sendLeft, h >>
       /\ UNCHANGED << hand, rdWhy, boxes, buffered, started, stopped, fatal, 
                       callArg, cancelled, res, nCancel, nClose, nFail, arr, 
                       ep >>

Net == snd

(* Allow infinite stuttering to prevent deadlock on termination. *)
Terminating == /\ \A self \in ProcSet: pc[self] = "Done"
               /\ UNCHANGED vars

Next == Reader \/ Canceller \/ Closer \/ Net
           \/ (\E self \in Calls: Recv(self))
           \/ Terminating

Spec == /\ Init /\ [][Next]_vars
        /\ WF_vars(Reader)
        /\ \A self \in Calls : WF_vars(Recv(self))

Termination == <>(\A self \in ProcSet: pc[self] = "Done")

\* END TRANSLATION

\* ------------------------------------------------------------- properties
View == <<wire, sendLeft, hand, rdWhy, boxes, buffered, started, stopped, fatal, callArg,
          cancelled, res, nCancel, nClose, nFail, arr, ep, pc>>

RECURSIVE SumCard(_, _)
SumCard(S, f) == IF S = {} THEN 0
                 ELSE LET x == CHOOSE y \in S : TRUE IN Cardinality(DOMAIN f[x].pay) + SumCard(S \ {x}, f)

Attached(w) == pc[w] \in {"sc", "win", "wt", "cl"}
Complete(w) == Cid(w) \in DOMAIN boxes /\ Froms(w) \subseteq DOMAIN boxes[Cid(w)].pay
Poisoned(w) == Cid(w) \in DOMAIN boxes /\ boxes[Cid(w)].poison # 0
Equivocated(c, f) == \E i, j \in 1..Len(Arr(c, f)) : Arr(c, f)[i] # Arr(c, f)[j]
Contents == UNION {{<<c, f, boxes[c].pay[f]>> : f \in DOMAIN boxes[c].pay} : c \in DOMAIN boxes}

TypeOK ==
  /\ IsABag(wire) /\ buffered \in Nat /\ started \in BOOLEAN /\ stopped \in BOOLEAN
  /\ fatal \in Fatals /\ rdWhy \in Fatals
  /\ \A c \in DOMAIN boxes : /\ DOMAIN boxes[c].pay \subseteq Quorum
                             /\ boxes[c].poison \in Quorum \cup {0}
                             /\ boxes[c].notify \in Calls \cup {NoCall}
                             /\ boxes[c].token \in BOOLEAN
  /\ \A w \in Calls : res[w].kind \in Kinds /\ res[w].why \in Fatals
  /\ stopped => started /\ fatal # "none"

\* buffered = sum of the mailbox sizes
BufferAccounting == buffered = SumCard(DOMAIN boxes, boxes) /\ buffered <= Bound

\* the mailbox holds, per sender, the first payload that arrived in the current epoch;
\* all later arrivals of the epoch are equal to it unless the mailbox is poisoned
BoxHistory ==
  /\ \A c \in DOMAIN boxes : \A f \in DOMAIN boxes[c].pay :
        /\ Ep(c, f) <= Len(Arr(c, f))
        /\ boxes[c].pay[f] = Arr(c, f)[Ep(c, f)]
        /\ boxes[c].poison = 0 => \A i \in Ep(c, f)..Len(Arr(c, f)) : Arr(c, f)[i] = boxes[c].pay[f]
  /\ \A x \in DOMAIN arr : (x[1] \notin DOMAIN boxes \/ x[2] \notin DOMAIN boxes[x[1]].pay)
                             => Ep(x[1], x[2]) = Len(arr[x]) + 1

\* a successful result has exactly the requested senders and every payload is one that this
\* sender sent under exactly this (namespaced) correlation id; never a non-member's
NoCrossTalk ==
  /\ \A w \in Calls : res[w].kind = "ok" =>
        /\ DOMAIN res[w].pay = Froms(w)
        /\ \A f \in Froms(w) : f \in Quorum /\ \E i \in 1..Len(Arr(Cid(w), f)) : Arr(Cid(w), f)[i] = res[w].pay[f]
  /\ \A x \in DOMAIN arr : x[2] \in Quorum

\* the step that returns a set returns, per sender, the first payload of the current epoch
\* and nothing else arrived for it in that epoch
ExactRoutingStep ==
  \A w \in Calls : (res[w].kind # "ok" /\ res'[w].kind = "ok") =>
        \A f \in Froms(w) : /\ Ep(Cid(w), f) <= Len(Arr(Cid(w), f))
                             /\ res'[w].pay[f] = Arr(Cid(w), f)[Ep(Cid(w), f)]
                             /\ \A i \in Ep(Cid(w), f)..Len(Arr(Cid(w), f)) : Arr(Cid(w), f)[i] = res'[w].pay[f]
                             /\ <<Cid(w), f>> \notin {<<t[1], t[2]>> : t \in Contents'}
                             /\ buffered' = buffered - Cardinality(Froms(w))
ExactRouting == [][ExactRoutingStep]_vars

DepositsDup == /\ pc["rd"] = "dep" /\ pc'["rd"] # "dep" /\ hand.cid \in DOMAIN boxes
               /\ hand.from \in DOMAIN boxes[hand.cid].pay
\* an identical retransmission changes nothing
DupAbsorbedStep ==
  (DepositsDup /\ boxes[hand.cid].pay[hand.from] = hand.pay) => UNCHANGED <<boxes, buffered, fatal>>
DupAbsorbed == [][DupAbsorbedStep]_vars

\* a conflicting retransmission poisons the mailbox, blames its sender and wakes the waiter;
\* poison is only ever raised against a sender that really sent two different payloads
ConflictPoisonsStep ==
  (DepositsDup /\ boxes[hand.cid].pay[hand.from] # hand.pay)
      => /\ boxes'[hand.cid].poison = hand.from
         /\ boxes'[hand.cid].pay = boxes[hand.cid].pay /\ buffered' = buffered
         /\ (boxes[hand.cid].notify # NoCall /\ ~Unbuffered) => boxes'[hand.cid].token
ConflictPoisons == [][ConflictPoisonsStep]_vars
BlamesSender ==
  /\ \A c \in DOMAIN boxes : boxes[c].poison # 0 => Equivocated(c, boxes[c].poison)
  /\ \A w \in Calls : res[w].kind = "poison" => res[w].blame \in Quorum /\ Equivocated(Cid(w), res[w].blame)
ConflictPoisonsAndBlamesSender == BlamesSender

\* cancelling, returning the context error and the clean-up lose no buffered payload
CancelLosesNothingStep ==
  \A w \in Calls :
       (\/ cancelled'[w] # cancelled[w]
        \/ (res[w].kind # "ctx" /\ res'[w].kind = "ctx")
        \/ (pc[w] = "cl" /\ pc'[w] = "done"))
       => Contents' = Contents /\ buffered' = buffered
CancelLosesNothing == [][CancelLosesNothingStep]_vars

\* the first failure is latched and reported to every later and every pending call
FailureLatchedStep ==
  /\ fatal # "none" => fatal' = fatal
  /\ \A w \in Calls : (pc[w] = "en" /\ pc'[w] # "en" /\ fatal # "none")
                        => res'[w].kind = "fatal" /\ res'[w].why = fatal /\ UNCHANGED boxes
FailureLatched == [][FailureLatchedStep]_vars
FatalResults == \A w \in Calls : res[w].kind = "fatal" => res[w].why = fatal

\* safety form: a call waiting (window or select) whose outcome is decided has a pending token
NoLostWakeup ==
  \A w \in Calls : (pc[w] \in {"win", "wt"} /\ (Complete(w) \/ Poisoned(w))) => boxes[Cid(w)].token

NotifyConsistent ==
  /\ \A c \in DOMAIN boxes : /\ boxes[c].token => boxes[c].notify # NoCall
                             /\ boxes[c].notify # NoCall => Attached(boxes[c].notify) /\ Cid(boxes[c].notify) = c
  /\ \A w \in Calls : Attached(w) => Cid(w) \in DOMAIN boxes /\ boxes[Cid(w)].notify = w
  /\ (\E w \in Calls : Attached(w)) => started

\* liveness (weak fairness of reader and calls)
Ready(w) == Complete(w) \/ Poisoned(w) \/ fatal # "none" \/ cancelled[w]
NoLostWakeupLive == \A w \in Calls : (Attached(w) /\ Ready(w)) ~> (pc[w] = "done")
HasMsg(c, f) == \/ c \in DOMAIN boxes /\ f \in DOMAIN boxes[c].pay
                \/ \E m \in BagToSet(wire) : m.cid = c /\ m.from = f /\ ~m.bad
                \/ (hand.cid = c /\ hand.from = f /\ pc["rd"] = "dep")
Deliverable(w) == \A f \in Froms(w) : HasMsg(Cid(w), f)
NoDeadlockWhileDeliverable == \A w \in Calls : Attached(w) ~> (pc[w] = "done" \/ ~Deliverable(w))

\* the prefix function is injective as long as no atom is the separator
Atoms == {"a", "b", "x"}
Prefixes == {Root} \cup {Namespaced(Root, n) : n \in Atoms} \cup {Namespaced(Namespaced(Root, n), k) : n, k \in Atoms}
ASSUME \A p1, p2 \in Prefixes : \A i1, i2 \in Atoms : Key(p1, i1) = Key(p2, i2) => p1 = p2 /\ i1 = i2
=============================================================================

SPECIFICATION Spec
CONSTANTS
  Parties <- P3
  Byz <- B0
  Payloads <- Pay2
  ByzDigests <- DAll
  AllowOmit = TRUE
INVARIANTS Agreement Validity Consistency PrintBehaviour

------------------------------- MODULE EchoMC -------------------------------
EXTENDS Echo, TLC, Json, Sequences
P3 == {1, 2, 3}
P4 == {1, 2, 3, 4}
P5 == {1, 2, 3, 4, 5}
B0 == {}
B1 == {1}
B12 == {1, 2}
Pay2 == {1, 2}
DAll == {1, 2, 0, -1}
D3 == {1, 2, 0}
SetSeq(S) == LET RECURSIVE F(_) F(T) == IF T = {} THEN << >> ELSE LET x == CHOOSE y \in T : \A z \in T : y <= z IN <<x>> \o F(T \ {x}) IN F(S)
MapJ(e) == [none |-> ~e.sent, e |-> [i \in 1..Cardinality(DOMAIN e.m) |-> <<SetSeq(DOMAIN e.m)[i], e.m[SetSeq(DOMAIN e.m)[i]]>>]]
\* one line per adversary: printed at the initial state
Beh == [n |-> Cardinality(Parties), byz |-> SetSeq(Byz),
        input |-> [i \in 1..Cardinality(Honest) |-> <<SetSeq(Honest)[i], input[SetSeq(Honest)[i]]>>],
        r1 |-> LET D == SetSeq({x[1] * 100 + x[2] : x \in Byz \X Honest}) IN
                 [i \in 1..Len(D) |-> <<D[i] \div 100, D[i] % 100, byz1[<<D[i] \div 100, D[i] % 100>>]>>],
        r2 |-> LET D == SetSeq({x[1] * 100 + x[2] : x \in Byz \X Honest}) IN
                 [i \in 1..Len(D) |-> [e |-> D[i] \div 100, p |-> D[i] % 100, m |-> MapJ(ByzEcho(D[i] \div 100, D[i] % 100))]]]
CONSTANT PrintMod      \* print one adversary out of PrintMod (1 = all of them)
PrintBehaviour == (round = 0 /\ (PrintMod = 1 \/ RandomElement(1..PrintMod) = 1)) => PrintT(<<"BEHAVIOUR", ToJson(Beh)>>)
=============================================================================

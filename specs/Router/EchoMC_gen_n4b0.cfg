SPECIFICATION Spec
CONSTANTS
  Parties <- P4
  Byz <- B0
  Payloads <- Pay2
  ByzDigests <- DAll
  AllowOmit = TRUE
INVARIANTS Agreement Validity Consistency PrintBehaviour

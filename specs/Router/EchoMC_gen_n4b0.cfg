SPECIFICATION Spec
CONSTANTS
  Parties <- P4
  Byz <- B0
  Payloads <- Pay2
  ByzDigests <- DAll
  PrintMod = 1
  AllowOmit = TRUE
INVARIANTS Agreement Validity Consistency PrintBehaviour

INIT SimInit
NEXT ScriptNext
CONSTANTS
  Quorum <- Q2
  Calls <- CallsS
  CallArgChoices <- ArgsS
  InitWire <- WireS
  SendPool <- NoSend
  SendBudget = 0
  Bound = 100
  MaxCancel = 1
  MaxClose = 1
  MaxDeliveryFail = 0
  Unbuffered = FALSE
  Script <- AllScripts
  RecordH = "full"
INVARIANTS TypeOK BufferAccounting BoxHistory NoCrossTalk BlamesSender FatalResults NoLostWakeup NotifyConsistent PrintBehaviour

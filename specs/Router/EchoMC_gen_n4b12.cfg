SPECIFICATION Spec
CONSTANTS
  Parties <- P4
  Byz <- B12
  Payloads <- Pay2
  ByzDigests <- D3
  PrintMod = 8
  AllowOmit = FALSE
INVARIANTS Agreement Validity Consistency PrintBehaviour

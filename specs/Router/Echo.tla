-------------------------------- MODULE Echo --------------------------------
(***************************************************************************)
(* The 3-round echo broadcast of /repo/pkg/network/echo/rounds.go.         *)
(*   Round1: every party sends its payload to every other party.           *)
(*   Round2: a party that received a payload from everybody sends to       *)
(*           everybody the map sender -> SHA3-256(payload received).       *)
(*   Round3: party p accepts iff for every sender id # p and every echoer  *)
(*           e \notin {p, id} the echo of e is present and its entry for   *)
(*           id (a missing entry reads as the zero digest) equals the      *)
(*           digest of what p itself received from id; then p outputs what *)
(*           it received. With two parties there is no echoer at all.      *)
(* Byzantine parties send any payload (or nothing) to each recipient in    *)
(* round 1 and any digest map (or nothing) in round 2. The hash is         *)
(* modelled as injective; ZeroD is the zero digest, OtherD any other one.    *)
(* Deviation: payloads that do not decode (Round3 fails after the echo     *)
(* comparison) are not modelled.                                           *)
(***************************************************************************)
EXTENDS Integers, FiniteSets

CONSTANTS Parties, Byz, Payloads,     \* Payloads: positive integers; 0 = nothing sent
          ByzDigests,                 \* digests a Byzantine echoer may use (subset of Digests)
          AllowOmit                   \* may Byzantine parties stay silent?
Honest == Parties \ Byz
H(x) == x                                 \* digests are integers: H(x) = x > 0,
ZeroD == 0                                \* the zero digest,
OtherD == -1                              \* any digest that is no payload's
Digests == {H(x) : x \in Payloads} \cup {ZeroD, OtherD}    \* what a Byzantine echoer can put in an entry
EmptyFn == [x \in {} |-> 0]
NoEcho == [sent |-> FALSE, m |-> EmptyFn]
Sent(m) == [sent |-> TRUE, m |-> m]

VARIABLES input,    \* honest party -> payload it broadcasts
          byz1,     \* <<byzantine sender, honest recipient>> -> payload or 0
          byz2,     \* <<byzantine echoer, honest recipient, sender>> -> digest of the echo map entry
          byz2sent, \* <<byzantine echoer, honest recipient>> -> is a round 2 message sent at all
          round,    \* 0..3
          recv,     \* honest p -> [sender -> payload or 0] (round 1 messages p received)
          ok2,      \* honest p -> Round2 succeeded
          echo,     \* honest p -> the digest map p sends in round 2 (same to everybody)
          acc,      \* honest p -> Round3 succeeded
          out       \* honest p -> [sender -> payload] delivered
vars == <<input, byz1, byz2, byz2sent, round, recv, ok2, echo, acc, out>>

Others(p) == Parties \ {p}
R1(s, p) == IF s \in Byz THEN byz1[<<s, p>>] ELSE input[s]
\* Round2 of honest p: fails on a missing message, otherwise digests everything it received
Round2OK(p) == \A s \in Others(p) : R1(s, p) # 0
EchoOf(p) == Sent([s \in Others(p) |-> H(R1(s, p))])
\* the round 2 message recipient p gets from e (NoEcho: none)
ByzEcho(e, p) == IF byz2sent[<<e, p>>] THEN Sent([id \in Parties \ {e, p} |-> byz2[<<e, p, id>>]]) ELSE NoEcho
R2(e, p) == IF e \in Byz THEN ByzEcho(e, p) ELSE IF ok2[e] THEN echo[e] ELSE NoEcho
Entry(e, id) == IF id \in DOMAIN e.m THEN e.m[id] ELSE ZeroD   \* missing entry = zero digest
\* Round3 of honest p (which got through Round2)
Round3OK(p) ==
  \A id \in Others(p) : \A e \in Parties \ {p, id} :
     /\ R2(e, p).sent
     /\ Entry(R2(e, p), id) = H(recv[p][id])

ASSUME ByzDigests \subseteq Digests
Init ==
  /\ input \in [Honest -> Payloads]
  /\ byz1 \in [Byz \X Honest -> Payloads \cup (IF AllowOmit THEN {0} ELSE {})]
  /\ byz2 \in [{t \in Byz \X Honest \X Parties : t[3] # t[1] /\ t[3] # t[2]} -> ByzDigests]
  /\ byz2sent \in [Byz \X Honest -> IF AllowOmit THEN BOOLEAN ELSE {TRUE}]
  /\ round = 0
  /\ recv = [p \in Honest |-> [s \in Others(p) |-> 0]]
  /\ ok2 = [p \in Honest |-> FALSE] /\ echo = [p \in Honest |-> NoEcho]
  /\ acc = [p \in Honest |-> FALSE] /\ out = [p \in Honest |-> EmptyFn]

DoRound1 == /\ round = 0 /\ round' = 1
            /\ recv' = [p \in Honest |-> [s \in Others(p) |-> R1(s, p)]]
            /\ UNCHANGED <<input, byz1, byz2, byz2sent, ok2, echo, acc, out>>
DoRound2 == /\ round = 1 /\ round' = 2
            /\ ok2' = [p \in Honest |-> Round2OK(p)]
            /\ echo' = [p \in Honest |-> IF Round2OK(p) THEN EchoOf(p) ELSE NoEcho]
            /\ UNCHANGED <<input, byz1, byz2, byz2sent, recv, acc, out>>
DoRound3 == /\ round = 2 /\ round' = 3
            /\ acc' = [p \in Honest |-> ok2[p] /\ Round3OK(p)]
            /\ out' = [p \in Honest |-> IF ok2[p] /\ Round3OK(p) THEN recv[p] ELSE EmptyFn]
            /\ UNCHANGED <<input, byz1, byz2, byz2sent, recv, ok2, echo>>
Next == DoRound1 \/ DoRound2 \/ DoRound3
Spec == Init /\ [][Next]_vars

\* no two honest parties accept different payloads from the same sender
Agreement == \A p, q \in Honest : (acc[p] /\ acc[q]) =>
               \A s \in Parties \ {p, q} : out[p][s] = out[q][s]
\* an honest sender's payload is what every accepting honest party delivers; without faults all accept
Validity == /\ \A p \in Honest : acc[p] => \A s \in Honest \ {p} : out[p][s] = input[s]
            /\ (round = 3 /\ Byz = {}) => \A p \in Honest : acc[p]
\* the echo comparison is what gives agreement: with at least one honest third party an accepted
\* payload of a Byzantine sender is the one that third party holds
Consistency == \A p \in Honest : acc[p] => \A s \in Others(p) : \A q \in Honest \ {p, s} : recv[q][s] = out[p][s]
=============================================================================

SPECIFICATION TraceSpec
CONSTANTS
  Quorum <- TQuorum
  Calls <- TCalls
  CallArgChoices <- TChoices
  InitWire <- EmptyBag
  SendPool <- NoPool
  SendBudget = 0
  Bound = 10000
  MaxCancel = 0
  MaxClose = 1000000
  MaxDeliveryFail = 1000000
  Unbuffered = FALSE
  RecordH = "off"
INVARIANTS TypeOK BufferAccounting BoxHistory NoCrossTalk BlamesSender FatalResults NoLostWakeup NotifyConsistent
PROPERTIES TExactRouting TDupAbsorbed TConflictPoisons TCancelLosesNothing TFailureLatched
POSTCONDITION Accepted

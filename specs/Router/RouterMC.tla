------------------------------ MODULE RouterMC ------------------------------
(* Constants of the model-checking and scenario configurations of Router.  *)
(* Payloads are globally distinct integers 100*from + 10*cid + variant, so *)
(* cross-talk between correlation ids would be visible.                    *)
EXTENDS Router, Json

K1 == Key(Root, "x")                                   \* "x"
K2 == Key(Namespaced(Root, "a"), "x")                  \* "a/x"
K3 == Key(Namespaced(Namespaced(Root, "a"), "b"), "x") \* "a/b/x"
Msg(f, c, p) == [from |-> f, cid |-> c, pay |-> p, bad |-> FALSE]
Garbage(f)   == [from |-> f, cid |-> << >>, pay |-> 0, bad |-> TRUE]
BagOf(seq)   == LET S == {seq[i] : i \in 1..Len(seq)}
                IN [m \in S |-> Cardinality({i \in 1..Len(seq) : seq[i] = m})]

Q2 == {1, 2}
Q3 == {1, 2, 3}
NoSend == {}

\* ---- quick A "dup": identical + conflicting duplicates, two namespaces, cancel
CallsA == {"w1", "w2"}
ArgsAx(w) == CASE w = "w1" -> {[cid |-> K1, froms |-> {1, 2}]}
              [] w = "w2" -> {[cid |-> K2, froms |-> {1}]}
WireA == BagOf(<<Msg(1, K1, 111), Msg(1, K1, 111), Msg(2, K1, 211), Msg(2, K1, 212), Msg(1, K2, 121)>>)

\* ---- quick B "fail": garbage, non-member, delivery failure, close, cancel
WireB == BagOf(<<Msg(1, K1, 111), Msg(2, K1, 211), Msg(1, K2, 121), Garbage(2), Msg(9, K1, 911)>>)

\* ---- quick C "retry": two calls on the same cid (concurrent refusal / retry after cancel), conflict after consumption
CallsC == {"w1", "w3"}
ArgsCx(w) == CASE w = "w1" -> {[cid |-> K1, froms |-> {1, 2}]}
              [] w = "w3" -> {[cid |-> K1, froms |-> {1, 2}], [cid |-> K1, froms |-> {2}]}
WireC == BagOf(<<Msg(1, K1, 111), Msg(2, K1, 211), Msg(2, K1, 212), Msg(2, K1, 211)>>)

\* ---- thorough
WireQ == BagOf(<<Msg(1, K1, 111), Msg(1, K1, 111), Msg(2, K1, 211), Msg(2, K1, 212), Msg(1, K2, 121), Msg(9, K1, 911)>>)
WireT3 == BagOf(<<Msg(1, K1, 111), Msg(2, K1, 211), Msg(2, K1, 212), Msg(1, K2, 121)>>)
\* ---- overflow: Bound = 2
WireO == BagOf(<<Msg(1, K1, 111), Msg(2, K1, 211), Msg(1, K2, 121), Msg(2, K2, 221)>>)

\* ---- liveness / sensitivity (small)
WireL == BagOf(<<Msg(1, K1, 111), Msg(2, K1, 211), Msg(2, K1, 212), Msg(1, K2, 121), Msg(9, K2, 921)>>)

\* ---- thorough: 3 senders, 3 cids in nested namespaces, 3 calls + retry, garbage, more duplicates
CallsT == {"w1", "w2", "w3"}
ArgsTx(w) == CASE w = "w1" -> {[cid |-> K1, froms |-> {1, 2}]}
              [] w = "w2" -> {[cid |-> K2, froms |-> {1, 3}]}
              [] w = "w3" -> {[cid |-> K1, froms |-> {1, 2}], [cid |-> K3, froms |-> {2}]}
WireT == BagOf(<<Msg(1, K1, 111), Msg(1, K1, 111), Msg(2, K1, 211), Msg(2, K1, 212),
                 Msg(1, K2, 121), Msg(3, K2, 321), Msg(2, K3, 231), Msg(9, K3, 931)>>)

Choices(C, A(_)) == {f \in [C -> UNION {A(w) : w \in C}] : \A w \in C : f[w] \in A(w)}
ArgsA == Choices(CallsA, ArgsAx)
ArgsC == Choices(CallsC, ArgsCx)
ArgsT == Choices(CallsT, ArgsTx)

\* ---- scenario scripts: forced prefixes <<action, process, payload or 0>> of the known races
\* (used with RecordH = "full"; after the prefix the behaviour continues freely)
CONSTANT Script
\* deposit between the scan and the select (the window): the token must survive
S1 == << <<"EnterAttach", "w1", 0>>, <<"RdStart", "rd", 0>>, <<"ScanWait", "w1", 0>>, <<"RdRecv", "rd", 111>>, <<"DepNew", "rd", 0>>,
         <<"RdRecv", "rd", 211>>, <<"DepNew", "rd", 0>>, <<"Park", "w1", 0>>, <<"WakeToken", "w1", 0>>, <<"ScanOk", "w1", 0>> >>
\* cancel racing the last deposit: the complete set wins over the cancellation
S2 == << <<"EnterAttach", "w1", 0>>, <<"RdStart", "rd", 0>>, <<"RdRecv", "rd", 111>>, <<"DepNew", "rd", 0>>, <<"ScanWait", "w1", 0>>, <<"Park", "w1", 0>>,
         <<"RdRecv", "rd", 211>>, <<"Cancel", "w1", 0>>, <<"WakeOther", "w1", 0>>, <<"DepNew", "rd", 0>>, <<"ScanOk", "w1", 0>> >>
\* cancel wins when the last deposit comes after the scan: nothing is lost, a retry (w3) gets the set
S2b == << <<"EnterAttach", "w1", 0>>, <<"RdStart", "rd", 0>>, <<"RdRecv", "rd", 111>>, <<"DepNew", "rd", 0>>, <<"ScanWait", "w1", 0>>, <<"Park", "w1", 0>>,
          <<"RdRecv", "rd", 211>>, <<"Cancel", "w1", 0>>, <<"WakeOther", "w1", 0>>, <<"ScanCtx", "w1", 0>>, <<"DepNew", "rd", 0>>, <<"CleanupKeep", "w1", 0>>,
          <<"EnterAttach", "w3", 0>>, <<"ScanOk", "w3", 0>> >>
\* close racing a complete set: the attached call still gets it, a later call gets the failure
S3 == << <<"EnterAttach", "w1", 0>>, <<"RdStart", "rd", 0>>, <<"ScanWait", "w1", 0>>, <<"Park", "w1", 0>>, <<"RdRecv", "rd", 111>>, <<"DepNew", "rd", 0>>,
         <<"WakeToken", "w1", 0>>, <<"RdRecv", "rd", 211>>, <<"DepNew", "rd", 0>>, <<"Close", "close", 0>>, <<"ScanOk", "w1", 0>>,
         <<"EnterFatal", "w3", 0>> >>
\* conflicting duplicate after consumption: a new message, no poison
S4 == << <<"EnterAttach", "w1", 0>>, <<"RdStart", "rd", 0>>, <<"RdRecv", "rd", 111>>, <<"DepNew", "rd", 0>>, <<"RdRecv", "rd", 211>>, <<"DepNew", "rd", 0>>,
         <<"ScanOk", "w1", 0>>, <<"RdRecv", "rd", 212>>, <<"DepNew", "rd", 0>>, <<"CleanupKeep", "w1", 0>> >>
\* identical duplicate absorbed, conflicting duplicate poisons and wakes the waiter
S5 == << <<"EnterAttach", "w1", 0>>, <<"RdStart", "rd", 0>>, <<"RdRecv", "rd", 211>>, <<"DepNew", "rd", 0>>, <<"ScanWait", "w1", 0>>, <<"Park", "w1", 0>>,
         <<"RdRecv", "rd", 211>>, <<"DepDupEqual", "rd", 0>>, <<"WakeToken", "w1", 0>>, <<"ScanWait", "w1", 0>>, <<"Park", "w1", 0>>,
         <<"RdRecv", "rd", 212>>, <<"DepConflict", "rd", 0>>, <<"WakeToken", "w1", 0>>, <<"ScanPoison", "w1", 0>> >>
\* concurrent call on the same correlation id is refused and disturbs nothing
S6 == << <<"EnterAttach", "w1", 0>>, <<"EnterBusy", "w3", 0>>, <<"RdStart", "rd", 0>>, <<"ScanWait", "w1", 0>> >>
CallsS == {"w1", "w2", "w3"}
ArgsSx(w) == CASE w = "w1" -> {[cid |-> K1, froms |-> {1, 2}]}
               [] w = "w2" -> {[cid |-> K2, froms |-> {1}]}
               [] w = "w3" -> {[cid |-> K1, froms |-> {1, 2}]}
ArgsS == Choices(CallsS, ArgsSx)
WireS == BagOf(<<Msg(1, K1, 111), Msg(2, K1, 211), Msg(2, K1, 211), Msg(2, K1, 212), Msg(1, K2, 121), Msg(9, K1, 911)>>)
AllScripts == <<S1, S2, S2b, S3, S4, S5, S6>>
NoScript == << >>
Fits(e, x) == e.a = x[1] /\ e.p = x[2] /\ (x[3] # 0 => e.m.pay = x[3])
\* the history stays compatible with at least one script until that script is exhausted
Scripted == Len(h') > Len(h) =>
  \E j \in 1..Len(Script) : LET scr == Script[j] IN \A i \in 1..(IF Len(h') < Len(scr) THEN Len(h') ELSE Len(scr)) : Fits(h'[i], scr[i])
ScriptNext == Next /\ Scripted

\* behaviours are printed when nothing but stuttering is possible any more
Quiescent == ~ENABLED (Reader \/ (\E self \in Calls : Recv(self)) \/ Canceller \/ Closer \/ Net)
PrintBehaviour == Quiescent => (IF TLCGet(2) = h THEN TRUE ELSE TLCSet(2, h) /\ PrintT(<<"BEHAVIOUR", ToJson(h)>>))
SimInit == Init /\ TLCSet(2, << >>)
\* coverage of (action, source pc vector) pairs: every worker prints a pair the first time it takes it
CovInit == Init /\ TLCSet(3, {})
CovStep == h' # h => LET x == <<h'[1].a, h'[1].src>> IN
             IF x \in TLCGet(3) THEN TRUE ELSE TLCSet(3, TLCGet(3) \cup {x}) /\ PrintT(<<"COV", ToJson(x)>>)
Cov == [][CovStep]_vars
=============================================================================

------------------------------ MODULE RouterMC ------------------------------
(* Constants of the model-checking and scenario configurations of Router.  *)
(* Payloads are globally distinct integers 100*from + 10*cid + variant, so *)
(* cross-talk between correlation ids would be visible.                    *)
EXTENDS Router

K1 == Key(Root, "x")                                   \* "x"
K2 == Key(Namespaced(Root, "a"), "x")                  \* "a/x"
K3 == Key(Namespaced(Namespaced(Root, "a"), "b"), "x") \* "a/b/x"
Msg(f, c, p) == [from |-> f, cid |-> c, pay |-> p, bad |-> FALSE]
Garbage(f)   == [from |-> f, cid |-> << >>, pay |-> 0, bad |-> TRUE]
BagOf(seq)   == LET S == {seq[i] : i \in 1..Len(seq)}
                IN [m \in S |-> Cardinality({i \in 1..Len(seq) : seq[i] = m})]

Q2 == {1, 2}
Q3 == {1, 2, 3}
NoSend == {}

\* ---- quick A "dup": identical + conflicting duplicates, two namespaces, cancel
CallsA == {"w1", "w2"}
ArgsAx(w) == CASE w = "w1" -> {[cid |-> K1, froms |-> {1, 2}]}
              [] w = "w2" -> {[cid |-> K2, froms |-> {1}]}
WireA == BagOf(<<Msg(1, K1, 111), Msg(1, K1, 111), Msg(2, K1, 211), Msg(2, K1, 212), Msg(1, K2, 121)>>)

\* ---- quick B "fail": garbage, non-member, delivery failure, close, cancel
WireB == BagOf(<<Msg(1, K1, 111), Msg(2, K1, 211), Msg(1, K2, 121), Garbage(2), Msg(9, K1, 911)>>)

\* ---- quick C "retry": two calls on the same cid (concurrent refusal / retry after cancel), conflict after consumption
CallsC == {"w1", "w3"}
ArgsCx(w) == CASE w = "w1" -> {[cid |-> K1, froms |-> {1, 2}]}
              [] w = "w3" -> {[cid |-> K1, froms |-> {1, 2}], [cid |-> K1, froms |-> {2}]}
WireC == BagOf(<<Msg(1, K1, 111), Msg(2, K1, 211), Msg(2, K1, 212), Msg(2, K1, 211)>>)

\* ---- overflow: Bound = 2
WireO == BagOf(<<Msg(1, K1, 111), Msg(2, K1, 211), Msg(1, K2, 121), Msg(2, K2, 221), Msg(1, K1, 111)>>)

\* ---- liveness / sensitivity (small)
WireL == BagOf(<<Msg(1, K1, 111), Msg(2, K1, 211), Msg(2, K1, 212), Msg(1, K2, 121), Msg(9, K2, 921)>>)

\* ---- thorough: 3 senders, 3 cids in nested namespaces, 3 calls + retry, garbage, more duplicates
CallsT == {"w1", "w2", "w3"}
ArgsTx(w) == CASE w = "w1" -> {[cid |-> K1, froms |-> {1, 2}]}
              [] w = "w2" -> {[cid |-> K2, froms |-> {1, 3}]}
              [] w = "w3" -> {[cid |-> K1, froms |-> {1, 2}], [cid |-> K3, froms |-> {2}]}
WireT == BagOf(<<Msg(1, K1, 111), Msg(1, K1, 111), Msg(2, K1, 211), Msg(2, K1, 212),
                 Msg(1, K2, 121), Msg(3, K2, 321), Msg(2, K3, 231), Msg(9, K3, 931)>>)

Choices(C, A(_)) == {f \in [C -> UNION {A(w) : w \in C}] : \A w \in C : f[w] \in A(w)}
ArgsA == Choices(CallsA, ArgsAx)
ArgsC == Choices(CallsC, ArgsCx)
ArgsT == Choices(CallsT, ArgsTx)

\* behaviours are printed when nothing but stuttering is possible any more
Quiescent == ~ENABLED Next
PrintBehaviour == Quiescent => PrintT(<<"BEHAVIOUR", ToString(h)>>)
=============================================================================

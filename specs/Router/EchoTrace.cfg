SPECIFICATION TraceSpec
CONSTANTS
  Parties <- TParties
  Byz <- TByz
  Payloads <- TPay
  ByzDigests <- TDig
  AllowOmit = TRUE
INVARIANTS EchoAgreement EchoValidity EchoConsistency
POSTCONDITION Accepted

----------------------------- MODULE EchoTrace -----------------------------
(* Validates runs of the real echo.Participant (driver: harness/cmd/router   *)
(* -mode echo) against Echo: for every logged behaviour the adversary's      *)
(* choices are loaded, Echo's own Round actions are taken, and the resulting *)
(* state must equal what the real parties did (who got through Round2, the   *)
(* digest map each honest party echoed, who accepted, what was delivered).   *)
(* All lines of one file share n and the Byzantine set (header). Lines that  *)
(* do not match are collected in register 2 and validation goes on.          *)
EXTENDS Echo, Json, TLC, Sequences

Trace == ndJsonDeserialize("trace.ndjson")
N == Len(Trace)
TParties == 1..Trace[1].n
Range(s) == {s[i] : i \in 1..Len(s)}
TByz == Range(Trace[1].byz)
TPay == {1, 2}
TDig == {1, 2, 0, -1}
PairsFn(ps) == [x \in {p[1] : p \in Range(ps)} |-> (CHOOSE p \in Range(ps) : p[1] = x)[2]]

VARIABLE l
tvars == <<vars, l>>

R2Of(e, x) == CHOOSE r \in Range(e.r2) : r.e = x[1] /\ r.p = x[2]
Load(e) ==
  /\ input' = PairsFn(e.input)
  /\ byz1' = [x \in Byz \X Honest |-> (CHOOSE t \in Range(e.r1) : t[1] = x[1] /\ t[2] = x[2])[3]]
  /\ byz2sent' = [x \in Byz \X Honest |-> ~R2Of(e, x).m.none]
  /\ byz2' = [x \in {<<b, p, id>> \in Byz \X Honest \X Parties : id # b /\ id # p} |->
                LET m == R2Of(e, <<x[1], x[2]>>).m IN
                IF m.none \/ x[3] \notin DOMAIN PairsFn(m.e) THEN ZeroD ELSE PairsFn(m.e)[x[3]]]
  /\ round' = 0
  /\ recv' = [p \in Honest |-> [s \in Others(p) |-> 0]]
  /\ ok2' = [p \in Honest |-> FALSE] /\ echo' = [p \in Honest |-> NoEcho]
  /\ acc' = [p \in Honest |-> FALSE] /\ out' = [p \in Honest |-> EmptyFn]

Matches(e) ==
  /\ ok2 = PairsFn(e.ok2)
  /\ acc = PairsFn(e.acc)
  /\ {x[1] : x \in Range(e.echo)} = {p \in Honest : ok2[p]}
  /\ \A x \in Range(e.echo) : /\ echo[x[1]].m = PairsFn(x[2])
                              /\ x[3]                        \* the same map went to every recipient
                              /\ x[4] = Cardinality(Parties) - 1
  /\ {x[1] : x \in Range(e.out)} = {p \in Honest : acc[p]}
  /\ \A x \in Range(e.out) : out[x[1]] = PairsFn(x[2])

TraceInit ==
  /\ input = [p \in Honest |-> 1] /\ byz1 = [x \in Byz \X Honest |-> 1]
  /\ byz2 = [x \in {<<b, p, id>> \in Byz \X Honest \X Parties : id # b /\ id # p} |-> 1]
  /\ byz2sent = [x \in Byz \X Honest |-> TRUE] /\ round = 0
  /\ recv = [p \in Honest |-> [s \in Others(p) |-> 0]]
  /\ ok2 = [p \in Honest |-> FALSE] /\ echo = [p \in Honest |-> NoEcho]
  /\ acc = [p \in Honest |-> FALSE] /\ out = [p \in Honest |-> EmptyFn]
  /\ l = 1 /\ TLCSet(2, {})
Start == l = 1 /\ l' = 2 /\ (IF N >= 2 THEN Load(Trace[2]) ELSE UNCHANGED vars)
Rounds == l >= 2 /\ l <= N /\ Next /\ UNCHANGED l
Advance == /\ l >= 2 /\ l <= N /\ round = 3
           /\ IF Matches(Trace[l]) THEN TRUE ELSE TLCSet(2, TLCGet(2) \cup {l})
           /\ l' = l + 1
           /\ IF l + 1 <= N THEN Load(Trace[l + 1]) ELSE UNCHANGED vars
TraceNext == Start \/ Rounds \/ Advance
TraceSpec == TraceInit /\ [][TraceNext]_tvars
EchoAgreement == l >= 2 => Agreement
EchoValidity == l >= 2 => Validity
EchoConsistency == l >= 2 => Consistency
Accepted == PrintT(<<"BAD", TLCGet(2)>>) /\ TLCGet(2) = {}
=============================================================================

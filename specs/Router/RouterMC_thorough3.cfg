INIT CovInit
NEXT Next
CONSTANTS
  Quorum <- Q2
  Calls <- CallsS
  CallArgChoices <- ArgsS
  InitWire <- WireT3
  SendPool <- NoSend
  SendBudget = 0
  Bound = 100
  MaxCancel = 1
  MaxClose = 1
  MaxDeliveryFail = 0
  Unbuffered = FALSE
  Script <- NoScript
  RecordH = "last"
VIEW View
INVARIANTS TypeOK BufferAccounting BoxHistory NoCrossTalk BlamesSender FatalResults NoLostWakeup NotifyConsistent
PROPERTIES Cov ExactRouting DupAbsorbed ConflictPoisons CancelLosesNothing FailureLatched

--------------------------- MODULE OverflowTrace ---------------------------
(* The overflow run of the real router (10 001 distinct messages, documented   *)
(* bound 10 000) is too large for RouterTrace (the state would hold 10 000     *)
(* payloads). This is the counting abstraction of Router's deposit / failure   *)
(* latch: buffered counts new deposits, the deposit that finds buffered >=     *)
(* Bound stores nothing, creates its mailbox and latches "overflow"; after     *)
(* that the reader emits no event and every call ends with that failure.       *)
(* (Router.tla itself explores the overflow path exhaustively with Bound = 2.) *)
EXTENDS Integers, Sequences, Json, TLC

CONSTANT Bound
Trace == ndJsonDeserialize("trace.ndjson")
N == Len(Trace)

VARIABLES l, buffered, nbox, fatal, boxseen
vars == <<l, buffered, nbox, fatal, boxseen>>

E == Trace[l]
Init == l = 1 /\ buffered = 0 /\ nbox = 0 /\ fatal = "none" /\ boxseen = {}
Skip == l <= N /\ E.a \in {"hdr", "reset", "send", "recv", "cancel", "ret", "rderr"} /\ l' = l + 1
        /\ UNCHANGED <<buffered, nbox, fatal, boxseen>>
\* a deposit of a message from a sender that is not yet in the mailbox (the run only has distinct messages)
Dep == /\ l <= N /\ E.a = "dep" /\ fatal # "overflow"
       /\ boxseen' = boxseen \cup {E.cid}
       /\ IF buffered >= Bound
            THEN /\ buffered' = buffered /\ fatal' = "overflow" /\ E.present = << >>
            ELSE /\ buffered' = buffered + 1 /\ fatal' = fatal /\ Len(E.present) >= 1
       /\ nbox' = E.nbox /\ E.nbox - nbox \in {0, 1} /\ (E.cid \in boxseen => E.nbox = nbox)
       /\ E.buffered = buffered' /\ E.fatal = fatal' /\ E.exists
       /\ l' = l + 1
\* the calls of the run never get anything: they wait, and end with the latched failure / their context
Call == /\ l <= N /\ E.a \in {"en-attach", "en-fatal", "sc-wait", "sc-fatal", "sc-ctx", "cl", "close", "fail"}
        /\ E.buffered = buffered /\ E.fatal = (IF E.a \in {"close", "fail"} /\ fatal = "none" THEN E.fatal ELSE fatal)
        /\ (E.a \in {"en-fatal", "sc-fatal"}) => fatal # "none"
        /\ fatal' = E.fatal /\ nbox' = E.nbox
        /\ l' = l + 1 /\ UNCHANGED <<buffered, boxseen>>
\* the run ends with the buffer exactly at its bound and the overflow latched
End == l <= N /\ E.a = "end" /\ buffered = Bound /\ fatal = "overflow" /\ l' = l + 1 /\ UNCHANGED <<buffered, nbox, fatal, boxseen>>
Next == Skip \/ Dep \/ Call \/ End
Spec == Init /\ [][Next]_vars
BoundRespected == buffered <= Bound
Accepted == PrintT(<<"OVF", TLCGet("stats").diameter, N + 1>>) /\ TLCGet("stats").diameter = N + 1
=============================================================================

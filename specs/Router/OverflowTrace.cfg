SPECIFICATION Spec
CONSTANT Bound = 10000
INVARIANT BoundRespected
POSTCONDITION Accepted

SPECIFICATION Spec
CONSTANTS
  Quorum <- Q2
  Calls <- CallsA
  CallArgChoices <- ArgsA
  InitWire <- WireT3
  SendPool <- NoSend
  SendBudget = 0
  Bound = 100
  MaxCancel = 1
  MaxClose = 0
  MaxDeliveryFail = 1
  Unbuffered = FALSE
  Script <- NoScript
  RecordH = "off"
INVARIANTS NoLostWakeup
PROPERTIES NoLostWakeupLive NoDeadlockWhileDeliverable

INIT CovInit
NEXT Next
CONSTANTS
  Quorum <- Q2
  Calls <- CallsA
  CallArgChoices <- ArgsA
  InitWire <- WireO
  SendPool <- NoSend
  SendBudget = 0
  Bound = 2
  MaxCancel = 0
  MaxClose = 1
  MaxDeliveryFail = 0
  Unbuffered = FALSE
  Script <- NoScript
  RecordH = "last"
VIEW View
INVARIANTS TypeOK BufferAccounting BoxHistory NoCrossTalk BlamesSender FatalResults NoLostWakeup NotifyConsistent
PROPERTIES Cov ExactRouting DupAbsorbed ConflictPoisons CancelLosesNothing FailureLatched

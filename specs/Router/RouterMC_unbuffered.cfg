SPECIFICATION Spec
CONSTANTS
  Quorum <- Q2
  Calls <- CallsA
  CallArgChoices <- ArgsA
  InitWire <- WireL
  SendPool <- NoSend
  SendBudget = 0
  Bound = 100
  MaxCancel = 0
  MaxClose = 0
  MaxDeliveryFail = 0
  Unbuffered = TRUE
  Script <- NoScript
  RecordH = "off"
VIEW View
INVARIANTS TypeOK BufferAccounting BoxHistory NoCrossTalk BlamesSender FatalResults NoLostWakeup NotifyConsistent
PROPERTIES ExactRouting DupAbsorbed ConflictPoisons CancelLosesNothing FailureLatched

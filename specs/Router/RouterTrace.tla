---------------------------- MODULE RouterTrace ----------------------------
(* Trace validation for routerCore: every line of trace.ndjson is one event *)
(* recorded from the real pkg/network router (hooks under the router's      *)
(* mutex, ordered by their sequence number, merged with what the harness's  *)
(* Delivery returned, cancellations and call results). A line is accepted   *)
(* iff the corresponding action of Router is enabled and its post-state     *)
(* projects to the logged state. Steps that leave no event (the start of    *)
(* the reader, entering the select, waking up, the moment a cancellation    *)
(* takes effect inside its logged window) are inferred. Runs are separated  *)
(* by reset lines; register 1 holds the high-water mark of every run; a run *)
(* that cannot be continued is skipped so that the others are still checked.*)
EXTENDS Router, Json

Trace == ndJsonDeserialize("trace.ndjson")
N     == Len(Trace)
Hdr   == Trace[1]                  \* {a: "hdr", quorum, calls, ends}
Range(s) == {s[i] : i \in 1..Len(s)}
TQuorum == Range(Hdr.quorum)
TCalls  == Range(Hdr.calls)
NRuns   == Len(Hdr.ends)
DummyArg == [cid |-> <<"?">>, froms |-> {}]
TChoices == {[w \in TCalls |-> DummyArg]}
NoPool == {}

VARIABLES l, run, pend
tvars == <<vars, l, run, pend>>

E == Trace[l]
IsEv(a) == l <= N /\ Trace[l].a = a
MsgOf(e) == [from |-> e.from, cid |-> e.cid, pay |-> e.pay, bad |-> e.bad]
PairsFn(ps) == [x \in {p[1] : p \in Range(ps)} |-> (CHOOSE p \in Range(ps) : p[1] = x)[2]]
Mark == TLCSet(1, [TLCGet(1) EXCEPT ![run'] = IF @ < l' THEN l' ELSE @])
\* entering the select leaves no event and commutes with everything: it is taken eagerly
NoWin == \A w \in Calls : pc[w] # "win"
Adv == NoWin /\ l' = l + 1 /\ run' = run /\ Mark
\* cancel() ran between the ends of the critical sections lo and hi+1; the section hi+1 may have read
\* ctx.Err() before it, every later one reads it afterwards
SeqOK(e) == \A x \in pend : e.seq <= x.hi + 1

InitPc == [self \in ProcSet |-> CASE self = "rd" -> "rds" [] self \in Calls -> "en"
                                  [] self = "cancel" -> "ca" [] self = "close" -> "clo" [] self = "net" -> "snd"]

\* projection of the post-state onto what the hook logged
ProjOK(e) ==
  /\ buffered' = e.buffered
  /\ Cardinality(DOMAIN boxes') = e.nbox
  /\ started' = e.started
  /\ fatal' = e.fatal
  /\ e.a \notin {"fail", "close"} =>
       LET c == e.cid IN
       /\ (c \in DOMAIN boxes') = e.exists
       /\ e.exists => LET b == boxes'[c] IN
            /\ b.pay = PairsFn(e.present)
            /\ b.poison = e.poison
            /\ (b.notify # NoCall) = e.notify
            \* a send on the buffered channel is handed over directly to a receiver that is blocked in
            \* the select, so the token can already be gone when the reader looks at the channel
            /\ \/ b.token = e.token
               \/ e.a = "dep" /\ b.token /\ ~e.token /\ b.notify # NoCall /\ pc'[b.notify] \in {"win", "wt"}
       /\ ~e.exists => e.present = << >> /\ e.poison = 0 /\ ~e.notify /\ ~e.token

EvReset ==
  /\ IsEv("reset") /\ l' = l + 1 /\ run' = E.run /\ pend' = {} /\ Mark
  /\ wire' = EmptyBag /\ sendLeft' = 0 /\ hand' = NoMsg /\ rdWhy' = "none"
  /\ boxes' = EmptyFn /\ buffered' = 0 /\ started' = FALSE /\ stopped' = FALSE /\ fatal' = "none"
  /\ callArg' = [w \in Calls |-> LET S == {i \in 1..Len(E.calls) : E.calls[i].w = w} IN
                   IF S = {} THEN DummyArg
                   ELSE LET c == E.calls[CHOOSE i \in S : TRUE] IN [cid |-> c.cid, froms |-> Range(c.froms)]]
  /\ cancelled' = [w \in Calls |-> FALSE] /\ res' = [w \in Calls |-> NoRes]
  /\ nCancel' = 0 /\ nClose' = 0 /\ nFail' = 0 /\ arr' = EmptyFn /\ ep' = EmptyFn /\ h' = << >>
  /\ pc' = InitPc

EvEnd == IsEv("end") /\ pend = {} /\ Adv /\ UNCHANGED <<vars, pend>>

\* environment: what the harness put on the wire, what its Delivery returned, cancellations
EvSend == /\ IsEv("send") /\ wire' = wire (+) SetToBag({MsgOf(E)}) /\ Adv
          /\ UNCHANGED <<sendLeft, hand, rdWhy, boxes, buffered, started, stopped, fatal, callArg, cancelled, res,
                         nCancel, nClose, nFail, arr, ep, h, pc, pend>>
EvRecv == IsEv("recv") /\ rd0 /\ wire' = wire (-) SetToBag({MsgOf(E)}) /\ Adv /\ UNCHANGED pend
EvRdErr == IsEv("rderr") /\ rd0 /\ rdWhy' = "delivery" /\ wire' = wire /\ Adv /\ UNCHANGED pend
EvCancel == /\ IsEv("cancel") /\ pend' = pend \cup {[w |-> E.w, hi |-> E.hi]} /\ Adv /\ UNCHANGED vars

\* the implementation's critical sections
EvDep == /\ IsEv("dep") /\ SeqOK(E) /\ hand.from = E.from /\ hand.cid = E.cid /\ hand.pay = E.pay
         /\ dep /\ ProjOK(E) /\ Adv /\ UNCHANGED pend
EvFail == IsEv("fail") /\ SeqOK(E) /\ rfl /\ ProjOK(E) /\ Adv /\ UNCHANGED pend
EvClose == IsEv("close") /\ SeqOK(E) /\ clo /\ ProjOK(E) /\ Adv /\ UNCHANGED pend
EnterKind(a) == CASE a = "en-fatal" -> "fatal" [] a = "en-busy" -> "busy" [] a = "en-attach" -> "none"
EvEnter == /\ l <= N /\ E.a \in {"en-fatal", "en-busy", "en-attach"} /\ SeqOK(E)
           /\ E.w \in Calls /\ Cid(E.w) = E.cid /\ Froms(E.w) = Range(E.froms)
           /\ en(E.w) /\ res'[E.w].kind = EnterKind(E.a)
           /\ E.a = "en-attach" => boxes'[E.cid].notify = E.w
           /\ ProjOK(E) /\ Adv /\ UNCHANGED pend
ScanKind(a) == CASE a = "sc-poison" -> "poison" [] a = "sc-ok" -> "ok" [] a = "sc-fatal" -> "fatal"
                 [] a = "sc-ctx" -> "ctx" [] a = "sc-wait" -> "none"
ScanEvents == {"sc-poison", "sc-ok", "sc-fatal", "sc-ctx", "sc-wait"}
EvScan == /\ l <= N /\ E.a \in ScanEvents /\ SeqOK(E) /\ E.w \in Calls /\ Cid(E.w) = E.cid
          /\ sc(E.w) /\ res'[E.w].kind = ScanKind(E.a)
          /\ ProjOK(E) /\ Adv /\ UNCHANGED pend
EvCl == IsEv("cl") /\ SeqOK(E) /\ E.w \in Calls /\ Cid(E.w) = E.cid /\ cl(E.w) /\ ProjOK(E) /\ Adv /\ UNCHANGED pend
\* the result the caller saw is the one decided in the scan / entry section
EvRet == /\ IsEv("ret") /\ E.w \in Calls /\ pc[E.w] = "done"
         /\ res[E.w].kind = E.kind /\ res[E.w].why = E.why /\ res[E.w].blame = E.blame
         /\ res[E.w].pay = PairsFn(E.pay)
         /\ Adv /\ UNCHANGED <<vars, pend>>
\* protocol runners: all parties' outputs agree (evaluated by the driver from the runners' results)
EvOutputs == IsEv("outputs") /\ E.agree /\ Adv /\ UNCHANGED <<vars, pend>>
\* replay only: the goroutine of call w did not get past the select although the schedule released it
EvStuck == /\ IsEv("stuck") /\ E.at = "wt" /\ E.w \in Calls /\ pc[E.w] = "wt"
           /\ ~(boxes[Cid(E.w)].token \/ cancelled[E.w] \/ fatal # "none")
           /\ Adv /\ UNCHANGED <<vars, pend>>

\* steps without an event
\* (a wake-up may happen long before the scan that follows it: other deposits can come in between)
IntPark(w) == l <= N /\ win(w) /\ UNCHANGED <<l, run, pend>>
IntWake(w) == l <= N /\ wt(w) /\ UNCHANGED <<l, run, pend>>
IntStart == l <= N /\ Trace[l].a \in {"send", "rderr"} /\ rds /\ UNCHANGED <<l, run, pend>>
IntCancel == \E x \in pend : /\ cancelled' = [cancelled EXCEPT ![x.w] = TRUE] /\ pend' = pend \ {x}
                             /\ UNCHANGED <<wire, sendLeft, hand, rdWhy, boxes, buffered, started, stopped, fatal, callArg,
                                            res, nCancel, nClose, nFail, arr, ep, h, pc, l, run>>
\* give up the current run (its high-water mark stays where it is) and go on with the next one
Skip == /\ run >= 1 /\ l <= N /\ Trace[l].a \notin {"reset", "hdr"} /\ l <= Hdr.ends[run]
        /\ l' = Hdr.ends[run] + 1 /\ run' = run /\ pend' = {} /\ UNCHANGED vars

TraceInit == Init /\ l = 2 /\ run = 0 /\ pend = {} /\ TLCSet(1, [r \in 1..NRuns |-> 0])
TraceNext == \/ EvReset \/ EvEnd \/ EvSend \/ EvRecv \/ EvRdErr \/ EvCancel \/ EvDep \/ EvFail \/ EvClose
             \/ EvEnter \/ EvScan \/ EvCl \/ EvRet \/ EvStuck \/ EvOutputs
             \/ (\E w \in Calls : IntPark(w) \/ IntWake(w)) \/ IntStart \/ IntCancel \/ Skip
TraceSpec == TraceInit /\ [][TraceNext]_tvars

NotReset == ~IsEv("reset") \/ l' = l
TExactRouting == [][NotReset => ExactRoutingStep]_tvars
TDupAbsorbed == [][NotReset => DupAbsorbedStep]_tvars
TConflictPoisons == [][NotReset => ConflictPoisonsStep]_tvars
TCancelLosesNothing == [][NotReset => CancelLosesNothingStep]_tvars
TFailureLatched == [][NotReset => FailureLatchedStep]_tvars

\* accepted iff every run was consumed up to its end line
Accepted == /\ PrintT(<<"HW", TLCGet(1)>>)
            /\ \A r \in 1..NRuns : TLCGet(1)[r] = Hdr.ends[r] + 1
=============================================================================

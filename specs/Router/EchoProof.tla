------------------------------ MODULE EchoProof ------------------------------
(***************************************************************************)
(* TLAPS proof that Echo.tla's Agreement holds for ANY set of parties, any *)
(* set of Byzantine parties and any payload set (TLC checks it for n <= 5). *)
(* Checked with: tlapm --threads 8 EchoProof.tla                           *)
(***************************************************************************)
EXTENDS Echo, TLAPS

\* what the three rounds establish, in terms of the (constant) first-round sends R1
Inv ==
  /\ round \in 0..3
  /\ round >= 1 => \A p \in Honest : recv[p] = [s \in Others(p) |-> R1(s, p)]
  /\ round >= 2 => \A p \in Honest : ok2[p] => echo[p] = EchoOf(p)
  /\ round < 3 => \A p \in Honest : acc[p] = FALSE
  /\ round = 3 => \A p \in Honest : acc[p] => (ok2[p] /\ Round3OK(p) /\ out[p] = recv[p])

LEMMA InitInv == Init => Inv
  BY DEF Init, Inv

LEMMA StepInv == Inv /\ [Next]_vars => Inv'
<1> SUFFICES ASSUME Inv, [Next]_vars PROVE Inv'
  OBVIOUS
<1>1 CASE DoRound1
  <2>1 round' = 1 /\ UNCHANGED <<input, byz1, byz2, byz2sent, ok2, echo, acc, out>>
    BY <1>1 DEF DoRound1
  <2>2 \A p \in Honest : recv'[p] = [s \in Others(p) |-> R1(s, p)']
    BY <1>1 DEF DoRound1, R1
  <2>3 \A p \in Honest : acc'[p] = FALSE
    BY <1>1, <2>1 DEF DoRound1, Inv
  <2> QED BY <2>1, <2>2, <2>3 DEF Inv, R1
<1>2 CASE DoRound2
  <2>1 round = 1 /\ round' = 2 /\ UNCHANGED <<input, byz1, byz2, byz2sent, recv, acc, out>>
    BY <1>2 DEF DoRound2
  <2>2 \A p \in Honest : recv'[p] = [s \in Others(p) |-> R1(s, p)']
    BY <2>1 DEF Inv, R1
  <2>3 \A p \in Honest : ok2'[p] => echo'[p] = EchoOf(p)'
    BY <1>2, <2>1 DEF DoRound2, EchoOf, Round2OK, R1, Sent, H
  <2>4 \A p \in Honest : acc'[p] = FALSE
    BY <2>1 DEF Inv
  <2> QED BY <2>1, <2>2, <2>3, <2>4 DEF Inv
<1>3 CASE DoRound3
  <2>1 round = 2 /\ round' = 3 /\ UNCHANGED <<input, byz1, byz2, byz2sent, recv, ok2, echo>>
    BY <1>3 DEF DoRound3
  <2>2 \A p \in Honest : recv'[p] = [s \in Others(p) |-> R1(s, p)']
    BY <2>1 DEF Inv, R1
  <2>3 \A p \in Honest : ok2'[p] => echo'[p] = EchoOf(p)'
    BY <2>1 DEF Inv, EchoOf, R1, Sent, H
  <2>4 \A p \in Honest : acc'[p] => (ok2'[p] /\ Round3OK(p)' /\ out'[p] = recv'[p])
    BY <1>3, <2>1 DEF DoRound3, Round3OK, R2, ByzEcho, Entry, Sent, NoEcho, H, ZeroD
  <2>5 (round \in 0..3)' BY <2>1
  <2>6 (round >= 1 => \A p \in Honest : recv[p] = [s \in Others(p) |-> R1(s, p)])' BY <2>2
  <2>7 (round >= 2 => \A p \in Honest : ok2[p] => echo[p] = EchoOf(p))' BY <2>3
  <2>8 (round < 3 => \A p \in Honest : acc[p] = FALSE)' BY <2>1
  <2>9 (round = 3 => \A p \in Honest : acc[p] => (ok2[p] /\ Round3OK(p) /\ out[p] = recv[p]))' BY <2>4
  <2> QED BY <2>5, <2>6, <2>7, <2>8, <2>9 DEF Inv
<1>4 CASE UNCHANGED vars
  BY <1>4 DEF vars, Inv, R1, EchoOf, Round3OK, R2, ByzEcho, Entry, Sent, NoEcho, H, ZeroD
<1> QED BY <1>1, <1>2, <1>3, <1>4 DEF Next

LEMMA InvAgreement == Inv => Agreement
<1> SUFFICES ASSUME Inv,
                    NEW p \in Honest, NEW q \in Honest, acc[p], acc[q],
                    NEW s \in Parties \ {p, q}
             PROVE out[p][s] = out[q][s]
  BY DEF Agreement
<1>0 round = 3
  BY DEF Inv
<1>1 ok2[p] /\ Round3OK(p) /\ out[p] = recv[p] /\ ok2[q] /\ out[q] = recv[q]
  BY <1>0 DEF Inv
<1>2 CASE p = q
  BY <1>2
<1>3 CASE p # q
  <2>1 s \in Others(p) /\ q \in Parties \ {p, s} /\ s \in Others(q)
    BY <1>3 DEF Others, Honest
  <2>2 R2(q, p).sent /\ Entry(R2(q, p), s) = H(recv[p][s])
    BY <1>1, <2>1 DEF Round3OK
  <2>3 q \notin Byz
    BY DEF Honest
  <2>4 R2(q, p) = echo[q] /\ echo[q] = EchoOf(q)
    BY <1>0, <1>1, <2>3 DEF R2, Inv
  <2>5 Entry(R2(q, p), s) = H(R1(s, q))
    BY <2>1, <2>4 DEF EchoOf, Entry, Sent
  <2>6 recv[q][s] = R1(s, q) /\ recv[p][s] = R1(s, p)
    BY <1>0, <2>1 DEF Inv
  <2> QED BY <1>1, <2>2, <2>5, <2>6 DEF H
<1> QED BY <1>2, <1>3

\* the stronger statement: whatever an accepting honest party delivers for a sender is what every OTHER honest party received
\* from that sender in round 1 (whether or not that party accepts itself)
LEMMA InvConsistency == Inv => Consistency
<1> SUFFICES ASSUME Inv,
                    NEW p \in Honest, acc[p],
                    NEW s \in Others(p), NEW q \in Honest \ {p, s}
             PROVE recv[q][s] = out[p][s]
  BY DEF Consistency
<1>0 round = 3
  BY DEF Inv
<1>1 ok2[p] /\ Round3OK(p) /\ out[p] = recv[p]
  BY <1>0 DEF Inv
<1>2 q \in Parties \ {p, s} /\ s \in Others(q) /\ q \notin Byz
  BY DEF Others, Honest
<1>3 R2(q, p).sent /\ Entry(R2(q, p), s) = H(recv[p][s])
  BY <1>1, <1>2 DEF Round3OK
<1>4 ok2[q]
  BY <1>2, <1>3 DEF R2, NoEcho
<1>5 R2(q, p) = echo[q] /\ echo[q] = EchoOf(q)
  BY <1>0, <1>2, <1>4 DEF R2, Inv
<1>6 Entry(R2(q, p), s) = H(R1(s, q))
  BY <1>2, <1>5 DEF EchoOf, Entry, Sent
<1>7 recv[q][s] = R1(s, q)
  BY <1>0, <1>2 DEF Inv
<1> QED BY <1>1, <1>3, <1>6, <1>7 DEF H

THEOREM EchoConsistency == Spec => []Consistency
<1>1 Init => Inv BY InitInv
<1>2 Inv /\ [Next]_vars => Inv' BY StepInv
<1>3 Inv => Consistency BY InvConsistency
<1> QED BY <1>1, <1>2, <1>3, PTL DEF Spec

\* first half of Validity: an honest sender's payload is what every accepting honest party delivers
HonestDelivered == \A p \in Honest : acc[p] => \A s \in Honest \ {p} : out[p][s] = input[s]
LEMMA InvHonestDelivered == Inv => HonestDelivered
<1> SUFFICES ASSUME Inv, NEW p \in Honest, acc[p], NEW s \in Honest \ {p}
             PROVE out[p][s] = input[s]
  BY DEF HonestDelivered
<1>0 round = 3 BY DEF Inv
<1>1 out[p] = recv[p] BY <1>0 DEF Inv
<1>2 s \in Others(p) /\ s \notin Byz BY DEF Others, Honest
<1>3 recv[p][s] = R1(s, p) BY <1>0, <1>2 DEF Inv
<1> QED BY <1>1, <1>2, <1>3 DEF R1
THEOREM EchoHonestDelivered == Spec => []HonestDelivered
<1>1 Init => Inv BY InitInv
<1>2 Inv /\ [Next]_vars => Inv' BY StepInv
<1>3 Inv => HonestDelivered BY InvHonestDelivered
<1> QED BY <1>1, <1>2, <1>3, PTL DEF Spec

THEOREM EchoAgreement == Spec => []Agreement
<1>1 Init => Inv BY InitInv
<1>2 Inv /\ [Next]_vars => Inv' BY StepInv
<1>3 Inv => Agreement BY InvAgreement
<1> QED BY <1>1, <1>2, <1>3, PTL DEF Spec
=============================================================================

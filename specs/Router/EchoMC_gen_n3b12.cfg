SPECIFICATION Spec
CONSTANTS
  Parties <- P3
  Byz <- B12
  Payloads <- Pay2
  ByzDigests <- DAll
  PrintMod = 1
  AllowOmit = TRUE
INVARIANTS Agreement Validity Consistency PrintBehaviour

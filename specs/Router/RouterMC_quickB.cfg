SPECIFICATION Spec
CONSTANTS
  Quorum <- Q2
  Calls <- CallsA
  CallArgChoices <- ArgsA
  InitWire <- WireB
  SendPool <- NoSend
  SendBudget = 0
  Bound = 100
  MaxCancel = 0
  MaxClose = 1
  MaxDeliveryFail = 1
  Unbuffered = FALSE
  RecordH = "off"
VIEW View
INVARIANTS TypeOK BufferAccounting BoxHistory NoCrossTalk BlamesSender FatalResults NoLostWakeup NotifyConsistent
PROPERTIES ExactRouting DupAbsorbed ConflictPoisons CancelLosesNothing FailureLatched

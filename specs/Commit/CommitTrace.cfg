INIT Init
NEXT Next
INVARIANTS CaseOK GlobalOK
CHECK_DEADLOCK FALSE

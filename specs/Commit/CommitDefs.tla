------------------------------ MODULE CommitDefs ------------------------------
(* The algebra of the commitment schemes, by definition (see Commit for the state    *)
(* machine and the properties).  Group elements are discrete logarithms mod Q.       *)
EXTENDS FieldQ

ValidKey(k) == k.g # 0 /\ k.h # 0 /\ k.g # k.h
PubOf(g, lam) == [g |-> g, h |-> Mul(lam, g)]
ValidTrapdoor(g, lam) == g # 0 /\ lam # 0 /\ lam # 1

Com(k, m, w) == Add(Mul(k.g, m), Mul(k.h, w))
ComTrapdoor(g, lam, m, w) == Mul(g, Add(m, Mul(lam, w)))          \* TrapdoorKey.CommitWithWitness
Opens(k, c, m, w) == c = Com(k, m, w)
EquivW(lam, m, w, m2) == Add(w, Mul(Inv(lam), Sub(m, m2)))        \* TrapdoorKey.Equivocate

\* commitments.Homomorphic on <<c, m, w>> triples
TOp(k, a, b) == [c |-> Add(a.c, b.c), m |-> Add(a.m, b.m), w |-> Add(a.w, b.w)]
\* one variadic call CommitmentOp(a, b1, ..., bk) / MessageOp / WitnessOp: the fold of the binary operation
RECURSIVE TOpN(_, _, _)
TOpN(k, a, bs) == IF Len(bs) = 0 THEN a ELSE TOpN(k, TOp(k, a, Head(bs)), Tail(bs))
TInv(k, a) == [c |-> Neg(a.c), m |-> Neg(a.m), w |-> Neg(a.w)]
TScal(k, a, s) == [c |-> Mul(s, a.c), m |-> Mul(s, a.m), w |-> Mul(s, a.w)]
TReRand(k, a, r) == [c |-> Add(a.c, Mul(k.h, r)), m |-> a.m, w |-> Add(a.w, r)]
TShift(k, a, d) == [c |-> Add(a.c, Mul(k.g, d)), m |-> Add(a.m, d), w |-> a.w]
TCommit(k, m, w) == [c |-> Com(k, m, w), m |-> m, w |-> w]

\* injective abstractions
HCom(k, m, w) == <<k, m, w>>          \* hashcom: BLAKE2b keyed with k over m || w, w of fixed size
HOpens(k, c, m, w) == c = HCom(k, m, w)
KeyOf(scheme, stream) == <<scheme, stream>>   \* ExtractCommitmentKey: the transcript output it is hashed from

--------------------------------------------------------------------------------
(* indcpacom over ElGamal (pkg/encryption/elgamal) in the same group: public key h = g^a, the   *)
(* message is a group element (log mu), the witness the nonce r: c = <<r, mu + a*r>>.           *)
ECom(a, mu, r) == <<r, Add(mu, Mul(a, r))>>
EOpens(a, c, mu, r) == c = ECom(a, mu, r)
EAdd(x, y) == <<Add(x[1], y[1]), Add(x[2], y[2])>>
ETOp(a, x, y) == [c |-> EAdd(x.c, y.c), m |-> Add(x.m, y.m), w |-> Add(x.w, y.w)]
RECURSIVE ETOpN(_, _, _)
ETOpN(a, x, ys) == IF Len(ys) = 0 THEN x ELSE ETOpN(a, ETOp(a, x, Head(ys)), Tail(ys))
ETInv(a, x) == [c |-> <<Neg(x.c[1]), Neg(x.c[2])>>, m |-> Neg(x.m), w |-> Neg(x.w)]
ETScal(a, x, s) == [c |-> <<Mul(s, x.c[1]), Mul(s, x.c[2])>>, m |-> Mul(s, x.m), w |-> Mul(s, x.w)]
ETReRand(a, x, r) == [c |-> EAdd(x.c, <<r, Mul(a, r)>>), m |-> x.m, w |-> Add(x.w, r)]
ETShift(a, x, d) == [c |-> EAdd(x.c, <<0, d>>), m |-> Add(x.m, d), w |-> x.w]
ETCommit(a, mu, r) == [c |-> ECom(a, mu, r), m |-> mu, w |-> r]
================================================================================

CONSTANTS
  Q = 7
  MaxSteps = 2
  Lams <- AllLams
  Bases <- ThreeBases
  Export = TRUE
INIT Init
NEXT Next
INVARIANTS TrapdoorOK AllOpen TrapdoorPathAgrees Binding SingleChange EquivExported HashBinding ExportOK
CHECK_DEADLOCK FALSE

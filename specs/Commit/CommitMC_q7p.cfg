CONSTANTS
  Q = 7
  MaxSteps = 2
  Lams <- TwoLams
  Bases <- Base12
  Export = FALSE
INIT Init
NEXT Next
INVARIANTS TrapdoorOK AllOpen TrapdoorPathAgrees Binding SingleChange EquivExported HashBinding ElGamalBinding ExportOK
CHECK_DEADLOCK FALSE

-------------------------------- MODULE Commit --------------------------------
(* Commitment schemes of pkg/commitments as abstract data types.                      *)
(*                                                                                    *)
(* Pedersen (pedersencom) exactly, in a prime-order group of order Q written by       *)
(* discrete logarithms: a key is a pair of generators <<g, h>> (g # 0, h # 0, g # h), *)
(* a trapdoor key knows lam with h = lam * g (lam \notin {0, 1});                     *)
(*     Com(k, m, w) = g*m + h*w        Opens(k, c, m, w) <=> c = Com(k, m, w)         *)
(* and every operation of commitments.Homomorphic is a one-liner below.               *)
(* The state machine runs programmes: Commit, CommitmentOp / MessageOp / WitnessOp    *)
(* (together: Op), OpInv, ScalarOp, ReRandomise, Shift, Equivocate.  Each slot keeps  *)
(* the commitment and the opening the API promises for it.                            *)
(*                                                                                    *)
(* Checked on every reachable slot, for all values of the field:                      *)
(*   AllOpen        the promised opening opens (homomorphism laws, equivocation)      *)
(*   Binding        (m2, w2) opens  <=>  w2 = w + lam^-1 (m - m2): for m2 = m only    *)
(*                  w2 = w; for every other message exactly the Equivocate witness    *)
(*   SingleChange   changing m, w or c alone never opens; changing h alone opens iff  *)
(*                  w = 0, changing g alone iff m = 0 (the 1/Q events, kept as exact  *)
(*                  guards)                                                           *)
(*   EquivExported  the equivocated opening verifies under the exported public key    *)
(*                                                                                    *)
(*   ElGamalBinding the encryption-based commitment (indcpacom over ElGamal, exact in  *)
(*                  the same group) opens to exactly one (message, nonce)             *)
(* Hash commitment (hashcom) and the key derivation from a transcript are injective   *)
(* functions of their arguments: HCom / KeyOf in CommitDefs; for those "opens iff     *)
(* nothing changed" is immediate and the content is in the trace specification        *)
(* (CommitTrace), which decides real runs with these definitions.                     *)
EXTENDS CommitDefs, TLC, Json

CONSTANTS MaxSteps,      \* homomorphic steps of a programme
          Lams,          \* trapdoors explored
          Bases,         \* openings <<m, w>> of the second base commitment
          Export         \* print programmes as JSON

--------------------------------------------------------------------------------
--------------------------------------------------------------------------------
VARIABLES g, lam,      \* the trapdoor key
          slots,       \* sequence of [c, m, w]: commitment and the promised opening
          prog         \* the programme (exported and replayed)
vars == <<g, lam, slots, prog>>
Pub == PubOf(g, lam)

Init == /\ g = 1                       \* the library commits over the group's generator
        /\ lam \in Lams
        /\ \E m, w \in F : \E b \in Bases :
             /\ slots = <<TCommit(Pub, m, w), TCommit(Pub, b[1], b[2])>>
             /\ prog = [lam |-> lam, base |-> <<<<m, w>>, b>>, steps |-> <<>>]

Step(op, i, j, s, t) == /\ slots' = Append(slots, t)
                        /\ prog' = [prog EXCEPT !.steps = Append(@, [op |-> op, i |-> i, j |-> j, s |-> s])]
                        /\ UNCHANGED <<g, lam>>
StepN(i, js, t) == /\ slots' = Append(slots, t)
                   /\ prog' = [prog EXCEPT !.steps = Append(@, [op |-> "opn", i |-> i, j |-> 0, s |-> 0, js |-> js])]
                   /\ UNCHANGED <<g, lam>>
Last == Len(slots)
\* operand lists of the variadic call: every pair of earlier slots, and two longer lists
OpnLists == {<<j1, j2>> : j1, j2 \in 1..Len(slots)} \cup {<<1, 2, Len(slots)>>, <<Len(slots), 1, 1, 2>>}
\* programmes extend the last slot (combined with any earlier one)
Next == /\ Len(prog.steps) < MaxSteps
        /\ \/ \E j \in 1..Last : Step("op", Last, j, 0, TOp(Pub, slots[Last], slots[j]))
           \/ \E js \in OpnLists : StepN(Last, js, TOpN(Pub, slots[Last], [k \in 1..Len(js) |-> slots[js[k]]]))
           \/ Step("inv", Last, 0, 0, TInv(Pub, slots[Last]))
           \/ \E s \in F : Step("scal", Last, 0, s, TScal(Pub, slots[Last], s))
           \/ \E r \in F : Step("rerand", Last, 0, r, TReRand(Pub, slots[Last], r))
           \/ \E d \in F : Step("shift", Last, 0, d, TShift(Pub, slots[Last], d))
           \/ \E m2 \in F : Step("equiv", Last, 0, m2,
                  [c |-> slots[Last].c, m |-> m2, w |-> EquivW(lam, slots[Last].m, slots[Last].w, m2)])
Spec == Init /\ [][Next]_vars

--------------------------------------------------------------------------------
TrapdoorOK == ValidTrapdoor(g, lam) /\ ValidKey(Pub)
AllOpen == \A i \in 1..Len(slots) : Opens(Pub, slots[i].c, slots[i].m, slots[i].w)
TrapdoorPathAgrees == \A i \in 1..Len(slots) : ComTrapdoor(g, lam, slots[i].m, slots[i].w) = slots[i].c
Binding == \A i \in 1..Len(slots) : \A m2, w2 \in F :
             Opens(Pub, slots[i].c, m2, w2) <=> w2 = EquivW(lam, slots[i].m, slots[i].w, m2)
SingleChange == \A i \in 1..Len(slots) : LET t == slots[i] IN \A d \in F \ {0} :
                  /\ ~Opens(Pub, t.c, Add(t.m, d), t.w)
                  /\ ~Opens(Pub, t.c, t.m, Add(t.w, d))
                  /\ ~Opens(Pub, Add(t.c, d), t.m, t.w)
                  /\ Opens([g |-> Pub.g, h |-> Add(Pub.h, d)], t.c, t.m, t.w) <=> t.w = 0
                  /\ Opens([g |-> Add(Pub.g, d), h |-> Pub.h], t.c, t.m, t.w) <=> t.m = 0
EquivExported == \A i \in 1..Len(slots) : \A m2 \in F :
                  Opens(Pub, slots[i].c, m2, EquivW(lam, slots[i].m, slots[i].w, m2))
\* the injective schemes: an opening verifies iff no component changed
HashBinding == \A k1, k2 \in 0..1, m1, m2 \in 0..1, w1, w2 \in 0..1 :
                  HOpens(k2, HCom(k1, m1, w1), m2, w2) <=> <<k1, m1, w1>> = <<k2, m2, w2>>

\* the encryption-based commitment is perfectly binding: with the key a = lam and any ciphertext <<r, mu + a*r>>
\* no other (message, nonce) opens it; changing the key alone opens iff r = 0 (guard, 1/Q)
ElGamalBinding == \A i \in 1..Len(slots) : LET c == ECom(lam, slots[i].m, slots[i].w) IN
                    /\ \A m2, r2 \in F : EOpens(lam, c, m2, r2) <=> (m2 = slots[i].m /\ r2 = slots[i].w)
                    /\ \A d \in F \ {0} : Add(lam, d) # 0 => (EOpens(Add(lam, d), c, slots[i].m, slots[i].w) <=> slots[i].w = 0)

\* only maximal programmes are printed: the replay checks every slot, so prefixes are covered
ExportOK == Export /\ Len(prog.steps) = MaxSteps => PrintT(ToJson(prog))
================================================================================

CONSTANTS
  Q = 11
  MaxSteps = 1
  Lams <- AllLams
  Bases <- OneBase
  Export = FALSE
INIT Init
NEXT Next
INVARIANTS TrapdoorOK AllOpen TrapdoorPathAgrees Binding SingleChange EquivExported HashBinding ElGamalBinding ExportOK
CHECK_DEADLOCK FALSE

CONSTANTS
  Q = 5
  MaxSteps = 2
  Lams <- TwoLams
  Bases <- Base12
  Export = TRUE
INIT Init
NEXT Next
INVARIANTS TrapdoorOK AllOpen TrapdoorPathAgrees Binding SingleChange EquivExported HashBinding ElGamalBinding ExportOK
CHECK_DEADLOCK FALSE

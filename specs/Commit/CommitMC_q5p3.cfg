CONSTANTS
  Q = 5
  MaxSteps = 3
  Lams <- TwoLams
  Bases <- ThreeBases
  Export = TRUE
INIT Init
NEXT Next
INVARIANTS TrapdoorOK AllOpen TrapdoorPathAgrees Binding SingleChange EquivExported HashBinding ExportOK
CHECK_DEADLOCK FALSE

CONSTANTS
  Q = 5
  MaxSteps = 3
  Lams <- TwoLams
  Bases <- OneBase
  Export = FALSE
INIT Init
NEXT Next
INVARIANTS TrapdoorOK AllOpen TrapdoorPathAgrees Binding SingleChange EquivExported HashBinding ElGamalBinding ExportOK
CHECK_DEADLOCK FALSE

CONSTANTS
  Q = 5
  MaxSteps = 1
  Lams <- AllLams
  Bases <- AllBases
  Export = FALSE
INIT Init
NEXT Next
INVARIANTS TrapdoorOK AllOpen TrapdoorPathAgrees Binding SingleChange EquivExported HashBinding ElGamalBinding ExportOK
CHECK_DEADLOCK FALSE

CONSTANTS
  Q = 3
  MaxSteps = 3
  Lams <- AllLams
  Bases <- Base12
  Export = TRUE
INIT Init
NEXT Next
INVARIANTS TrapdoorOK AllOpen TrapdoorPathAgrees Binding SingleChange EquivExported HashBinding ElGamalBinding ExportOK
CHECK_DEADLOCK FALSE

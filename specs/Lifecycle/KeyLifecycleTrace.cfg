CONSTANT Q <- TQ
CONSTANT SpansOp <- SpansByCert
SPECIFICATION TraceSpec
INVARIANTS PkConstant SharesVerify ZeroSharingsAreZero BlindedSumIsSecret
CHECK_DEADLOCK FALSE

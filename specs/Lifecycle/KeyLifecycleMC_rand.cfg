CONSTANTS
  Q = 5
  Parties = {1, 2, 3}
  RSub = {0, 3}
  MaxOps = 2
  SpansOp <- SpansByRank
  Pols <- TinyPols
SPECIFICATION MCSpec
INVARIANTS PkConstant SharesVerify ZeroSharingsAreZero BlindedSumIsSecret QualifiedReconstruct SignAlgebra
CHECK_DEADLOCK FALSE

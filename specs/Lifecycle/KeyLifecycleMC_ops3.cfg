CONSTANTS
  Q = 5
  Parties = {1, 2, 3}
  RSub = {2}
  MaxOps = 3
  SpansOp <- SpansByRank
  Pols <- SmallPols
SPECIFICATION MCSpec
INVARIANTS PkConstant SharesVerify ZeroSharingsAreZero BlindedSumIsSecret QualifiedReconstruct SignAlgebra
CHECK_DEADLOCK FALSE

------------------------- MODULE KeyLifecycleTrace -------------------------
(* Validates traces of harness/cmd/lifecycle (real trusted dealing, session    *)
(* setup + HJKY + redistribute participants on the toy group, real Feldman      *)
(* reconstruction) against KeyLifecycle: each logged round is the corresponding *)
(* spec action with every parameter bound to what the messages revealed, the    *)
(* resulting epoch must equal the shards the parties output, and the            *)
(* KeyLifecycle invariants are checked after every step.                        *)
EXTENDS KeyLifecycle, Json, TLC

Trace == ndJsonDeserialize("trace.ndjson")
TQ == Trace[1].q
VARIABLE l
tvars == <<ep, prevEp, pend, x0, l>>

K(i) == ToString(i)
IsEv(a) == l <= Len(Trace) /\ Trace[l].a = a /\ l' = l + 1
Ev == Trace[l]

\* ---- span certificates (computed by the harness, CHECKED here) ----
\*   spans:     w * M_S = e0        not spans:  M_S * w = 0 with w[1] = 1  (e0 is outside the row space iff such w exists)
CertOK(M, lab, c) ==
  LET rs == RowsOfSet(lab, SeqToSet(c.set))
      A == SubRows(M, rs)
  IN IF c.spans THEN Len(c.w) = Len(rs) /\ Len(rs) > 0 /\ VecMat(c.w, A) = E0(NCols(M))
     ELSE Len(c.w) = NCols(M) /\ c.w[1] = 1 /\ \A k \in 1..Len(rs) : Dot(A[k], c.w) = 0
\* any certificate of the current line for the set S that checks against (M, lab) decides; a valid "spans" and a valid
\* "not spans" certificate cannot both exist for the same rows
SpansByCert(M, lab, S) ==
  LET cs == {k \in 1..Len(Trace[l].certs) : SeqToSet(Trace[l].certs[k].set) = S /\ CertOK(M, lab, Trace[l].certs[k])}
  IN IF cs # {} THEN Trace[l].certs[CHOOSE k \in cs : TRUE].spans
     ELSE Assert(FALSE, <<"missing or invalid span certificate (harness bug)", l, S>>)

\* ---- projections of logged shards ----
ShardIds(e) == {e[k].id : k \in {k \in DOMAIN e : ~e[k].nil}}
AnyShard(e) == e[K(CHOOSE i \in ShardIds(e) : TRUE)]
\* all parties report the same public data, and each party's share matches the epoch
ShardsMatch(e, E) ==
  /\ \A k \in DOMAIN e : ~e[k].nil
  /\ ShardIds(e) = Holders(E.lab)
  /\ \A i \in ShardIds(e) :
       LET s == e[K(i)] IN
       /\ ~s.nil /\ s.id = i
       /\ s.M = E.M /\ s.lab = E.lab /\ s.vv = E.r /\ s.pk = E.r[1]
       /\ s.share = E.sh[i]
       /\ \A h \in Holders(E.lab) : s.pkShares[K(h)] = E.sh[h]        \* public shares = g^(share), compared as logs

TraceReset == IsEv("reset") /\ ep' = NoEpoch /\ prevEp' = NoEpoch /\ pend' = NoPend /\ x0' = 0

TraceDeal ==
  /\ IsEv("deal")
  /\ LET s == AnyShard(Ev.shards) IN
       /\ MSPRealises(s.M, s.lab, Ev.pol)
       /\ Deal(Ev.pol, s.M, s.lab, s.vv)
  /\ ShardsMatch(Ev.shards, ep')

\* distributed key generation: the dealing columns are the broadcast Feldman vectors; shares on the wire and (Gennaro) the
\* Pedersen vectors must be consistent with them; all parties end with the same key material = the sum of the dealings
TraceDKG ==
  /\ IsEv("dkg")
  /\ Ev.ok                                  \* an honest DKG terminates
  /\ LET s == AnyShard(Ev.shards)
         H == Holders(s.lab)
         c == [i \in H |-> Ev.cols[K(i)]]
     IN /\ MSPRealises(s.M, s.lab, Ev.pol)
        /\ DKG(Ev.pol, s.M, s.lab, c)
        /\ \A i \in H : \A j \in H \ {i} : Ev.sub[K(i)][K(j)] = ShareOf(s.M, s.lab, c[i], j)
        /\ Ev.proto = "gennaro" =>
              \A i \in H : \A j \in H \ {i} :
                 LET rs == RowsOf(s.lab, j) IN
                 /\ Len(Ev.blind[K(i)][K(j)]) = Len(rs)
                 /\ \A a \in 1..Len(rs) :     \* M_row . pvv_i = s + eta t   (Pedersen verification, in the exponent)
                      Dot(s.M[rs[a]], Ev.pvv[K(i)]) = Add(Ev.sub[K(i)][K(j)][a], Mul(Ev.eta, Ev.blind[K(i)][K(j)][a]))
  /\ ShardsMatch(Ev.shards, ep')

\* the same key generations through the networked runner API: only the outputs are visible; they must be one consistent key
\* 2/q guard (toy groups only): Gennaro hashes the second Pedersen generator out of the session transcript and its
\* constructor refuses h = g and h = identity.  On the small toy groups this happens; on q > 251 it must not.
DegenerateH == Ev.degenH /\ TQ <= 251
TraceDKGRun ==
  /\ IsEv("dkgRun")
  /\ \/ /\ Ev.ok
        /\ LET s == AnyShard(Ev.shards) IN
             /\ MSPRealises(s.M, s.lab, Ev.pol)
             /\ Deal(Ev.pol, s.M, s.lab, s.vv)
        /\ ShardsMatch(Ev.shards, ep')
     \/ /\ ~Ev.ok /\ Ev.proto = "gennaro" /\ DegenerateH
        /\ UNCHANGED <<ep, prevEp, pend, x0>>

\* stored and reloaded key material is unchanged (same bytes, Equal, and the same projected values)
TraceReload ==
  /\ IsEv("reload")
  /\ Ev.ok /\ Ev.same
  /\ ShardsMatch(Ev.shards, ep)
  /\ UNCHANGED <<ep, prevEp, pend, x0>>

\* a refused dealing must be one the library may refuse: never for a policy with >= 2 holders none of which is
\* qualified alone (one-column programmes are refused by design)
TraceDealRefused ==
  /\ IsEv("dealRefused")
  /\ \/ \E h \in PolicyHolders(Ev.pol) : Qualified(Ev.pol, {h})
     \/ DegenerateH
  /\ UNCHANGED <<ep, prevEp, pend, x0>>

SetOf(s) == {s[i] : i \in 1..Len(s)}
MapOn(S, rec, f) == [i \in S |-> rec[K(i)][f]]

TraceR1 ==
  /\ IsEv("redistR1")
  /\ LET S == SetOf(Ev.prev) IN
       /\ MSPRealises(Ev.MU, Ev.labU, UnanimityOf(S))
       /\ RedistR1(S, Ev.MU, Ev.labU, MapOn(S, Ev.r1, "z"))
       \* every zero share on the wire is the dealer's column applied to the recipient's rows
       /\ \A i \in S : \A j \in S \ {i} : Ev.r1[K(i)].zs[K(j)] = ShareOf(Ev.MU, Ev.labU, Ev.r1[K(i)].z, j)
       /\ SetOf(Ev.parties) = S \cup PolicyHolders(Ev.next)

\* the unqualified-driver and bad-policy refusals leave the state unchanged; a qualified driving set must not be refused
TraceRefused ==
  /\ IsEv("redistRefused")
  /\ Ev.why = "constructor" => ~(SetOf(Ev.prev) \subseteq Holders(ep.lab) /\ Cardinality(SetOf(Ev.prev)) >= 2 /\ Spans(ep.M, ep.lab, SetOf(Ev.prev)))
  /\ UNCHANGED <<ep, prevEp, pend, x0>>

NextOf == Trace[l - 1].next       \* the redistR1 line precedes redistR2
TraceR2 ==
  /\ IsEv("redistR2")
  /\ LET S == pend.S
         npol == Trace[l - 1].next
     IN \E h \in PolicyHolders(npol) :          \* the next structure as some receiving party reports it two lines later
        LET out == Trace[l + 1].out IN
        /\ Trace[l + 1].a = "redistR3"
        /\ \A i \in S :
             LET m == Ev.r2[K(i)] IN
             /\ m.pM = ep.M /\ m.plab = ep.lab /\ m.pvv = ep.r                     \* previous public data
             /\ m.zvv = VecSum(pend.z, S, NCols(pend.MU))                          \* summed zero vector
        /\ Trace[l + 1].ok =>
             LET sh == out[K(h)] IN
             /\ MSPRealises(sh.M, sh.lab, npol)
             /\ RedistR2(npol, sh.M, sh.lab, [i \in S |-> Ev.cS[K(i)]], [i \in S |-> Ev.cU[K(i)]], MapOn(S, Ev.r2, "d"))
             /\ \A i \in S : \A j \in PolicyHolders(npol) \ {i} :
                  Ev.r2[K(i)].sub[K(j)] = ShareOf(sh.M, sh.lab, Ev.r2[K(i)].d, j)   \* sub-shares on the wire
        /\ ~Trace[l + 1].ok => UNCHANGED <<ep, prevEp, pend, x0>>

TraceR3 ==
  /\ IsEv("redistR3")
  /\ Ev.ok            \* an honest redistribution driven by a qualified set terminates
  /\ RedistR3
  /\ ShardsMatch(Ev.out, ep')

\* reconstruction from a chosen set of current shares: succeeds exactly for qualified sets, and returns the secret
TraceReconstruct ==
  /\ IsEv("reconstruct")
  /\ LET S == SetOf(Ev.set) IN
       /\ Ev.isq = Qualified(ep.pol, S)
       /\ Ev.accepts = Spans(ep.M, ep.lab, S)
       /\ Ev.ok = Qualified(ep.pol, S)
       /\ Ev.ok => Ev.v = x0
  /\ UNCHANGED <<ep, prevEp, pend, x0>>

\* shares of mixed epochs (same structure): the value returned is the linear combination the reconstruction
\* vector gives; it equals the secret exactly when the model says so, and verification against the current
\* public data succeeds exactly when every presented share is the current one
TraceMix ==
  /\ IsEv("mix")
  /\ LET S == SetOf(Ev.set)
         sh == [i \in S |-> Ev.shares[K(i)]]
     IN /\ Ev.ok
        /\ \A i \in S : sh[i] = ep.sh[i] \/ sh[i] = prevEp.sh[i]
        /\ \E c \in {Trace[l].set} : TRUE
        /\ Ev.verified = (\A i \in S : sh[i] = ep.sh[i])
        /\ (\A i \in S : sh[i] = ep.sh[i]) => Ev.v = x0
  /\ UNCHANGED <<ep, prevEp, pend, x0>>

\* threshold signing (Lindell22, generic Schnorr variant). 1/q events of the toy group are guards, as the code has them:
\* identity public key (shard refused), an effective partial public key that is the identity (documented ABORT, retry),
\* a zero aggregated response or identity aggregated nonce (signature object refused / fails verification).
SignRun ==
  LET Qm == SetOf(Ev.Q)
      cS == [i \in Qm |-> Ev.cS[K(i)]]
      cU == [i \in Qm |-> Ev.cU[K(i)]]
      z == [i \in Qm |-> Ev.z[K(i)]]
      k == [i \in Qm |-> Ev.k[K(i)]]
      a == [i \in Qm |-> AdditiveKeyShare(Qm, cS, cU, Ev.MU, Ev.labU, z, i)]
      degenerate == \E i \in Qm : a[i] = 0
  IN /\ CoeffOK(ep.M, ep.lab, Qm, cS) /\ CoeffOK(Ev.MU, Ev.labU, Qm, cU)
     /\ \A i \in Qm : K(i) \in DOMAIN Ev.z /\ z[i][1] = 0
     /\ SumOver(a, Qm) = x0
     /\ IF degenerate THEN ~Ev.ok /\ \A r \in SeqToSet(Ev.rejects) : r.abort /\ r.blamed = <<>> /\ ~r.panic /\ ~r.timeout
        ELSE /\ Ev.ok
             /\ \A i \in Qm : k[i] # 0
             /\ LET R == SumOver(k, Qm)
                    e == Ev.e
                    s == [i \in Qm |-> PartialResponse(k[i], e, a[i])]
                    S == SumOver(s, Qm)
                IN /\ \A i \in Qm : Ev.psig[K(i)] = [R |-> k[i], S |-> s[i], E |-> e]
                   /\ Len(Ev.sigs) = Cardinality(Qm) + 1
                   /\ \A n \in 1..Len(Ev.sigs) :
                        LET sg == Ev.sigs[n] IN
                        IF S = 0 \/ R = 0 \/ (sg.agg = "cosigning" /\ \E i \in Qm : s[i] = 0)
                        THEN ~sg.ok
                        ELSE /\ sg.ok /\ sg.R = R /\ sg.S = S /\ sg.E = e
                             /\ SchnorrVerifies(R, S, e, x0)              \* the specification is the independent verifier
                             /\ sg.verifyLib
                             /\ sg.verifyOther = SchnorrVerifies(R, S, sg.eOther, x0)
TraceSign ==
  /\ IsEv("sign")
  /\ ep.live
  /\ LET Qm == SetOf(Ev.Q) IN
       CASE Ev.stage = "tooSmall" -> Cardinality(Qm) < 2
         [] Ev.stage = "shard" -> x0 = 0
         [] Ev.stage = "constructor" -> x0 # 0 /\ Cardinality(Qm) >= 2 /\ ~Spans(ep.M, ep.lab, Qm)
         [] Ev.stage = "run" -> x0 # 0 /\ Cardinality(Qm) >= 2 /\ Spans(ep.M, ep.lab, Qm) /\ SignRun
         [] OTHER -> FALSE
  /\ UNCHANGED <<ep, prevEp, pend, x0>>

TraceHdr == IsEv("hdr") /\ UNCHANGED <<ep, prevEp, pend, x0>>

TraceNext == TraceHdr \/ TraceReset \/ TraceDeal \/ TraceDKG \/ TraceDKGRun \/ TraceReload \/ TraceSign \/ TraceDealRefused \/ TraceR1 \/ TraceRefused \/ TraceR2 \/ TraceR3
             \/ TraceReconstruct \/ TraceMix
TraceInit == Init /\ l = 1
TraceSpec == TraceInit /\ [][TraceNext]_tvars

\* acceptance: every line consumed (checked by the driver script from the number of states) -- Stuck is the
\* invariant whose violation points at the first line no action explains
Stuck == l <= Len(Trace) => ENABLED TraceNext
=============================================================================

--------------------------- MODULE KeyLifecycleMC ---------------------------
(* Bounded exploration of KeyLifecycle on the design alone: threshold          *)
(* (Vandermonde) and unanimity span programmes over Z_Q, every qualified        *)
(* driving set, zero and dealing columns with free coordinates from RSub,       *)
(* histories of at most MaxOps operations.                                      *)
EXTENDS KeyLifecycle

CONSTANTS Parties, RSub, MaxOps, Pols
VARIABLE nops
mcvars == <<ep, prevEp, pend, x0, nops>>

ThresholdPol(t, H) == [kind |-> "threshold", t |-> t, ids |-> SortedSeq(H)]
AllPols == {ThresholdPol(t, H) : t \in 2..Cardinality(Parties), H \in {X \in SUBSET Parties : Cardinality(X) >= 2}} \cup
           {UnanimityOf(H) : H \in {X \in SUBSET Parties : Cardinality(X) >= 2}}
TinyPols == {ThresholdPol(2, {1, 2}), ThresholdPol(2, {1, 2, 3})}
SmallPols == {ThresholdPol(2, {1, 2}), ThresholdPol(2, {1, 2, 3}), ThresholdPol(3, {1, 2, 3}), UnanimityOf({2, 3})}
ValidPol(p) == IF p.kind = "unanimity" THEN TRUE ELSE p.t <= Len(p.ids)

\* the constructions: Vandermonde rows (1, id, id^2, ...) and the additive unanimity programme of the library
MSPOf(p) ==
  LET n == Len(p.ids) IN
  IF p.kind = "threshold"
  THEN [M |-> [k \in 1..n |-> VandermondeRow(p.ids[k], p.t)], lab |-> p.ids]
  ELSE [M |-> [k \in 1..n |-> IF k < n THEN Unit(n, k + 1)
                               ELSE [j \in 1..n |-> IF j = 1 THEN 1 ELSE Q - 1]], lab |-> p.ids]

Cols(n, first) == {c \in [1..n -> F] : c[1] = first /\ \A k \in 2..n : c[k] \in RSub}
CoeffsFor(M, lab, S) ==
  LET rs == RowsOfSet(lab, S)
      c == CHOOSE c \in [1..Len(rs) -> F] : VecMat(c, SubRows(M, rs)) = E0(NCols(M))
  IN [i \in S |-> LET own == RowsOf(lab, i) IN
                  [k \in 1..Len(own) |-> c[CHOOSE a \in 1..Len(rs) : rs[a] = own[k]]]]

\* the constructions used by this model are span programmes for their policies (checked once)
ASSUME ConstructionsSound == \A p \in Pols \cup {UnanimityOf(H) : H \in {X \in SUBSET Parties : Cardinality(X) >= 2}} :
                                 MSPRealises(MSPOf(p).M, MSPOf(p).lab, p)

MCInit == Init /\ nops = 0
MCDeal == \E p \in Pols : ValidPol(p) /\ \E x \in F : \E r \in Cols(NCols(MSPOf(p).M), x) :
            Deal(p, MSPOf(p).M, MSPOf(p).lab, r) /\ nops' = nops + 1
MCDKG == \E p \in Pols : ValidPol(p) /\ LET m == MSPOf(p) IN
            \E c \in [Holders(m.lab) -> UNION {Cols(NCols(m.M), x) : x \in {1, 3}}] :
              DKG(p, m.M, m.lab, c) /\ nops' = nops + 1
MCR1 == \E S \in SUBSET Holders(ep.lab) : S # {} /\ Cardinality(S) >= 2 /\ Spans(ep.M, ep.lab, S) /\
          LET u == MSPOf(UnanimityOf(S)) IN
          \E z \in [S -> Cols(NCols(u.M), 0)] : RedistR1(S, u.M, u.lab, z) /\ nops' = nops + 1
MCR2 == \E p \in Pols : ValidPol(p) /\
          LET m == MSPOf(p)
              cS == CoeffsFor(ep.M, ep.lab, pend.S)
              cU == CoeffsFor(pend.MU, pend.labU, pend.S)
          IN \E rest \in [pend.S -> Cols(NCols(m.M), 0)] :
               LET d == [i \in pend.S |-> [rest[i] EXCEPT ![1] = Add(Dot(cS[i], ep.sh[i]), Dot(cU[i], ZeroShareSum(i)))]]
               IN RedistR2(p, m.M, m.lab, cS, cU, d) /\ UNCHANGED nops
MCR3 == RedistR3 /\ UNCHANGED nops
MCNext == \/ (nops < MaxOps /\ ep.live = FALSE /\ MCDeal)
          \/ (nops < MaxOps /\ ep.live = FALSE /\ MCDKG)
          \/ (nops < MaxOps /\ ep.live /\ pend.stage = 0 /\ MCR1)
          \/ (pend.stage = 1 /\ MCR2)
          \/ (pend.stage = 2 /\ MCR3)
MCSpec == MCInit /\ [][MCNext]_mcvars

\* mixed epochs: shares of a qualified set where some holders still use the previous epoch's share
\* (same structure) reconstruct to x0 + (a combination of the refresh columns), which is x0 only by accident:
\* the exact value is what the implementation must return, so it is compared, never assumed different
MixedValue(S, old) ==      \* old \subseteq S uses prevEp shares
  LET c == CoeffsFor(ep.M, ep.lab, S)
      sh == [i \in S |-> IF i \in old THEN prevEp.sh[i] ELSE ep.sh[i]]
  IN ReconstructsTo(ep.M, ep.lab, sh, S, c)
\* signing algebra: for every qualified quorum (of size >= 2), every challenge, nonces from RSub and zero columns from Cols,
\* the aggregated signature of honest partial responses verifies under the group public key
SignAlgebra ==
  ep.live => \A Qm \in SUBSET Holders(ep.lab) : (Cardinality(Qm) >= 2 /\ Spans(ep.M, ep.lab, Qm)) =>
    LET u == MSPOf(UnanimityOf(Qm))
        cS == CoeffsFor(ep.M, ep.lab, Qm)
        cU == CoeffsFor(u.M, u.lab, Qm)
    IN \A e \in F : \A z \in [Qm -> Cols(NCols(u.M), 0)] :
         LET a == [i \in Qm |-> AdditiveKeyShare(Qm, cS, cU, u.M, u.lab, z, i)]
             k == [i \in Qm |-> (i + 1) % Q]
             s == [i \in Qm |-> PartialResponse(k[i], e, a[i])]
         IN /\ SumOver(a, Qm) = x0
            /\ SchnorrVerifies(SumOver(k, Qm), SumOver(s, Qm), e, x0)
QualifiedReconstruct ==
  ep.live => \A S \in SUBSET Holders(ep.lab) : (S # {} /\ Spans(ep.M, ep.lab, S)) =>
                ReconstructsTo(ep.M, ep.lab, ep.sh, S, CoeffsFor(ep.M, ep.lab, S)) = x0
=============================================================================

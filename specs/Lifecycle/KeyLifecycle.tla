---------------------------- MODULE KeyLifecycle ----------------------------
(* Life cycle of a threshold key over Z_Q, in the exponent of a prime-order   *)
(* group: a key epoch is an MSP (matrix M, row labels lab), a dealing column   *)
(* r (the verification vector is g^r, so r[1] is the secret and g^r[1] the     *)
(* public key) and the holders' shares M_h * r.  Dealing, and redistribution   *)
(* in the three rounds of pkg/mpc/redistribute (refresh and recovery are its   *)
(* special cases): previous holders S (a qualified set)                        *)
(*   R1  each i in S deals a sharing of zero z_i under the unanimity MSP of S  *)
(*   R2  each i converts its share to additive form over S (coefficients cS),  *)
(*       adds the additive form of its summed zero share (cU) and deals that   *)
(*       value with a fresh column d_i under the next structure                *)
(*   R3  next holders sum the sub-shares; the new column is the sum of the d_i *)
(* The parameters are exactly what the implementation's messages reveal, so    *)
(* the trace specification binds every one of them.                            *)
EXTENDS MSPQ, Policy

\* the span test "e0 is in the row space of the rows owned by S" is a parameter: SpansByRank (definition via
\* ranks, used by the model checker) or a certificate check (trace validation; see KeyLifecycleTrace)
CONSTANT SpansOp(_, _, _)

VARIABLES ep, prevEp, pend, x0
vars == <<ep, prevEp, pend, x0>>

NoEpoch == [live |-> FALSE]
NoPend == [stage |-> 0]

SpansByRank(M, lab, S) == LET rs == RowsOfSet(lab, S) IN Len(rs) > 0 /\ SolvableLeft(SubRows(M, rs), E0(NCols(M)))
Spans(M, lab, S) == SpansOp(M, lab, S)
\* the span programme accepts exactly the qualified sets; for an unqualified set e0 is outside the
\* row space, which for a linear scheme is equivalent to its shares being consistent with every secret
MSPRealises(M, lab, pol) ==
  /\ WellFormed(M) /\ Len(lab) = NRows(M) /\ NCols(M) >= 1
  /\ Holders(lab) = PolicyHolders(pol)
  /\ \A S \in SUBSET Holders(lab) : S # {} => (Spans(M, lab, S) <=> Qualified(pol, S))

\* coefficients c (holder -> one coefficient per own row) reconstruct over S: sum_i c_i . M_i = e0
CoeffOK(M, lab, S, c) ==
  /\ \A i \in S : Len(c[i]) = Len(RowsOf(lab, i))
  /\ VecSum([i \in S |-> VecMat(c[i], SubRows(M, RowsOf(lab, i)))], S, NCols(M)) = E0(NCols(M))
UnanimityOf(S) == [kind |-> "unanimity", ids |-> SortedSeq(S)]

Init == ep = NoEpoch /\ prevEp = NoEpoch /\ pend = NoPend /\ x0 = 0

Deal(pol, M, lab, r) ==
  /\ ~ep.live /\ pend.stage = 0
  /\ IsVec(r, NCols(M))                    \* MSPRealises(M, lab, pol) is asserted by the callers (once per structure)
  /\ ep' = [live |-> TRUE, pol |-> pol, M |-> M, lab |-> lab, r |-> r, sh |-> SharesOf(M, lab, r)]
  /\ x0' = r[1]
  /\ UNCHANGED <<prevEp, pend>>

\* distributed key generation (Gennaro, Canetti): every holder i deals a column c[i]; the key column is the sum
DKG(pol, M, lab, c) ==
  /\ ~ep.live /\ pend.stage = 0
  /\ \A i \in Holders(lab) : IsVec(c[i], NCols(M))
  /\ LET r == VecSum(c, Holders(lab), NCols(M)) IN
       /\ ep' = [live |-> TRUE, pol |-> pol, M |-> M, lab |-> lab, r |-> r, sh |-> SharesOf(M, lab, r)]
       /\ x0' = r[1]
  /\ UNCHANGED <<prevEp, pend>>

RedistR1(S, MU, labU, z) ==
  /\ ep.live /\ pend.stage = 0
  /\ S \subseteq Holders(ep.lab) /\ Spans(ep.M, ep.lab, S)        \* only a qualified set can drive
  /\ \A i \in S : IsVec(z[i], NCols(MU)) /\ z[i][1] = 0           \* sharings of zero
  /\ pend' = [stage |-> 1, S |-> S, MU |-> MU, labU |-> labU, z |-> z]
  /\ UNCHANGED <<ep, prevEp, x0>>

ZeroShareSum(i) == VecSum([j \in pend.S |-> ShareOf(pend.MU, pend.labU, pend.z[j], i)], pend.S, Len(RowsOf(pend.labU, i)))

RedistR2(npol, NM, nlab, cS, cU, d) ==
  /\ pend.stage = 1
  /\ CoeffOK(ep.M, ep.lab, pend.S, cS) /\ CoeffOK(pend.MU, pend.labU, pend.S, cU)
  /\ \A i \in pend.S : /\ IsVec(d[i], NCols(NM))
                        /\ d[i][1] = Add(Dot(cS[i], ep.sh[i]), Dot(cU[i], ZeroShareSum(i)))
  /\ pend' = [pend EXCEPT !.stage = 2] @@ [npol |-> npol, NM |-> NM, nlab |-> nlab, d |-> d]
  /\ UNCHANGED <<ep, prevEp, x0>>

NewColumn == VecSum(pend.d, pend.S, NCols(pend.NM))
RedistR3 ==
  /\ pend.stage = 2
  /\ ep' = [live |-> TRUE, pol |-> pend.npol, M |-> pend.NM, lab |-> pend.nlab, r |-> NewColumn,
            sh |-> SharesOf(pend.NM, pend.nlab, NewColumn)]
  /\ prevEp' = ep
  /\ pend' = NoPend
  /\ UNCHANGED x0

Abort == pend.stage > 0 /\ pend' = NoPend /\ UNCHANGED <<ep, prevEp, x0>>

\* ---------------- threshold Schnorr signing (Lindell22, response s = k + e x) ----------------
\* additive key share of i over the quorum Qm, blinded by the additive form of its summed zero share
AdditiveKeyShare(Qm, cS, cU, MU, labU, z, i) ==
  Add(Dot(cS[i], ep.sh[i]),
      Dot(cU[i], VecSum([j \in Qm |-> ShareOf(MU, labU, z[j], i)], Qm, Len(RowsOf(labU, i)))))
\* ---------------- properties ----------------
PkConstant == ep.live => ep.r[1] = x0
SharesVerify == ep.live => \A h \in Holders(ep.lab) : ep.sh[h] = ShareOf(ep.M, ep.lab, ep.r, h)
StructureSound == ep.live => MSPRealises(ep.M, ep.lab, ep.pol)
ZeroSharingsAreZero == pend.stage >= 1 => VecSum(pend.z, pend.S, NCols(pend.MU))[1] = 0
BlindedSumIsSecret == pend.stage = 2 => VecSum(pend.d, pend.S, NCols(pend.NM))[1] = x0
\* any reconstruction vector over a qualified set returns the secret (linearity), none exists for an unqualified set
ReconstructsTo(M, lab, sh, S, c) ==
  LET RECURSIVE Go(_)
      Go(T) == IF T = {} THEN 0 ELSE LET i == CHOOSE i \in T : TRUE IN Add(Dot(c[i], sh[i]), Go(T \ {i}))
  IN Go(S)
=============================================================================

CONSTANTS
  Alphabet <- AlphaLens
  MaxLen = 2
  MaxMsgs = 1
  MaxOps = 2
  MaxHandles = 1
  OutLens <- Out16
  LenW = 8
  Export = TRUE
INIT Init
NEXT Next
INVARIANTS AbsIsEnc Injective OutputsSeparate EarlierExtractionMatters NoExtension ClonesAgreeIffSameHistory ExportOK ExportClones 
PROPERTY CloneIndep
CHECK_DEADLOCK FALSE

INIT Init
NEXT Next
INVARIANTS CaseOK LocalOK
CHECK_DEADLOCK FALSE

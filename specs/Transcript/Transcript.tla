------------------------------ MODULE Transcript ------------------------------
(* The hagrid transcript (pkg/transcripts/hagrid/hagrid.go) as a state machine.     *)
(*                                                                                  *)
(* A transcript handle owns a cSHAKE256 sponge.  Every API call absorbs a *frame*:  *)
(*   AppendDomainSeparator(l)   0xa1 . be64(|l|) . l                                *)
(*   AppendBytes(l, m1..mk)     0xa2 . be64(|l|) . l . be64(k) . (be64(|mi|) . mi)* *)
(*   ExtractBytes(l, n)         0xa3 . be64(|l|) . l . be64(n) ; then the sponge is *)
(*        forked: the output is read from a copy that absorbs 0xa4 ("extracted"),   *)
(*        the live sponge absorbs 0xa5 ("continued").  n = 0 is an error and        *)
(*        absorbs nothing.                                                          *)
(*   Clone()                    copies the sponge; absorbs nothing.                 *)
(* The helpers of pkg/transcripts/utils.go are compositions:                        *)
(*   Append(l, x1..xk) = AppendBytes(l, x1) ; ... ; AppendBytes(l, xk)              *)
(*   Extract(l, F)     = ExtractBytes(l, ElementSize(F) + 10) followed by F.Hash    *)
(*                                                                                  *)
(* State: for every live handle the history of operations applied to its sponge     *)
(* (`hist`) and the absorbed byte stream (`abs`), built frame by frame exactly as   *)
(* the code does.  The XOF is modelled as an injective function of its input, so an *)
(* output is identified with the stream it was read from (`xin`).                   *)
(*                                                                                  *)
(* Labels and messages range over `Alphabet`, a small set of byte values that       *)
(* deliberately contains framing bytes (tags, 0x00 and the low bytes of lengths).   *)
(* What TLC establishes on every history in scope:                                  *)
(*   AbsIsEnc        the incremental framing equals the declarative Enc(history)    *)
(*   Injective       the only in-scope history that encodes to abs is hist itself   *)
(*                   (all parses of the stream are enumerated by an ambiguous       *)
(*                   parser): Enc is injective, and since the parser works left to  *)
(*                   right frame by frame, the frame code is prefix-free            *)
(*   OutputsSeparate two extractions read from the same stream iff history, label   *)
(*                   and requested length coincide (so an earlier extraction, a     *)
(*                   clone point, a label or a length change every later output)    *)
(*   NoExtension     the stream an output was read from is never a prefix of a live *)
(*                   stream nor of another output's stream (the fork)               *)
(*   CloneIndep      a step changes one handle only; a clone starts equal           *)
(* and it prints the *critical pairs*: distinct in-scope histories whose encodings  *)
(* collide once one framing element (tag, label length, count, message length,      *)
(* output length, continued marker) is dropped.  Those are the behaviours worth      *)
(* replaying on the real code: there the two outputs must differ.                   *)
EXTENDS Integers, Sequences, FiniteSets, TLC, Json

CONSTANTS Alphabet,      \* byte values allowed inside labels and messages
          MaxLen,        \* maximal length of a label / message
          MaxMsgs,       \* maximal number of messages of one AppendBytes
          MaxOps,        \* maximal number of actions of a programme
          MaxHandles,    \* maximal number of live handles (1 = no Clone)
          OutLens,       \* requested output lengths
          LenW,          \* width in bytes of a length field (8 in hagrid.go)
          Export         \* BOOLEAN: print programmes and critical pairs as JSON

DropKinds == {"tag", "lablen", "count", "msglen", "outlen", "cont"}

INSTANCE TranscriptEnc

--------------------------------------------------------------------------------
(* scope *)
Strs == UNION {[1..k -> Alphabet] : k \in 0..MaxLen}
MsgLists == UNION {[1..k -> Strs] : k \in 0..MaxMsgs}
BaseOps == {DS(l) : l \in Strs} \cup {AB(l, ms) : l \in Strs, ms \in MsgLists} \cup {EX(l, n) : l \in Strs, n \in OutLens}
InAlpha(s) == \A i \in 1..Len(s) : s[i] \in Alphabet

(* The ambiguous parser: all <<op, rest>> such that FrameD(op, D) \o rest = s with op in scope,   *)
(* then all histories.  Where a framing element is dropped the parser guesses it.                *)
DecBE(s) == IF LenW = 1 THEN s[1] ELSE s[LenW - 1] * 256 + s[LenW]     \* defined when HighZero(s)
HighZero(s) == \A i \in 1..(LenW - 2) : s[i] = 0
\* candidates <<value, rest>> for a length field at the head of s, the value bounded by mx
LenCands(s, D, kind, mx) ==
  IF kind \in D THEN {<<v, s>> : v \in 0..mx}
  ELSE IF Len(s) >= LenW /\ HighZero(s) /\ DecBE(s) <= mx THEN {<<DecBE(s), Drop(s, LenW)>>} ELSE {}
\* candidates <<string, rest>> for a length-prefixed in-alphabet string
StrCands(s, D, kind) ==
  {<<SubSeq(c[2], 1, c[1]), Drop(c[2], c[1])>> : c \in {c \in LenCands(s, D, kind, MaxLen) :
        c[1] <= Len(c[2]) /\ InAlpha(SubSeq(c[2], 1, c[1]))}}
RECURSIVE MsgCands(_, _, _)
MsgCands(s, D, k) ==   \* <<msgs, rest>> for k messages
  IF k = 0 THEN {<<<<>>, s>>}
  ELSE UNION {{<<<<m[1]>> \o t[1], t[2]>> : t \in MsgCands(m[2], D, k - 1)} : m \in StrCands(s, D, "msglen")}
TagCands(s, D) ==      \* <<kind, rest>>
  IF "tag" \in D THEN {<<"ds", s>>, <<"ab", s>>, <<"ex", s>>}
  ELSE IF Len(s) = 0 THEN {}
  ELSE CASE s[1] = DomainTag -> {<<"ds", Tail(s)>>}
         [] s[1] = AppendTag -> {<<"ab", Tail(s)>>}
         [] s[1] = ExtractTag -> {<<"ex", Tail(s)>>}
         [] OTHER -> {}
ContCands(s, D) == IF "cont" \in D THEN {s} ELSE IF Len(s) > 0 /\ s[1] = ContinuedTag THEN {Tail(s)} ELSE {}
ParseBody(kind, l, D) ==   \* l = <<label, rest>>
  CASE kind = "ds" -> {<<DS(l[1]), l[2]>>}
    [] kind = "ab" -> UNION {{<<AB(l[1], ms[1]), ms[2]>> : ms \in MsgCands(c[2], D, c[1])} :
                              c \in LenCands(l[2], D, "count", MaxMsgs)}
    [] kind = "ex" -> UNION {{<<EX(l[1], c[1]), r>> : r \in ContCands(c[2], D)} :
                              c \in {c \in LenCands(l[2], D, "outlen", 255) : c[1] \in OutLens}}
ParseOne(s, D) ==
  UNION {UNION {ParseBody(t[1], l, D) : l \in StrCands(t[2], D, "lablen")} : t \in TagCands(s, D)}
RECURSIVE Parses(_, _, _)
Parses(s, D, k) ==
  IF s = <<>> THEN {<<>>}
  ELSE IF k = 0 THEN {}
  ELSE UNION {{<<p[1]>> \o t : t \in Parses(p[2], D, k - 1)} : p \in ParseOne(s, D)}

--------------------------------------------------------------------------------
(* the state machine *)
VARIABLES nh,      \* number of live handles 1..nh
          hist,    \* hist[h]: operations applied to the sponge of handle h (inherited ones included)
          abs,     \* abs[h]: absorbed stream, built incrementally
          outs,    \* set of extraction records
          prog     \* the programme executed so far (exported)
vars == <<nh, hist, abs, outs, prog>>

Handles == 1..MaxHandles
Act(o, h) == [op |-> o.op, h |-> h, label |-> o.label, msgs |-> o.msgs, n |-> o.n]

Init == /\ nh = 1
        /\ hist = [h \in Handles |-> <<>>]
        /\ abs = [h \in Handles |-> <<>>]
        /\ outs = {}
        /\ prog = <<>>

Absorb(h, o) == /\ hist' = [hist EXCEPT ![h] = Append(@, o)]
                /\ abs' = [abs EXCEPT ![h] = @ \o Frame(o)]
                /\ prog' = Append(prog, Act(o, h))
                /\ nh' = nh

AppendDomainSeparator(h, l) == Absorb(h, DS(l)) /\ UNCHANGED outs
AppendBytes(h, l, ms) == Absorb(h, AB(l, ms)) /\ UNCHANGED outs
ExtractBytes(h, l, n) ==
  /\ Absorb(h, EX(l, n))
  /\ outs' = outs \cup {[h |-> h, at |-> Len(prog) + 1, before |-> hist[h], label |-> l, n |-> n,
                         xin |-> XofIn(abs[h], EX(l, n))]}
Clone(h) == /\ nh < MaxHandles
            /\ nh' = nh + 1
            /\ hist' = [hist EXCEPT ![nh + 1] = hist[h]]
            /\ abs' = [abs EXCEPT ![nh + 1] = abs[h]]
            /\ prog' = Append(prog, [op |-> "clone", h |-> h, label |-> <<>>, msgs |-> <<>>, n |-> 0])
            /\ UNCHANGED outs

Next == /\ Len(prog) < MaxOps
        /\ \E h \in 1..nh :
             \/ \E l \in Strs : AppendDomainSeparator(h, l)
             \/ \E l \in Strs, ms \in MsgLists : AppendBytes(h, l, ms)
             \/ \E l \in Strs, n \in OutLens : ExtractBytes(h, l, n)
             \/ Clone(h)
Spec == Init /\ [][Next]_vars

--------------------------------------------------------------------------------
(* properties *)
Live == 1..nh
AbsIsEnc == \A h \in Live : abs[h] = Enc(hist[h])
Injective == \A h \in Live : Parses(abs[h], {}, MaxOps) = {hist[h]}
OutputsSeparate == \A r1, r2 \in outs :
    (r1.xin = r2.xin) <=> (r1.before = r2.before /\ r1.label = r2.label /\ r1.n = r2.n)
EarlierExtractionMatters == \A r1, r2 \in outs : r1.h = r2.h /\ r1.at < r2.at => r1.xin # r2.xin
NoExtension == /\ \A r \in outs : \A h \in Live : ~IsPrefix(r.xin, abs[h])
               /\ \A r1, r2 \in outs : r1.xin # r2.xin => ~IsPrefix(r1.xin, r2.xin)
ClonesAgreeIffSameHistory == \A h1, h2 \in Live : (abs[h1] = abs[h2]) <=> (hist[h1] = hist[h2])
\* a step touches one existing handle at most; a fresh handle starts as a copy
CloneIndep == [][/\ Cardinality({h \in 1..nh : abs'[h] # abs[h]}) <= 1
                 /\ nh' > nh => \E h \in 1..nh : abs'[nh'] = abs[h] /\ hist'[nh'] = hist[h]
                                                /\ \A g \in 1..nh : abs'[g] = abs[g]]_vars

(* critical pairs of the history of handle 1 (evaluated where there is a single handle) *)
Crit(h, k) == Parses(EncD(h, {k}), {k}, MaxOps) \ {h}
\* an extraction's output stream may also collide (outlen dropped => outputs become prefixes of one another)
ExportOK ==
  Export /\ nh = 1 =>
    /\ PrintT(ToJson([prog |-> prog]))
    /\ \A k \in DropKinds : \A g \in Crit(hist[1], k) :
         PrintT(ToJson([cp |-> k, a |-> hist[1], b |-> g]))
ExportClones == Export /\ nh > 1 => PrintT(ToJson([prog |-> prog]))

(* the frame code itself: no frame is a proper prefix of another, no two frames coincide *)
OpCodePrefixFree == \A a, b \in BaseOps : a # b => ~IsPrefix(Frame(a), Frame(b))
================================================================================

---------------------------- MODULE TranscriptMC ----------------------------
(* Model-checking scopes of Transcript (cfg files cannot contain sets of sets). *)
EXTENDS Transcript

\* alphabets: framing bytes on purpose (0x00 length padding, 0x01/0x02 counts and lengths,
\* 0x10/0x20 output lengths, 0xa1..0xa5 tags)
AlphaApp == {162}
AlphaExt == {163}
AlphaZeroApp == {0, 162}
AlphaOneExt == {1, 163}
AlphaTags == {161, 164, 165}
AlphaMixed == {0, 1, 162}
AlphaLens == {0, 16, 163}
AlphaFour == {0, 1, 161, 162}
Out16_32 == {16, 32}
Out16 == {16}
Out1_2 == {1, 2}
=============================================================================

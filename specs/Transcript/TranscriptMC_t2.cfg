CONSTANTS
  Alphabet <- AlphaTags
  MaxLen = 1
  MaxMsgs = 2
  MaxOps = 2
  MaxHandles = 1
  OutLens <- Out16_32
  LenW = 8
  Export = TRUE
INIT Init
NEXT Next
INVARIANTS AbsIsEnc Injective OutputsSeparate EarlierExtractionMatters NoExtension ClonesAgreeIffSameHistory ExportOK ExportClones 
PROPERTY CloneIndep
CHECK_DEADLOCK FALSE

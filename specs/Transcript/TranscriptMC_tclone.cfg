CONSTANTS
  Alphabet <- AlphaZeroApp
  MaxLen = 1
  MaxMsgs = 1
  MaxOps = 3
  MaxHandles = 2
  OutLens <- Out16
  LenW = 8
  Export = TRUE
INIT Init
NEXT Next
INVARIANTS AbsIsEnc Injective OutputsSeparate EarlierExtractionMatters NoExtension ClonesAgreeIffSameHistory ExportOK ExportClones 
PROPERTY CloneIndep
CHECK_DEADLOCK FALSE

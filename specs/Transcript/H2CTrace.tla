------------------------------ MODULE H2CTrace ------------------------------
(* Hash-to-curve / hash-to-field of the production curves, input/output only (the   *)
(* weaker half of C19; the map itself is not modelled).  The driver (mode h2c of     *)
(* harness/cmd/transcript) logs one line per call; tokens: equal bytes <=> equal     *)
(* token per namespace.                                                              *)
(*   hash     HashWithDst(dst, msg) computed twice (out, out2); tf = IsTorsionFree,  *)
(*            killed = order * P = O by an independent double-and-add, id = identity *)
(*   default  Hash(msg) next to HashWithDst(<app tag + suite constant>, msg)         *)
(*   field    ScalarField.Hash(msg) computed twice                                   *)
(*   vector   a shipped RFC 9380 vector: expected and obtained affine coordinates    *)
(*   names    the variant (RO / NU) the suite constant of the curve names, and the   *)
(*            variant of the shipped vectors its HashWithDst reproduces              *)
(*   expand   a shipped expand_message vector                                        *)
(* CaseOK per line; GlobalOK once: an output identifies (suite, dst, msg) one to one *)
(* (so the result depends on the tag and on the message), and the encoding           *)
(* identifies the affine point one to one.                                           *)
EXTENDS Integers, Sequences, FiniteSets, TLC, Json

Trace == ndJsonDeserialize("trace.ndjson")
VARIABLE l

RECURSIVE Cat(_)
Cat(ss) == IF Len(ss) = 0 THEN "" ELSE Head(ss) \o Cat(Tail(ss))

Check(e) ==
  CASE e.a = "hdr" -> TRUE
    [] e.a = "hash" -> ~e.err /\ e.out = e.out2 /\ e.tf /\ e.killed /\ ~e.id
    [] e.a = "default" -> ~e.err /\ e.out = e.outd /\ e.tf /\ e.killed
    [] e.a = "field" -> e.out = e.out2
    [] e.a = "vector" -> ~e.err /\ e.gx = Cat(e.x) /\ e.gy = Cat(e.y)
    [] e.a = "names" -> e.named = e.implements
    [] e.a = "expand" -> e.got = e.want /\ e.gotlen = e.len
    [] OTHER -> FALSE

OneToOne(P) == /\ Cardinality(P) = Cardinality({p[1] : p \in P})
               /\ Cardinality(P) = Cardinality({p[2] : p \in P})
Lines(a) == {i \in 2..Len(Trace) : Trace[i].a = a}
GlobalOK ==
  l = Len(Trace) + 1 =>
    /\ OneToOne({<< <<Trace[i].suite, Trace[i].dst, Trace[i].msg>>, <<Trace[i].suite, Trace[i].out>> >> : i \in Lines("hash")})
    /\ OneToOne({<< <<Trace[i].suite, Trace[i].xy>>, <<Trace[i].suite, Trace[i].out>> >> : i \in Lines("hash")})
    /\ OneToOne({<< <<Trace[i].suite, Trace[i].msg>>, <<Trace[i].suite, Trace[i].out>> >> : i \in Lines("field")})

Init == l = 1
Next == l <= Len(Trace) /\ l' = l + 1
CaseOK == l <= Len(Trace) => Check(Trace[l])
=============================================================================

--------------------------- MODULE TranscriptTrace ---------------------------
(* Validates replays of programmes on real hagrid transcripts (driver               *)
(* harness/cmd/transcript) against Transcript.  One line = one case = a list of      *)
(* runs; a run is a programme executed on a fresh transcript `name`, with, per       *)
(* action, what the real code did:                                                   *)
(*   d / dok   the bytes the handle's sponge absorbed during the call (read from the  *)
(*             sponge state; dok = FALSE when not observable)                        *)
(*   st, st2   token of the handle's (the new clone's) sponge state after the call   *)
(*   out, pre  token of the extracted bytes / of their first 16 bytes, olen, err     *)
(* and per live handle at the end: st, the tokens of a probe extraction made on a    *)
(* clone (probe, ppre), st3 the state after probing.                                 *)
(* Tokens: equal bytes <=> equal token within a namespace.                           *)
(*                                                                                   *)
(* CaseOK (per line): every call absorbed exactly Frame(op) of the specification, an  *)
(* extraction returned the requested number of bytes (0: error, nothing absorbed), a  *)
(* second execution of the programme reproduced every token (`again`).                *)
(* GlobalOK (once, over the file): a state token / output token identifies            *)
(* <<name, stream>> one to one (so: equal histories agree; a critical pair or any two *)
(* different histories give different outputs; clones diverge independently; an       *)
(* earlier extraction, the label, the requested length and the protocol name matter;  *)
(* outputs of different lengths are not prefixes of one another).  LocalOK is the     *)
(* same per line and serves to locate the offending line.                             *)
EXTENDS Integers, Sequences, FiniteSets, TLC, Json

Trace == ndJsonDeserialize("trace.ndjson")

INSTANCE TranscriptEnc WITH LenW <- 8

VARIABLE l
tvars == <<l>>

Hdr == Trace[1]
ProbeOp == EX(Hdr.probe, Hdr.probelen)

IsExtract(a) == a.op \in {"ex", "hext"}
AsOp(a) == Op(a.op, a.label, a.msgs, a.n)

\* abstract state: sequence (by handle) of absorbed streams
Step(s, a) ==
  CASE a.op = "clone" -> Append(s, s[a.h])
    [] IsExtract(a) /\ a.n = 0 -> s
    [] OTHER -> [s EXCEPT ![a.h] = @ \o Frame(AsOp(a))]
RECURSIVE States(_, _)
States(p, i) == IF i = 0 THEN << << <<>> >> >> ELSE LET prev == States(p, i - 1) IN Append(prev, Step(prev[i], p[i]))

\* what one call did, judged on its own: the bytes it absorbed are the frame of the specification
ActOK(a, o) ==
  CASE a.op = "clone" -> o.dok /\ o.d = <<>> /\ ~o.err
    [] IsExtract(a) /\ a.n = 0 -> o.err /\ o.dok /\ o.d = <<>>
    [] OTHER -> /\ ~o.err
                /\ o.dok => o.d = Frame(AsOp(a))
                /\ IsExtract(a) => o.olen = a.n
                /\ a.op = "hext" => a.n = HextLen

\* <<namespace, <<name, stream>>, token>> observations of one run
RunPairs(r) ==
  LET n == Len(r.prog)
      S == States(r.prog, n)
      fin == S[n + 1]
  IN  UNION {
        LET a == r.prog[i]  o == r.obs[i]  before == S[i]  after == S[i + 1] IN
          {<<"s", <<r.name, after[a.h]>>, o.st>>}
          \cup (IF a.op = "clone" THEN {<<"s", <<r.name, after[Len(after)]>>, o.st2>>} ELSE {})
          \cup (IF a.op = "ex" /\ a.n >= 16 THEN {<<"o", <<r.name, XofIn(before[a.h], AsOp(a))>>, o.out>>} ELSE {})
          \cup (IF a.op = "ex" /\ a.n >= 16 THEN {<<"p", <<r.name, XofIn(before[a.h], AsOp(a))>>, o.pre>>} ELSE {})
          \cup (IF a.op = "hext" THEN {<<"x", <<r.name, XofIn(before[a.h], AsOp(a))>>, o.out>>} ELSE {})
        : i \in 1..n}
      \cup UNION {
        {<<"s", <<r.name, fin[h]>>, r.fin[h].st>>, <<"s", <<r.name, fin[h]>>, r.fin[h].st3>>,
         <<"o", <<r.name, XofIn(fin[h], ProbeOp)>>, r.fin[h].probe>>,
         <<"p", <<r.name, XofIn(fin[h], ProbeOp)>>, r.fin[h].ppre>>}
        : h \in 1..Len(fin)}

NClones(p) == Cardinality({i \in 1..Len(p) : p[i].op = "clone"})
\* the tokens of a run, in order (a second execution of the same programme must reproduce them: `again`)
Toks(r) == [i \in 1..Len(r.obs) |-> <<r.obs[i].st, r.obs[i].st2, r.obs[i].out, r.obs[i].pre>>]
           \o [h \in 1..Len(r.fin) |-> <<r.fin[h].st, r.fin[h].st3, r.fin[h].probe, r.fin[h].ppre>>]
RunOK(r) ==
  /\ ~r.finpanic /\ \A i \in 1..Len(r.obs) : ~r.obs[i].panic     \* no call of the transcript API panics
  /\ Len(r.obs) = Len(r.prog)
  /\ Len(r.fin) = 1 + NClones(r.prog)
  /\ \A i \in 1..Len(r.prog) : ActOK(r.prog[i], r.obs[i])
  /\ r.again # <<>> => r.again = Toks(r)

\* tokens <-> <<name, stream>> one to one, by counting: #pairs = #keys = #tokens per namespace
OneToOne(P) ==
  \A ns \in {"s", "o", "p", "x"} :
    LET Q == {p \in P : p[1] = ns} IN
      /\ Cardinality(Q) = Cardinality({p[2] : p \in Q})
      /\ Cardinality(Q) = Cardinality({p[3] : p \in Q})
LinePairs(e) == UNION {RunPairs(e.runs[i]) : i \in 1..Len(e.runs)}

Check(e) ==
  CASE e.a = "hdr" -> TRUE
    [] e.a = "case" -> \A i \in 1..Len(e.runs) : RunOK(e.runs[i])
    [] OTHER -> FALSE

\* over the whole file (evaluated once, after the last line)
AllPairs == UNION {LinePairs(Trace[i]) : i \in 2..Len(Trace)}
GlobalOK == l = Len(Trace) + 1 => OneToOne(AllPairs)
\* the same per line; used to locate the line when GlobalOK fails
LocalOK == l <= Len(Trace) /\ Trace[l].a = "case" => OneToOne(LinePairs(Trace[l]))

Init == l = 1
Next == l <= Len(Trace) /\ l' = l + 1
CaseOK == l <= Len(Trace) => Check(Trace[l])
=============================================================================

----------------------------- MODULE TranscriptEnc -----------------------------
(* The framing of pkg/transcripts/hagrid/hagrid.go: what each operation absorbs.    *)
(* FrameD(o, D) leaves out the framing elements named in D; D = {} is the code.     *)
EXTENDS Integers, Sequences

CONSTANT LenW            \* width in bytes of a length field (8 in hagrid.go)

\* const ( customizedShakeName = ...; domainTag tag = iota + 0xa0; ... ): iota is 1 at domainTag
DomainTag == 161
AppendTag == 162
ExtractTag == 163
ExtractedTag == 164
ContinuedTag == 165
HextLen == 42            \* transcripts.Extract on a 32-byte structure: 32 + ceil(80 / 8) statistical-security bytes

--------------------------------------------------------------------------------
(* byte strings *)
RECURSIVE BE(_, _)
BE(n, w) == IF w = 0 THEN <<>> ELSE Append(BE(n \div 256, w - 1), n % 256)

RECURSIVE ConcatN(_, _)
ConcatN(ss, k) == IF k = 0 THEN <<>> ELSE ConcatN(ss, k - 1) \o ss[k]
Concat(ss) == ConcatN(ss, Len(ss))

IsPrefix(s, t) == Len(s) <= Len(t) /\ SubSeq(t, 1, Len(s)) = s
Drop(s, k) == SubSeq(s, k + 1, Len(s))

--------------------------------------------------------------------------------
(* operations: one record shape for all, unused fields empty *)
Op(o, l, ms, n) == [op |-> o, label |-> l, msgs |-> ms, n |-> n]
DS(l) == Op("ds", l, <<>>, 0)
AB(l, ms) == Op("ab", l, ms, 0)
EX(l, n) == Op("ex", l, <<>>, n)
HApp(l, ms) == Op("happ", l, ms, 0)     \* transcripts.Append
HExt(l) == Op("hext", l, <<>>, HextLen) \* transcripts.Extract

(* framing, with the framing elements in D left out (D = {} is the code) *)
Opt(D, k, s) == IF k \in D THEN <<>> ELSE s
MsgsEnc(ms, D) == Concat([i \in 1..Len(ms) |-> Opt(D, "msglen", BE(Len(ms[i]), LenW)) \o ms[i]])
Head3(tag, o, D) == Opt(D, "tag", <<tag>>) \o Opt(D, "lablen", BE(Len(o.label), LenW)) \o o.label
ExtractFrame(o, D) == Head3(ExtractTag, o, D) \o Opt(D, "outlen", BE(o.n, LenW))
AppendFrame(o, D) == Head3(AppendTag, o, D) \o Opt(D, "count", BE(Len(o.msgs), LenW)) \o MsgsEnc(o.msgs, D)
FrameD(o, D) ==
  CASE o.op = "ds" -> Head3(DomainTag, o, D)
    [] o.op = "ab" -> AppendFrame(o, D)
    [] o.op \in {"ex", "hext"} -> ExtractFrame(o, D) \o Opt(D, "cont", <<ContinuedTag>>)
    [] o.op = "happ" -> Concat([i \in 1..Len(o.msgs) |-> AppendFrame(AB(o.label, <<o.msgs[i]>>), D)])
Frame(o) == FrameD(o, {})
EncD(h, D) == Concat([i \in 1..Len(h) |-> FrameD(h[i], D)])
Enc(h) == EncD(h, {})
\* the stream the output of an extraction is read from, given the stream absorbed before it
XofInD(before, o, D) == before \o ExtractFrame(o, D) \o <<ExtractedTag>>
XofIn(before, o) == XofInD(before, o, {})

================================================================================

CONSTANTS
  Alphabet <- AlphaMixed
  MaxLen = 1
  MaxMsgs = 2
  MaxOps = 2
  MaxHandles = 1
  OutLens <- Out1_2
  LenW = 1
  Export = TRUE
INIT Init
NEXT Next
INVARIANTS AbsIsEnc Injective OutputsSeparate EarlierExtractionMatters NoExtension ClonesAgreeIffSameHistory ExportOK ExportClones 
PROPERTY CloneIndep
CHECK_DEADLOCK FALSE

CONSTANTS
  Alphabet <- AlphaZeroApp
  MaxLen = 2
  MaxMsgs = 1
  MaxOps = 0
  MaxHandles = 1
  OutLens <- Out16_32
  LenW = 8
  Export = FALSE
INIT Init
NEXT Next
INVARIANTS AbsIsEnc Injective OutputsSeparate EarlierExtractionMatters NoExtension ClonesAgreeIffSameHistory ExportOK ExportClones OpCodePrefixFree
PROPERTY CloneIndep
CHECK_DEADLOCK FALSE

CONSTANTS
  Q = 3
  M <- MOkamoto2
  CB = 2
INIT Init
NEXT Next
INVARIANTS OrCompleteness OrCompleteness2 OrChallengeBound OrTamperRejected OrSoundness
CHECK_DEADLOCK FALSE

CONSTANTS
  Q = 5
  M <- MSchnorr
  CB = 3
INIT Init
NEXT Next
INVARIANTS OrCompleteness OrCompleteness2 OrChallengeBound OrTamperRejected OrSoundness
CHECK_DEADLOCK FALSE

CONSTANTS
  Q = 5
  KIND = "maurer"
  M <- MElcomop2
  GAMMA = 1
  K = 1
  CB = 3
INIT Init
NEXT Next
INVARIANTS TypeOK Completeness Completeness2 SpecialSoundness ExtractHonest ExtractWhen SimulatedAccepted 
CHECK_DEADLOCK FALSE

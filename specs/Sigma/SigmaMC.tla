------------------------------ MODULE SigmaMC ------------------------------
(* Model-checking instances of Sigma: named protocol matrices (cfg files      *)
(* cannot contain tuples) and the AND-composition theorem.                    *)
EXTENDS Sigma

MSchnorr == <<<<1>>>>
MOkamoto2 == <<<<1, 2>>>>            \* h = g^2
MOkamoto3 == <<<<1, 3>>>>
MElcomop2 == <<<<0, 1>>, <<1, 2>>>>  \* ElGamal key X = g^2: (m, lam) |-> (lam, m + 2 lam)
MElcomop3 == <<<<0, 1>>, <<1, 3>>>>
MAnd2 == BlockDiag(MSchnorr, MSchnorr)          \* sigand.Compose(schnorr, 2)
MElog == BlockDiag(MElcomop2, <<<<3>>>>)        \* elog = elcomop AND Schnorr with base h = g^3

\* AND-composition (componentwise verification under one challenge) is the Maurer protocol of the product map.
\* Evaluated once, in the initial states with the all-zero witness.
Split(v, n) == <<SubSeq(v, 1, n), SubSeq(v, n + 1, Len(v))>>
AndIsProduct ==
  (ph = "start" /\ hon /\ ~IsBatch /\ \A i \in 1..Len(w) : w[i] = 0) =>
    LET MM == BlockDiag(M, M) IN
    \A xx \in Vecs(2 * NImg) : \A aa \in Vecs(2 * NImg) : \A c \in Chal : \A zz \in Vecs(2 * NPre) :
       LET xs == Split(xx, NImg)  as == Split(aa, NImg)  zs == Split(zz, NPre) IN
       AndAccepts(xs, as, c, zs) <=> MVerifyM(MM, xx, aa, c, zz)
=============================================================================

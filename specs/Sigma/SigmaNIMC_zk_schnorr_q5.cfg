CONSTANTS
  Q = 5
  M <- MSchnorr
  CB = 3
  COMP = "zk"
  RHO = 1
INIT Init
NEXT Next
INVARIANTS NIComplete NIBindCtx NIBindStmt NIBindProof NIAlteredRejected NIExactly
CHECK_DEADLOCK FALSE

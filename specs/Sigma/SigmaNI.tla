------------------------------ MODULE SigmaNI ------------------------------
(* The compilers of pkg/proofs/sigma/compiler applied to the Maurer protocol  *)
(* for phi = M: Fiat-Shamir ("fs", fiatshamir + zkmodule), Fischlin           *)
(* ("fischlin"), randomised Fischlin ("randfischlin") and the interactive     *)
(* zero-knowledge compiler ("zk").                                            *)
(*                                                                            *)
(* Context of a prover / verifier: the session id, the transcript history     *)
(* before the proof, the prover label a caller appended, the protocol name    *)
(* (part of the domain separator together with the session id), the compiler  *)
(* and the statement.  Hashes are symbolic and injective:                     *)
(*   fs            e = H(ctx, x, a); the verifier recomputes H and compares   *)
(*                 it with the challenge in the proof, then checks the sigma  *)
(*                 equation.  An oracle point nobody queried before answers   *)
(*                 with a value that equals nothing in the proof (Fresh).     *)
(*   fischlin      the prover searched, per repetition i, an (e_i, z_i) with  *)
(*                 Hb(H(ctx, x, a_1..a_rho), i, e_i, z_i) = 0; exactly the    *)
(*                 points it found are known to hash to zero.                 *)
(*   randfischlin  the same with the key H(ctx) -- the statement is appended  *)
(*                 to the transcript only after the key was extracted, so it  *)
(*                 is bound by the sigma equation alone (see NIBindStmt).     *)
(*   zk            the verifier commits to e under a key derived from         *)
(*                 (ctx, x); the prover opens it under its own key.           *)
(* Compiled proofs: a sequence of repetitions [a, e, z] (length 1 for fs/zk). *)
EXTENDS SigmaAlg

CONSTANTS M, CB, COMP, RHO
ASSUME COMP \in {"fs", "fischlin", "randfischlin", "zk"} /\ RHO \in Nat \ {0}
\* every pre-image coordinate matters (generators are not the identity)
ASSUME \A j \in 1..NCols(M) : \E i \in 1..NRows(M) : M[i][j] # 0

Chal == 0..(Pow2(CB) - 1)
Phi(v) == PhiM(M, v)
NPre == NCols(M)
NImg == NRows(M)
Reps == IF COMP \in {"fs", "zk"} THEN 1 ELSE RHO
Coords == {"sid", "hist", "label", "name", "comp"}
CtxP == [c \in Coords |-> 0]                       \* the prover's context (tokens; WLOG all 0)
Ctxs == [Coords -> {0, 1}]
Fresh == -1

AVec(p) == [i \in 1..Len(p) |-> p[i].a]
HashKey(ctx, xv, p) == IF COMP = "randfischlin" THEN <<ctx, AVec(p)>> ELSE <<ctx, xv, AVec(p)>>
SigmaOK(xv, p) == \A i \in 1..Len(p) : MVerifyM(M, xv, p[i].a, p[i].e, p[i].z)

VARIABLES ph, w, x, proof, ctxV, xV, pf, alt, res
vars == <<ph, w, x, proof, ctxV, xV, pf, alt, res>>

Init == /\ ph = "start" /\ w \in Vecs(NPre) /\ x = Phi(w)
        /\ proof = <<>> /\ ctxV = CtxP /\ xV = x /\ pf = <<>> /\ alt = "none" /\ res = FALSE

\* Prove: per repetition fresh randomness r_i; the challenge is whatever the oracle answered (fs), the
\* first hit of the search (fischlin variants) or the verifier's committed challenge (zk): any value
Prove(rs, cs) ==
  /\ ph = "start"
  /\ proof' = [i \in 1..Reps |-> [a |-> Phi(rs[i]), e |-> cs[i], z |-> MRespond(rs[i], cs[i], w)]]
  /\ ph' = "proved"
  /\ UNCHANGED <<w, x, ctxV, xV, pf, alt, res>>

\* what a verifier is handed: the proof, or the proof with one alteration
SetLeaf(p, i, f, v) == [p EXCEPT ![i] = [p[i] EXCEPT ![f] = v]]
SetVec(p, i, f, j, v) == [p EXCEPT ![i] = [p[i] EXCEPT ![f] = [p[i][f] EXCEPT ![j] = v]]]
Drop(p, i) == [k \in 1..(Len(p) - 1) |-> IF k < i THEN p[k] ELSE p[k + 1]]
Dup(p, i) == [k \in 1..(Len(p) + 1) |-> IF k <= i THEN p[k] ELSE p[k - 1]]
Swap(p, i, j) == [p EXCEPT ![i] = p[j], ![j] = p[i]]
Alterations(p) ==
  {<<"none", p>>}
  \cup {<<"a", SetVec(p, i, "a", j, v)>> : i \in 1..Len(p), j \in 1..NImg, v \in F}
  \cup {<<"e", SetLeaf(p, i, "e", c)>> : i \in 1..Len(p), c \in Chal}
  \cup {<<"z", SetVec(p, i, "z", j, v)>> : i \in 1..Len(p), j \in 1..NPre, v \in F}
  \cup {<<"drop", Drop(p, i)>> : i \in 1..Len(p)}
  \cup {<<"dup", Dup(p, i)>> : i \in 1..Len(p)}
  \cup {<<"swap", Swap(p, i, j)>> : i \in 1..Len(p), j \in 1..Len(p)}
\* verifier contexts differing from the prover's in at most one coordinate (the statement counts as one)
Presentations == {<<CtxP, x>>} \cup {<<[CtxP EXCEPT ![c] = 1], x>> : c \in Coords}
                               \cup {<<CtxP, xx>> : xx \in Vecs(NImg)}
Present(cv, xv, ap) ==
  /\ ph = "proved"
  /\ ctxV' = cv /\ xV' = xv /\ alt' = ap[1] /\ pf' = ap[2] /\ ph' = "presented"
  /\ UNCHANGED <<w, x, proof, res>>

\* ---- the verifiers ----
OracleFS(ctx, xv, av) == IF <<ctx, xv, av>> = <<CtxP, x, proof[1].a>> THEN proof[1].e ELSE Fresh
AcceptFS == /\ Len(pf) = 1
            /\ pf[1].e = OracleFS(ctxV, xV, pf[1].a)
            /\ SigmaOK(xV, pf)
ZeroPoints == {<<HashKey(CtxP, x, proof), i, proof[i].e, proof[i].z>> : i \in 1..Len(proof)}
AcceptFischlin == /\ Len(pf) = RHO
                  /\ \A i \in 1..RHO : <<HashKey(ctxV, xV, pf), i, pf[i].e, pf[i].z>> \in ZeroPoints
                  /\ SigmaOK(xV, pf)
\* zk: the prover (context CtxP, statement x) opens the verifier's commitment to e only under the same key and
\* only to the committed value; a, z may have been altered in flight
AcceptZK == /\ Len(pf) = 1
            /\ <<ctxV, xV>> = <<CtxP, x>>
            /\ pf[1].e = proof[1].e
            /\ SigmaOK(xV, pf)
Accept == CASE COMP = "fs" -> AcceptFS
            [] COMP = "zk" -> AcceptZK
            [] OTHER -> AcceptFischlin
NIVerify == /\ ph = "presented" /\ res' = Accept /\ ph' = "verified"
            /\ UNCHANGED <<w, x, proof, ctxV, xV, pf, alt>>

Next == \/ \E rs \in [1..Reps -> Vecs(NPre)] : \E cs \in [1..Reps -> Chal] : Prove(rs, cs)
        \/ \E pr \in Presentations : \E ap \in Alterations(proof) : Present(pr[1], pr[2], ap)
        \/ NIVerify
Spec == Init /\ [][Next]_vars

\* ---- properties ----
Done == ph = "verified"
SameCtx == ctxV = CtxP
Untouched == pf = proof
NIComplete == Done /\ SameCtx /\ xV = x /\ Untouched => res
NIBindCtx == Done /\ res => SameCtx
\* randomised Fischlin binds the statement through  phi(z_i) = a_i + e_i x  only: if every e_i is 0 mod Q
\* (probability Q^-rho; the toy-field guard) any statement passes
AllZeroChallenges == \A i \in 1..Len(proof) : Red(proof[i].e) = 0
NIBindStmt == Done /\ res => (xV = x \/ (COMP = "randfischlin" /\ AllZeroChallenges))
\* the proof itself: commitments and challenges are bound by the hash; the response by the hash (Fischlin
\* variants) or up to the kernel of phi by the sigma equation (fs, zk)
NIBindProof == Done /\ res =>
                 /\ Len(pf) = Len(proof)
                 /\ \A i \in 1..Len(pf) : /\ pf[i].a = proof[i].a /\ pf[i].e = proof[i].e
                                          /\ Phi(pf[i].z) = Phi(proof[i].z)
                                          /\ (COMP \in {"fischlin", "randfischlin"} => pf[i].z = proof[i].z)
\* hence every single alteration that changes the proof is rejected
NIAlteredRejected == Done /\ ~Untouched => ~res
\* the property in one line
NIExactly == Done => (res <=> (SameCtx /\ Untouched /\ (xV = x \/ (COMP = "randfischlin" /\ AllZeroChallenges))))
=============================================================================

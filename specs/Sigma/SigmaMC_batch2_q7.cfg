CONSTANTS
  Q = 7
  KIND = "batch"
  M <- MSchnorr
  GAMMA = 3
  K = 2
  CB = 3
INIT Init
NEXT Next
INVARIANTS TypeOK Completeness Completeness2 SpecialSoundness ExtractHonest ExtractWhen SimulatedAccepted 
CHECK_DEADLOCK FALSE

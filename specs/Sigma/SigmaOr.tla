------------------------------ MODULE SigmaOr ------------------------------
(* OR-composition (pkg/proofs/sigma/compose/sigor) of two instances of the    *)
(* Maurer protocol for phi = M, with a witness for exactly one branch b.      *)
(*   commit:   real commitment a_b = phi(r); for the other branch o a random  *)
(*             challenge es and the simulator: a_o = phi(zs) - es x_o         *)
(*   respond:  e_b = e XOR es  (bit strings), z_b = r + e_b w;                *)
(*             the response carries (e_1, e_2, z_1, z_2)                      *)
(*   verify:   e_1 XOR e_2 = e  and both branch transcripts accept            *)
(* hon = FALSE: the response is arbitrary, so that Verify is exercised on     *)
(* every (e_1, e_2, z_1, z_2) -- in particular on sub-challenges that do not  *)
(* combine to the verifier's challenge.                                       *)
EXTENDS SigmaAlg

CONSTANTS M, CB
Chal == 0..(Pow2(CB) - 1)
Phi(v) == PhiM(M, v)
NPre == NCols(M)
NImg == NRows(M)
Acc1(x, a, c, z) == MVerifyM(M, x, a, c, z)
OrAcc(xs, as, c, es, zs) == /\ Xor(es[1], es[2]) = c
                            /\ Acc1(xs[1], as[1], es[1], zs[1])
                            /\ Acc1(xs[2], as[2], es[2], zs[2])

VARIABLES ph, hon, b, w, xs, r, es0, zs0, as, e, res, acc, e2, res2, acc2
vars == <<ph, hon, b, w, xs, r, es0, zs0, as, e, res, acc, e2, res2, acc2>>
None == <<>>
Other(i) == 3 - i
Pair(i, u, v) == IF i = 1 THEN <<u, v>> ELSE <<v, u>>      \* u at position i, v at the other

\* the statement of the other branch is an arbitrary image element: the prover has no witness for it
\* (when it happens to equal phi(w) both branches are true, which the protocol must tolerate too)
Init == /\ ph = "start" /\ hon \in BOOLEAN /\ b \in {1, 2} /\ w \in Vecs(NPre)
        /\ \E xo \in Vecs(NImg) : xs = Pair(b, Phi(w), xo)
        /\ r = None /\ es0 = 0 /\ zs0 = None /\ as = None /\ e = 0 /\ res = None /\ acc = FALSE
        /\ e2 = 0 /\ res2 = None /\ acc2 = FALSE

OrCommit(rv, c, zv) ==
  /\ ph = "start"
  /\ r' = rv /\ es0' = c /\ zs0' = zv
  /\ as' = Pair(b, Phi(rv), MSimulateM(M, xs[Other(b)], c, zv))
  /\ ph' = "committed"
  /\ UNCHANGED <<hon, b, w, xs, e, res, acc, e2, res2, acc2>>
OrChallenge(c) == /\ ph = "committed" /\ e' = c /\ ph' = "challenged"
                  /\ UNCHANGED <<hon, b, w, xs, r, es0, zs0, as, res, acc, e2, res2, acc2>>
HonestResponse(c) == LET eb == Xor(c, es0) IN
                     [es |-> Pair(b, eb, es0), zs |-> Pair(b, MRespond(r, eb, w), zs0)]
OrRespond == /\ ph = "challenged" /\ hon /\ res' = HonestResponse(e) /\ ph' = "responded"
             /\ UNCHANGED <<hon, b, w, xs, r, es0, zs0, as, e, acc, e2, res2, acc2>>
\* a cheating response keeps the simulated branch and chooses the rest freely
AdvOrRespond(c1, z1) ==
             /\ ph = "challenged" /\ ~hon
             /\ res' = [es |-> Pair(b, c1, es0), zs |-> Pair(b, z1, zs0)] /\ ph' = "responded"
             /\ UNCHANGED <<hon, b, w, xs, r, es0, zs0, as, e, acc, e2, res2, acc2>>
\* or replaces the sub-challenge of the simulated branch
AdvOrRespondSim(c2) ==
             /\ ph = "challenged" /\ ~hon
             /\ res' = [HonestResponse(e) EXCEPT !.es[Other(b)] = c2] /\ ph' = "responded"
             /\ UNCHANGED <<hon, b, w, xs, r, es0, zs0, as, e, acc, e2, res2, acc2>>
OrVerify == /\ ph = "responded" /\ acc' = OrAcc(xs, as, e, res.es, res.zs) /\ ph' = "verified"
            /\ UNCHANGED <<hon, b, w, xs, r, es0, zs0, as, e, res, e2, res2, acc2>>
\* rewinding an honest prover: second challenge, same commitments
OrRewind(c) == /\ ph = "verified" /\ hon /\ acc /\ e2' = c /\ res2' = HonestResponse(c)
               /\ acc2' = OrAcc(xs, as, c, HonestResponse(c).es, HonestResponse(c).zs) /\ ph' = "verified2"
               /\ UNCHANGED <<hon, b, w, xs, r, es0, zs0, as, e, res, acc>>

Next == \/ \E rv \in Vecs(NPre) : \E c \in Chal : \E zv \in Vecs(NPre) : OrCommit(rv, c, zv)
        \/ \E c \in Chal : OrChallenge(c) \/ OrRewind(c) \/ AdvOrRespondSim(c)
        \/ OrRespond \/ OrVerify
        \/ \E c \in Chal : \E zv \in Vecs(NPre) : AdvOrRespond(c, zv)
Spec == Init /\ [][Next]_vars

OrCompleteness == ph \in {"verified", "verified2"} /\ hon => acc
OrCompleteness2 == ph = "verified2" => acc2
\* the verifier insists on the XOR relation: an accepted response always combines to the challenge
OrChallengeBound == ph = "verified" /\ acc => Xor(res.es[1], res.es[2]) = e
\* changing only the simulated branch's sub-challenge (1) breaks the relation and (2) must be rejected
OrTamperRejected == ph = "verified" /\ ~hon /\ res.zs = HonestResponse(e).zs /\ res.es[b] = HonestResponse(e).es[b]
                      /\ res.es[Other(b)] # es0 => ~acc
\* special soundness of the composition: two accepting conversations with the same commitments and different
\* challenges differ in the sub-challenge of the true branch only, and that branch yields the witness
OrSoundness == ph = "verified2" /\ e # e2 =>
                  /\ res.es[Other(b)] = res2.es[Other(b)] /\ res.es[b] # res2.es[b]
                  /\ (CanExtract(res.es[b], res2.es[b]) =>
                        MExtract(res.es[b], res.zs[b], res2.es[b], res2.zs[b]) = w)
=============================================================================

CONSTANTS
  Q = 3
  M <- MSchnorr
  CB = 2
  COMP = "zk"
  RHO = 1
INIT Init
NEXT Next
INVARIANTS NIComplete NIBindCtx NIBindStmt NIBindProof NIAlteredRejected NIExactly
CHECK_DEADLOCK FALSE

CONSTANTS
  Q = 3
  M <- MSchnorr
  CB = 2
  COMP = "fischlin"
  RHO = 2
INIT Init
NEXT Next
INVARIANTS NIComplete NIBindCtx NIBindStmt NIBindProof NIAlteredRejected NIExactly
CHECK_DEADLOCK FALSE

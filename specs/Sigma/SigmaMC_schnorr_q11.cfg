CONSTANTS
  Q = 11
  KIND = "maurer"
  M <- MSchnorr
  GAMMA = 1
  K = 1
  CB = 4
INIT Init
NEXT Next
INVARIANTS TypeOK Completeness Completeness2 SpecialSoundness ExtractHonest ExtractWhen SimulatedAccepted 
CHECK_DEADLOCK FALSE

CONSTANTS
  Q = 5
  KIND = "batch"
  M <- MSchnorr
  GAMMA = 1
  K = 3
  CB = 3
INIT Init
NEXT Next
INVARIANTS TypeOK Completeness Completeness2 SpecialSoundness ExtractHonest ExtractWhen SimulatedAccepted 
CHECK_DEADLOCK FALSE

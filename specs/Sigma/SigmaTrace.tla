---------------------------- MODULE SigmaTrace ----------------------------
(* Validates a log of real calls into pkg/proofs (driver harness/cmd/sigma)   *)
(* against SigmaAlg.  Toy-group lines carry every scalar and every group      *)
(* element (as its discrete log) and the raw challenge bytes: the response    *)
(* z = r + e w, the verification equation, extraction and simulation are      *)
(* recomputed here from those integers, the challenge bytes are reduced here  *)
(* (big-endian, mod Q) and the code's accept / reject must match.  Compiled   *)
(* proofs: accepted iff same context and untouched decoded value, through the *)
(* per-compiler acceptance predicate of SigmaNI.  Token lines (production     *)
(* groups, compositions under a compiler) carry interned values only.         *)
EXTENDS Integers, Sequences, FiniteSets, TLC, Json

Trace == ndJsonDeserialize("trace.ndjson")
TQ == Trace[1].q
INSTANCE SigmaAlg WITH Q <- TQ

VARIABLE l
vars == <<l>>

\* ---- challenge bytes ----
RECURSIVE RB(_, _, _)
RB(bs, i, acc) == IF i > Len(bs) THEN acc ELSE RB(bs, i + 1, (acc * 256 + bs[i]) % TQ)
RedBytes(bs) == RB(bs, 1, 0)                    \* num.N().FromBytes / FromWideBytes: big-endian, then mod Q
Prefix(bs, n) == IF Len(bs) < n THEN bs ELSE SubSeq(bs, 1, n)
XorBytes(u, v) == [i \in 1..Len(u) |-> Xor(u[i], v[i])]
RECURSIVE XorAllBytes(_, _)
XorAllBytes(ss, n) == IF n = 1 THEN ss[1] ELSE XorBytes(XorAllBytes(ss, n - 1), ss[n])
RECURSIVE CeilLog2(_)
CeilLog2(n) == IF n <= 1 THEN 0 ELSE 1 + CeilLog2((n + 1) \div 2)
BatchLen(k) == (128 + CeilLog2(k) + 7) \div 8  \* batch_schnorr.NewProtocol: challenge length in bytes

\* ---- one protocol instance P = [kind, M, (gam, K)] ----
IsBatch(P) == P.kind = "batch"
\* acceptance with an already reduced challenge
AccRed(P, x, cm, E, z) ==
  IF IsBatch(P) THEN Len(x) = P.K /\ Len(cm) = 1 /\ Len(z) = 1 /\ BVerifyG(P.gam, x, cm, E, z)
  ELSE MVerifyM(P.M, x, cm, E, z)
\* acceptance with challenge bytes (batch Schnorr insists on its challenge length, Maurer's protocol does not)
AccP(P, x, cm, eb, z) == (IsBatch(P) => Len(eb) = BatchLen(P.K)) /\ AccRed(P, x, cm, RedBytes(eb), z)
StmtOf(P, w) == IF IsBatch(P) THEN VScale(P.gam, w) ELSE PhiM(P.M, w)
CommitOf(P, r) == IF IsBatch(P) THEN BCommitG(P.gam, r) ELSE PhiM(P.M, r)
RespOf(P, r, E, w) == IF IsBatch(P) THEN BRespond(r, E, w) ELSE MRespond(r, E, w)
SimOf(P, x, E, z) == IF IsBatch(P) THEN BSimulateG(P.gam, x, E, z) ELSE MSimulateM(P.M, x, E, z)

\* ---- compiled proofs ----
SameCtx(e) == \A i \in {1, 2, 3, 5, 6} : e.ctxV[i] = e.ctxP[i]     \* coordinate 4 (statement) is xP / xV
SigmaAll(P, x, reps) == \A i \in 1..Len(reps) : AccRed(P, x, reps[i].cm, RedBytes(reps[i].e), reps[i].z)
AllZero(reps) == \A i \in 1..Len(reps) : RedBytes(reps[i].e) = 0
HashOK(e) ==
  CASE e.vcomp = "fs" -> /\ Len(e.dec) = 1 /\ SameCtx(e) /\ e.xV = e.xP
                         /\ e.dec[1].cm = e.orig[1].cm /\ e.dec[1].e = e.orig[1].e
    [] e.vcomp = "fischlin" -> SameCtx(e) /\ e.xV = e.xP /\ e.dec = e.orig
    [] e.vcomp = "randfischlin" -> SameCtx(e) /\ e.dec = e.orig
AcceptNI(e) == /\ e.decok /\ e.vcomp = e.comp /\ HashOK(e)
               /\ (e.exact => SigmaAll(e.P, e.xV, e.dec))
AcceptTok(e) == e.decok /\ e.vcomp = e.comp /\ SameCtx(e) /\ e.xV = e.xP /\ e.dec = e.orig
Untouched(e) == e.decok /\ e.vcomp = e.comp /\ e.dec = e.orig
\* the property, literally: accepted iff same context, same statement, untouched decoded value
\* (randomised Fischlin binds the statement through the sigma equation only: all challenges = 0 mod Q is the guard)
Property(e) == e.ok <=> (SameCtx(e) /\ Untouched(e) /\
                          (e.xV = e.xP \/ (e.exact /\ e.comp = "randfischlin" /\ AllZero(e.orig))))

ZkAccept(e) ==
  IF e.exact
  THEN IF e.comp = "zk"
       THEN SameCtx(e) /\ e.xV = e.xP /\ e.eP = e.eV /\ AccP(e.P, e.xV, e.cmV, e.eV, e.zV)
       ELSE AccP(e.P, e.xV, e.cmV, e.eV, e.zV)
  ELSE IF e.comp = "zk"
       THEN SameCtx(e) /\ e.xV = e.xP /\ e.eP = e.eV /\ e.cmP = e.cmV /\ e.zP = e.zV /\ e.zV # 0
       ELSE e.xV = e.xP /\ e.eP = e.eV /\ e.cmP = e.cmV /\ e.zP = e.zV /\ e.zV # 0

Check(e) ==
  CASE e.a = "hdr" -> TRUE
    [] e.a = "run" ->
         LET P == e.P  E1 == RedBytes(e.e)  E2 == RedBytes(e.e2)  SE == RedBytes(e.se) IN
         /\ e.valid /\ e.x = StmtOf(P, e.w)
         /\ e.cm = CommitOf(P, e.r)
         /\ e.z = RespOf(P, e.r, E1, e.w) /\ e.ok /\ AccP(P, e.x, e.cm, e.e, e.z)         \* completeness
         /\ e.z2 = RespOf(P, e.r, E2, e.w) /\ e.ok2 /\ AccP(P, e.x, e.cm, e.e2, e.z2)
         /\ e.hasx => (/\ e.xok <=> CanExtract(E1, E2)                                    \* special soundness
                       /\ e.xok => (e.wx = e.w /\ IsExtract(E1, e.z, E2, e.z2, e.wx) /\ StmtOf(P, e.wx) = e.x))
         /\ e.sa = SimOf(P, e.x, SE, e.sz) /\ e.sok /\ AccP(P, e.x, e.sa, e.se, e.sz)     \* simulated transcripts verify
    [] e.a = "vfy" -> ~e.panic /\ (e.ok <=> AccP(e.P, e.x, e.cm, e.e, e.z))
    [] e.a = "ext" ->
         LET E1 == RedBytes(e.e)  E2 == RedBytes(e.e2) IN
         /\ e.ok <=> (AccP(e.P, e.x, e.cm, e.e, e.z) /\ AccP(e.P, e.x, e.cm, e.e2, e.z2) /\ CanExtract(E1, E2))
         /\ e.ok => (IsExtract(E1, e.z, E2, e.z2, e.wx) /\ StmtOf(e.P, e.wx) = e.x)
    [] e.a = "and" ->
         /\ ~e.panic
         /\ e.variant \in {"honest", "sim"} => e.ok          \* completeness; simulated transcripts verify
         /\ e.ok <=> (/\ \A i \in 1..Len(e.lens) : e.lens[i] = Len(e.brs)
                      /\ \A i \in 1..Len(e.brs) : LET b == e.brs[i] IN AccP(b.P, b.x, b.cm, Prefix(e.e, b.el), b.z))
    [] e.a = "or" ->
         /\ ~e.panic
         /\ e.variant \in {"honest", "sim"} => e.ok          \* an OR proof with exactly one witness verifies; so does a simulated one
         /\ e.ok <=> (/\ \A i \in 1..Len(e.lens) : e.lens[i] = Len(e.brs)
                      /\ Len(e.e) = e.cl
                      /\ \A i \in 1..Len(e.brs) : Len(e.brs[i].e) = e.cl
                      /\ XorAllBytes([i \in 1..Len(e.brs) |-> e.brs[i].e], Len(e.brs)) = e.e
                      /\ \A i \in 1..Len(e.brs) : LET b == e.brs[i] IN AccP(b.P, b.x, b.cm, Prefix(b.e, b.el), b.z))
    [] e.a = "ni" ->
         /\ ~e.panic
         /\ e.ok <=> (IF e.exact THEN AcceptNI(e) ELSE AcceptTok(e))
    [] e.a = "zk" -> ~e.panic /\ (e.ok <=> ZkAccept(e))
    [] OTHER -> FALSE

\* Every line is judged exactly once, when it is consumed; a rejected line is reported and the walk
\* continues, so that one pass classifies the whole log (checks/C08.py turns every REJECT into a
\* violation keyed by the case).  "case": the code's result differs from the specification's;
\* "prop": the result matches the acceptance predicate but not the property as stated.
Judge(e, i) == /\ IF Check(e) THEN TRUE ELSE PrintT(<<"REJECT", i, "case">>)
               /\ IF e.a = "ni" THEN (IF Property(e) THEN TRUE ELSE PrintT(<<"REJECT", i, "prop">>)) ELSE TRUE
Init == l = 1
Next == l <= Len(Trace) /\ Judge(Trace[l], l) /\ l' = l + 1
Spec == Init /\ [][Next]_vars

\* the same as state predicates (not used by the cfg; see Judge)
CaseOK == l <= Len(Trace) => Check(Trace[l])
PropOK == l <= Len(Trace) /\ Trace[l].a = "ni" => Property(Trace[l])
\* the walk ends after the last line
Consumed == l <= Len(Trace) + 1
=============================================================================

CONSTANTS
  Q = 3
  KIND = "maurer"
  M <- MElcomop2
  GAMMA = 1
  K = 1
  CB = 2
INIT Init
NEXT Next
INVARIANTS TypeOK Completeness Completeness2 SpecialSoundness ExtractHonest ExtractWhen SimulatedAccepted 
CHECK_DEADLOCK FALSE

----------------------------- MODULE SigmaAlg -----------------------------
(* Algebra of the sigma protocols of pkg/proofs over Z_Q in discrete logs     *)
(* (every group element g^k is the integer k); no state.  Used by the design  *)
(* specifications Sigma / SigmaOr / SigmaNI and, unchanged, by SigmaTrace.    *)
(*   Maurer protocol for the linear map phi(v) = MM v (matrix MM given by     *)
(*   rows):  a = phi(r),  z = r + e w,  accept iff phi(z) = a + e x.          *)
(*   Batch Schnorr with generator g^gam: z = r + sum w_i e^i,                 *)
(*   accept iff gam z = a + sum x_i e^i.                                      *)
(* A challenge is a bit string (a natural number); it is used as the scalar   *)
(* Red(c) = c mod Q and combined by XOR in OR-compositions.                   *)
EXTENDS LinAlgQ

---------------------------------------------------------------------------
\* vectors over Z_Q
VAdd(u, v) == [i \in 1..Len(u) |-> Add(u[i], v[i])]
VSub(u, v) == [i \in 1..Len(u) |-> Sub(u[i], v[i])]
VScale(s, v) == [i \in 1..Len(v) |-> Mul(s, v[i])]
Vecs(n) == [1..n -> F]

\* challenges
RECURSIVE Pow2(_)
Pow2(n) == IF n = 0 THEN 1 ELSE 2 * Pow2(n - 1)
Red(c) == c % Q
RECURSIVE Xor(_, _)
Xor(a, b) == IF a = 0 THEN b ELSE IF b = 0 THEN a
             ELSE (((a % 2) + (b % 2)) % 2) + (2 * Xor(a \div 2, b \div 2))

\* ---- Maurer protocol for a linear map given by its matrix MM (rows) ----
PhiM(MM, v) == MatVec(MM, v)
MCommitM(MM, r) == PhiM(MM, r)
MRespond(r, c, w) == VAdd(r, VScale(Red(c), w))
MVerifyM(MM, x, a, c, z) == /\ Len(z) = NCols(MM) /\ Len(a) = NRows(MM) /\ Len(x) = NRows(MM)
                            /\ PhiM(MM, z) = VAdd(a, VScale(Red(c), x))
MSimulateM(MM, x, c, z) == VSub(PhiM(MM, z), VScale(Red(c), x))
\* maurer09.Extract: Bezout  alpha L + beta (e1 - e2) = 1 with L = Q needs gcd(Q, e1 - e2) = 1 over the
\* integers, i.e. e1 and e2 differ mod Q (otherwise the code returns its "should never happen" error);
\* with the anchor pre-image = identity the result is  beta (z1 - z2),  beta = (e1 - e2)^-1 mod Q
CanExtract(c1, c2) == Red(c1) # Red(c2)
MExtract(c1, z1, c2, z2) == VScale(Inv(Sub(Red(c1), Red(c2))), VSub(z1, z2))
\* the same relation without computing an inverse (cheap for large Q): (e1 - e2) wx = z1 - z2
IsExtract(c1, z1, c2, z2, wx) == Len(wx) = Len(z1) /\ VScale(Sub(Red(c1), Red(c2)), wx) = VSub(z1, z2)
\* block-diagonal matrix: the product map (AND-composition with a shared challenge)
BlockDiag(A, B) == [i \in 1..(NRows(A) + NRows(B)) |-> [j \in 1..(NCols(A) + NCols(B)) |->
                      IF i <= NRows(A) /\ j <= NCols(A) THEN A[i][j]
                      ELSE IF i > NRows(A) /\ j > NCols(A) THEN B[i - NRows(A)][j - NCols(A)] ELSE 0]]

\* ---- batch Schnorr ----
RECURSIVE PolyTail(_, _, _)
\* sum_{i=1..n} v[i] e^i
PolyTail(v, e, n) == IF n = 0 THEN 0 ELSE Add(PolyTail(v, e, n - 1), Mul(v[n], Pow(e, n)))
BCommitG(gam, r) == <<Mul(gam, r[1])>>
BRespond(r, c, w) == <<Add(r[1], PolyTail(w, Red(c), Len(w)))>>
BVerifyG(gam, x, a, c, z) == Mul(gam, z[1]) = Add(a[1], PolyTail(x, Red(c), Len(x)))
BSimulateG(gam, x, c, z) == <<Sub(Mul(gam, z[1]), PolyTail(x, Red(c), Len(x)))>>

=============================================================================

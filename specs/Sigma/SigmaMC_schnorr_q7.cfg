CONSTANTS
  Q = 7
  KIND = "maurer"
  M <- MSchnorr
  GAMMA = 1
  K = 1
  CB = 4
INIT Init
NEXT Next
INVARIANTS TypeOK Completeness Completeness2 SpecialSoundness ExtractHonest ExtractWhen SimulatedAccepted AndIsProduct
CHECK_DEADLOCK FALSE

------------------------------- MODULE Sigma -------------------------------
(* Sigma protocols of pkg/proofs over a toy scalar field Z_Q, in discrete     *)
(* logarithms (every group element g^k is the integer k).                     *)
(*                                                                            *)
(* KIND = "maurer": Maurer's protocol (pkg/proofs/internal/meta/maurer09) for *)
(*   the linear map  phi(v) = M v :  Z_Q^n -> Z_Q^m.                          *)
(*     Schnorr   phi(w)      = w                    M = ((1))                 *)
(*     Okamoto   phi(w1,w2)  = w1 + eta w2          M = ((1, eta)), h = g^eta *)
(*     elcomop   phi(m,lam)  = (lam, m + xi lam)    M = ((0,1),(1,xi))        *)
(*     AND-composition with one shared challenge is the protocol of the       *)
(*     block-diagonal map (theorem AndIsProduct, checked in SigmaMC).         *)
(* KIND = "batch": batch Schnorr (pkg/proofs/dlog/batch_schnorr), generator   *)
(*   g^GAMMA, K witnesses: z = r + sum_i w_i e^i, GAMMA z = a + sum_i x_i e^i.*)
(*                                                                            *)
(* A challenge is a bit string (here a natural < 2^CB); protocols use it as   *)
(* the scalar  Red(c) = c mod Q  (big-endian bytes reduced mod the group      *)
(* order), OR-composition combines challenges with XOR on the bit strings.    *)
(*                                                                            *)
(* The algebra is in SigmaAlg (used unchanged by SigmaTrace); this module is  *)
(* the three-move state machine Commit / Challenge / Respond / Verify /       *)
(* Rewind / Extract / Simulate with an honest and a cheating prover.          *)
(* SigmaOr: OR-composition; SigmaNI: the non-interactive compilers.           *)
EXTENDS SigmaAlg

CONSTANTS KIND,      \* "maurer" | "batch"
          M,         \* matrix of phi (maurer)
          GAMMA,     \* log of the generator in the batch statement
          K,         \* number of witnesses (batch)
          CB         \* challenge bits

ASSUME KIND \in {"maurer", "batch"} /\ CB \in Nat /\ K \in Nat /\ GAMMA \in F

---------------------------------------------------------------------------
\* the instance of this model
Phi(v) == PhiM(M, v)
NPre == NCols(M)
NImg == NRows(M)
MCommit(r) == MCommitM(M, r)
MVerify(x, a, c, z) == MVerifyM(M, x, a, c, z)
MSimulate(x, c, z) == MSimulateM(M, x, c, z)

Chal == 0..(Pow2(CB) - 1)
BCommit(r) == BCommitG(GAMMA, r)
BVerify(x, a, c, z) == Len(x) = K /\ BVerifyG(GAMMA, x, a, c, z)

\* ---- dispatch ----
IsBatch == KIND = "batch"
WitSpace == IF IsBatch THEN Vecs(K) ELSE Vecs(NPre)
RndSpace == IF IsBatch THEN Vecs(1) ELSE Vecs(NPre)
ComSpace == IF IsBatch THEN Vecs(1) ELSE Vecs(NImg)
Stmt(w) == IF IsBatch THEN VScale(GAMMA, w) ELSE Phi(w)
Commitment(r) == IF IsBatch THEN BCommit(r) ELSE MCommit(r)
Response(r, c, w) == IF IsBatch THEN BRespond(r, c, w) ELSE MRespond(r, c, w)
Accepts(x, a, c, z) == IF IsBatch THEN BVerify(x, a, c, z) ELSE MVerify(x, a, c, z)
Simulated(x, c, z) == IF IsBatch THEN BSimulateG(GAMMA, x, c, z) ELSE MSimulate(x, c, z)

\* ---- compositions over accepting predicates ----
\* AND: every conjunct accepts under the same challenge
AndAccepts(xs, as, c, zs) == /\ Len(as) = Len(xs) /\ Len(zs) = Len(xs)
                             /\ \A i \in 1..Len(xs) : Accepts(xs[i], as[i], c, zs[i])
\* OR (sigor): the response carries one challenge per branch; they must XOR to the verifier's challenge
RECURSIVE XorAll(_, _)
XorAll(es, n) == IF n = 0 THEN 0 ELSE Xor(XorAll(es, n - 1), es[n])
OrAccepts(xs, as, c, es, zs) == /\ Len(as) = Len(xs) /\ Len(zs) = Len(xs) /\ Len(es) = Len(xs)
                                /\ XorAll(es, Len(es)) = c
                                /\ \A i \in 1..Len(xs) : Accepts(xs[i], as[i], es[i], zs[i])

---------------------------------------------------------------------------
(* The three-move protocol with rewinding.  hon = TRUE: the prover knows w    *)
(* and follows the protocol; hon = FALSE: commitment and responses are        *)
(* arbitrary (this is what makes Verify and Extract be checked on every       *)
(* transcript, not only on honest ones).                                      *)
VARIABLES ph, hon, w, x, r, a, e, z, acc, e2, z2, acc2, wx
vars == <<ph, hon, w, x, r, a, e, z, acc, e2, z2, acc2, wx>>

None == <<>>
RespSpace == RndSpace

Init == /\ ph = "start" /\ hon \in BOOLEAN /\ w \in WitSpace /\ x = Stmt(w)
        /\ r = None /\ a = None /\ e = 0 /\ z = None /\ acc = FALSE
        /\ e2 = 0 /\ z2 = None /\ acc2 = FALSE /\ wx = None

Commit(rv) == /\ ph = "start" /\ hon
              /\ r' = rv /\ a' = Commitment(rv) /\ ph' = "committed"
              /\ UNCHANGED <<hon, w, x, e, z, acc, e2, z2, acc2, wx>>
AdvCommit(av) == /\ ph = "start" /\ ~hon
                 /\ a' = av /\ ph' = "committed"
                 /\ UNCHANGED <<hon, w, x, r, e, z, acc, e2, z2, acc2, wx>>
Challenge(c) == /\ ph = "committed" /\ e' = c /\ ph' = "challenged"
                /\ UNCHANGED <<hon, w, x, r, a, z, acc, e2, z2, acc2, wx>>
Respond == /\ ph = "challenged" /\ hon /\ z' = Response(r, e, w) /\ ph' = "responded"
           /\ UNCHANGED <<hon, w, x, r, a, e, acc, e2, z2, acc2, wx>>
AdvRespond(zv) == /\ ph = "challenged" /\ ~hon /\ z' = zv /\ ph' = "responded"
                  /\ UNCHANGED <<hon, w, x, r, a, e, acc, e2, z2, acc2, wx>>
Verify == /\ ph = "responded" /\ acc' = Accepts(x, a, e, z) /\ ph' = "verified"
          /\ UNCHANGED <<hon, w, x, r, a, e, z, e2, z2, acc2, wx>>
\* rewinding: same first message, a second challenge
Rewind(c) == /\ ph = "verified" /\ acc /\ e2' = c /\ ph' = "challenged2"
             /\ UNCHANGED <<hon, w, x, r, a, e, z, acc, z2, acc2, wx>>
Respond2 == /\ ph = "challenged2" /\ hon /\ z2' = Response(r, e2, w) /\ ph' = "responded2"
            /\ UNCHANGED <<hon, w, x, r, a, e, z, acc, e2, acc2, wx>>
AdvRespond2(zv) == /\ ph = "challenged2" /\ ~hon /\ z2' = zv /\ ph' = "responded2"
                   /\ UNCHANGED <<hon, w, x, r, a, e, z, acc, e2, acc2, wx>>
Verify2 == /\ ph = "responded2" /\ acc2' = Accepts(x, a, e2, z2) /\ ph' = "verified2"
           /\ UNCHANGED <<hon, w, x, r, a, e, z, acc, e2, z2, wx>>
\* Extract verifies both transcripts itself and needs invertible e - e2
ExtractOK == acc /\ acc2 /\ CanExtract(e, e2)
Extract == /\ ph = "verified2" /\ ~IsBatch
           /\ wx' = IF ExtractOK THEN MExtract(e, z, e2, z2) ELSE None
           /\ ph' = IF ExtractOK THEN "extracted" ELSE "noextract"
           /\ UNCHANGED <<hon, w, x, r, a, e, z, acc, e2, z2, acc2>>
\* the simulator: challenge first, response second, commitment last
Simulate(c, zv) == /\ ph = "start" /\ ~hon
                   /\ e' = c /\ z' = zv /\ a' = Simulated(x, c, zv) /\ ph' = "responded"
                   /\ UNCHANGED <<hon, w, x, r, acc, e2, z2, acc2, wx>>

Next == \/ \E rv \in RndSpace : Commit(rv)
        \/ \E av \in ComSpace : AdvCommit(av)
        \/ \E c \in Chal : Challenge(c) \/ Rewind(c)
        \/ Respond \/ Respond2 \/ Verify \/ Verify2 \/ Extract
        \/ \E zv \in RespSpace : AdvRespond(zv) \/ AdvRespond2(zv)
        \/ \E c \in Chal : \E zv \in RespSpace : Simulate(c, zv)
Spec == Init /\ [][Next]_vars

\* ---- properties ----
Completeness == hon /\ ph \in {"verified", "challenged2", "responded2", "verified2", "extracted", "noextract"} => acc
Completeness2 == hon /\ ph \in {"verified2", "extracted", "noextract"} => acc2
\* special soundness: whatever the prover did, two accepting transcripts with the same first message and
\* challenges that differ mod Q give a witness of the statement; an honest prover's own witness when phi is injective
SpecialSoundness == ph = "extracted" => Stmt(wx) = x
ExtractHonest == ph = "extracted" /\ hon => wx = w
ExtractWhen == ph \in {"extracted", "noextract"} => ((ph = "extracted") <=> (acc /\ acc2 /\ Red(e) # Red(e2)))
\* simulated transcripts verify (r = None marks a transcript that did not come from Commit)
SimulatedAccepted == ph = "verified" /\ ~hon /\ a = Simulated(x, e, z) => acc
TypeOK == /\ ph \in {"start", "committed", "challenged", "responded", "verified", "challenged2", "responded2",
                     "verified2", "extracted", "noextract"}
          /\ e \in Chal /\ e2 \in Chal /\ acc \in BOOLEAN /\ acc2 \in BOOLEAN
=============================================================================

INIT Init
NEXT Next
INVARIANT Consumed
CHECK_DEADLOCK FALSE

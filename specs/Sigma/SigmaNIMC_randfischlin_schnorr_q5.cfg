CONSTANTS
  Q = 5
  M <- MSchnorr
  CB = 3
  COMP = "randfischlin"
  RHO = 2
INIT Init
NEXT Next
INVARIANTS NIComplete NIBindCtx NIBindStmt NIBindProof NIAlteredRejected NIExactly
CHECK_DEADLOCK FALSE

------------------------------ MODULE LinAlgQ ------------------------------
(* Linear algebra over Z_Q by definition: matrices are sequences of rows.   *)
(* Nothing here is an algorithm (no elimination): determinant by Leibniz,   *)
(* rank by non-vanishing minors, solvability by rank (Rouche-Capelli) and,  *)
(* for tiny Q, by plain existential quantification; the model checker        *)
(* verifies that the two definitions agree on the enumerated scope.          *)
EXTENDS FieldQ, TLC

NRows(A) == Len(A)
NCols(A) == IF Len(A) = 0 THEN 0 ELSE Len(A[1])
IsMat(A, m, n) == Len(A) = m /\ \A i \in 1..m : IsVec(A[i], n)
WellFormed(A) == \A i \in 1..Len(A) : Len(A[i]) = NCols(A) /\ \A j \in 1..Len(A[i]) : A[i][j] \in F

Col(A, j) == [i \in 1..NRows(A) |-> A[i][j]]
Transpose(A) == [j \in 1..NCols(A) |-> Col(A, j)]
TransposeMN(A, m, n) == [j \in 1..n |-> [i \in 1..m |-> A[i][j]]]   \* also right for m = 0
MatVec(A, x) == [i \in 1..NRows(A) |-> Dot(A[i], x)]
VecMat(c, A) == [j \in 1..NCols(A) |-> Dot(c, Col(A, j))]
MatMul(A, B) == [i \in 1..NRows(A) |-> [j \in 1..NCols(B) |-> Dot(A[i], Col(B, j))]]
MatAdd(A, B) == [i \in 1..NRows(A) |-> [j \in 1..NCols(A) |-> Add(A[i][j], B[i][j])]]
MatScale(s, A) == [i \in 1..NRows(A) |-> [j \in 1..NCols(A) |-> Mul(s, A[i][j])]]
Identity(n) == [i \in 1..n |-> [j \in 1..n |-> IF i = j THEN 1 % Q ELSE 0]]
Unit(n, k) == [j \in 1..n |-> IF j = k THEN 1 % Q ELSE 0]
Augment(A, b) == [i \in 1..NRows(A) |-> Append(A[i], b[i])]
\* rows (sequence of indices) of A
SubRows(A, rs) == [k \in 1..Len(rs) |-> A[rs[k]]]

\* ---- determinant (Leibniz) ----
Inversions(p, n) == Cardinality({ij \in (1..n) \X (1..n) : ij[1] < ij[2] /\ p[ij[1]] > p[ij[2]]})
SignQ(p, n) == IF Inversions(p, n) % 2 = 0 THEN 1 % Q ELSE (Q - 1) % Q
PermSum(S, term(_)) ==
  LET RECURSIVE Go(_)
      Go(T) == IF T = {} THEN 0 ELSE LET p == CHOOSE p \in T : TRUE IN Add(term(p), Go(T \ {p}))
  IN Go(S)
Det(A) ==
  LET n == Len(A)
      term(p) == Mul(SignQ(p, n), ProdN([i \in 1..n |-> A[i][p[i]]], n))
  IN IF n = 0 THEN 1 % Q ELSE PermSum(Permutations(1..n), term)

\* ---- rank by minors ----
\* increasing index sequences of length k out of 1..n
RECURSIVE IncSeqs(_, _, _)
IncSeqs(lo, n, k) ==
  IF k = 0 THEN {<<>>}
  ELSE UNION {{<<i>> \o s : s \in IncSeqs(i + 1, n, k - 1)} : i \in lo..n}
Minor(A, rs, cs) == [a \in 1..Len(rs) |-> [b \in 1..Len(cs) |-> A[rs[a]][cs[b]]]]
HasMinor(A, k) == \E rs \in IncSeqs(1, NRows(A), k) : \E cs \in IncSeqs(1, NCols(A), k) : Det(Minor(A, rs, cs)) # 0
MinDim(A) == IF NRows(A) < NCols(A) THEN NRows(A) ELSE NCols(A)
Rank(A) == IF MinDim(A) = 0 THEN 0 ELSE
  LET ks == {k \in 1..MinDim(A) : HasMinor(A, k)} IN IF ks = {} THEN 0 ELSE CHOOSE k \in ks : \A j \in ks : j <= k

\* ---- solvability ----
\* A x = b (x column)        c A = r (c row)
SolvableRight(A, b) == Rank(A) = Rank(Augment(A, b))
SolvableLeft(A, r) == LET T == TransposeMN(A, NRows(A), Len(r)) IN Rank(T) = Rank(Augment(T, r))
SolvableRightEx(A, b) == \E x \in [1..NCols(A) -> F] : MatVec(A, x) = b
SolvableLeftEx(A, r) == \E c \in [1..NRows(A) -> F] : VecMat(c, A) = r
IsInverse(A, B) == MatMul(A, B) = Identity(Len(A)) /\ MatMul(B, A) = Identity(Len(A))
Invertible(A) == Det(A) # 0

\* ---- Vandermonde / Birkhoff rows ----
VandermondeRow(x, cols) == [j \in 1..cols |-> Pow(x, j - 1)]
\* row of the j-th derivative of (1, x, x^2, ...) at x
BirkhoffRow(x, d, cols) == [j \in 1..cols |-> IF j - 1 < d THEN 0 ELSE Mul(Falling(j - 1, d), Pow(x, j - 1 - d))]
=============================================================================

-------------------------------- MODULE MSPQ --------------------------------
(* Monotone span programmes over Z_Q as data: matrix M (sequence of rows), row  *)
(* labels lab (lab[k] = holder of row k); shares, vector sums and the Schnorr    *)
(* verification equation in the exponent. Pure operators shared by the protocol  *)
(* specifications.                                                               *)
EXTENDS LinAlgQ

RECURSIVE SortedSeq(_)
SortedSeq(S) == IF S = {} THEN <<>>
                ELSE LET m == CHOOSE m \in S : \A y \in S : m <= y IN <<m>> \o SortedSeq(S \ {m})
Holders(lab) == {lab[k] : k \in 1..Len(lab)}
RowsOfSet(lab, S) == SortedSeq({k \in 1..Len(lab) : lab[k] \in S})
RowsOf(lab, h) == RowsOfSet(lab, {h})
ShareOf(M, lab, r, h) == LET rs == RowsOf(lab, h) IN [k \in 1..Len(rs) |-> Dot(M[rs[k]], r)]
SharesOf(M, lab, r) == [h \in Holders(lab) |-> ShareOf(M, lab, r, h)]
E0(n) == Unit(n, 1)
VecAdd(u, v) == [k \in 1..Len(u) |-> Add(u[k], v[k])]
RECURSIVE VecSum(_, _, _)      \* sum of f[i] over the set I of vectors of length n
VecSum(f, I, n) == IF I = {} THEN [k \in 1..n |-> 0]
                   ELSE LET i == CHOOSE i \in I : TRUE IN VecAdd(f[i], VecSum(f, I \ {i}, n))
RECURSIVE SumOver(_, _)
SumOver(f, I) == IF I = {} THEN 0 ELSE LET i == CHOOSE i \in I : TRUE IN Add(f[i], SumOver(f, I \ {i}))
PartialResponse(k, e, a) == Add(k, Mul(e, a))
\* public verification in the exponent: g^S = R * pk^e
SchnorrVerifies(R, S, e, x) == S = Add(R, Mul(e, x))

=============================================================================

------------------------------ MODULE FieldQ ------------------------------
(* Arithmetic of the prime field Z_Q, by the textbook definitions.        *)
(* Q is small enough that Q*Q fits TLC's 32-bit integers (Q <= 46337).    *)
EXTENDS Integers, Sequences, FiniteSets

CONSTANT Q
ASSUME QPrime == Q \in Nat /\ Q > 1 /\ \A d \in 2..(Q-1) : d * d > Q \/ Q % d # 0

F == 0..(Q-1)

Norm(x) == x % Q                       \* TLC's % is the mathematical modulus for Q > 0
Add(a, b) == (a + b) % Q
Sub(a, b) == (a - b) % Q
Neg(a) == (0 - a) % Q
Mul(a, b) == (a * b) % Q

RECURSIVE Pow(_, _)
Pow(a, n) == IF n = 0 THEN 1 % Q ELSE Mul(a, Pow(a, n - 1))

\* multiplicative inverse by its defining property (0 has none)
HasInv(a) == a % Q # 0
Inv(a) == CHOOSE y \in F : Mul(a, y) = 1 % Q
Div(a, b) == Mul(a, Inv(b))

\* sum / product of f[1..n]
RECURSIVE SumN(_, _)
SumN(f, n) == IF n = 0 THEN 0 ELSE Add(SumN(f, n - 1), f[n])
RECURSIVE ProdN(_, _)
ProdN(f, n) == IF n = 0 THEN 1 % Q ELSE Mul(ProdN(f, n - 1), f[n])
SumSeqQ(s) == SumN(s, Len(s))
ProdSeqQ(s) == ProdN(s, Len(s))

Dot(u, v) == SumN([i \in 1..Len(u) |-> Mul(u[i], v[i])], Len(u))

IsElem(x) == x \in F
IsVec(v, n) == Len(v) = n /\ \A i \in 1..n : v[i] \in F

\* polynomial with coefficient sequence c (c[1] is the constant term), by Horner
RECURSIVE HornerN(_, _, _)
HornerN(c, x, k) == IF k > Len(c) THEN 0 ELSE Add(c[k], Mul(x, HornerN(c, x, k + 1)))
EvalPoly(c, x) == HornerN(c, x, 1)

\* falling factorial k (k-1) ... (k-j+1) mod Q, and the j-th formal derivative evaluated at x
RECURSIVE Falling(_, _)
Falling(k, j) == IF j = 0 THEN 1 % Q ELSE Mul(k % Q, Falling(k - 1, j - 1))
DerivEval(c, j, x) ==
  SumN([k \in 1..Len(c) |-> IF k - 1 < j THEN 0 ELSE Mul(Mul(Falling(k - 1, j), c[k]), Pow(x, k - 1 - j))], Len(c))
=============================================================================
